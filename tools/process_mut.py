#!/usr/bin/env python3
"""tools/process_mut.py <id> [tier] — for every seeded change under /tmp/mut-<id>/out/<i>/: confirm it in a scratch worktree
(build ok, repo test suite ok, demo fails with / passes without), run the property's check against it (tools/seedtest.sh),
store it under seeded/<id>-<i>/ with the result. Prints one line per change."""
import json, os, subprocess, sys, shutil, glob
pid = sys.argv[1]; tier = 'quick'
tag = sys.argv[2] if len(sys.argv) > 2 else ''
src = '/tmp/mut%s-%s/out' % (tag, pid.lower())
env = dict(os.environ, GOFLAGS='-mod=mod', GOPROXY='off', GOSUMDB='off', GOTOOLCHAIN='local')
wt = '/tmp/confirmwt-' + pid
def sh(cmd, cwd=None, timeout=1800):
    try:
        p = subprocess.run(cmd, shell=True, cwd=cwd, env=env, capture_output=True, text=True, timeout=timeout)
        return p.returncode, p.stdout + p.stderr
    except subprocess.TimeoutExpired:
        return 124, 'timeout'
if not os.path.isdir(wt):
    sh('git -C /repo worktree add --detach %s main' % wt)
def reset():
    sh('git -C %s checkout -q --detach main; git -C %s reset -q --hard main; git -C %s clean -fdq' % (wt, wt, wt))
suite_cache = {}
for d in sorted(glob.glob(src + '/[0-9]*')):
    i = os.path.basename(d)
    if not os.path.exists(d + '/patch.diff'):
        continue
    meta = json.load(open(d + '/meta.json')) if os.path.exists(d + '/meta.json') else {}
    reset()
    demo_go = [f for f in os.listdir(d) if f.endswith('_test.go')]
    demo_sh = os.path.join(d, 'demo.sh') if os.path.exists(d + '/demo.sh') else None
    def run_demo():
        if demo_sh:
            return sh('bash %s %s' % (demo_sh, wt), timeout=900)[0]
        pkg = meta.get('demo_pkg', '').strip('./') or 'functions'
        for f in demo_go:
            shutil.copy(os.path.join(d, f), os.path.join(wt, pkg, 'zz_verif_' + f))
        rc, out = sh('go test -vet=off -count=1 -run %s ./%s/' % (json.dumps(meta.get('demo_run', '.')), pkg), cwd=wt, timeout=900)
        for f in demo_go:
            os.remove(os.path.join(wt, pkg, 'zz_verif_' + f))
        return rc
    clean_rc = run_demo()
    rc, out = sh('git apply %s/patch.diff' % d, cwd=wt)
    if rc != 0:
        print('%s-%s PATCH-DOES-NOT-APPLY' % (pid, i)); continue
    build_rc = sh('go build ./...', cwd=wt)[0]
    mut_rc = run_demo()
    suite_rc = sh('go test -vet=off -count=1 ./... ', cwd=wt, timeout=1500)[0]
    reset()
    confirmed = clean_rc == 0 and build_rc == 0 and mut_rc != 0 and suite_rc == 0
    rc, out = sh('/verif/tools/seedtest.sh %s %s/patch.diff %s' % (pid, d, tier), timeout=3600)
    caught = 'CAUGHT' in out
    verdict = [l for l in out.split('\n') if l.startswith('VIOLATION') or l.startswith('OK ')]
    print('%s-%s confirmed=%s (clean=%s build=%s mutant=%s suite=%s) check=%s %s' % (pid, i, confirmed, clean_rc, build_rc, mut_rc, suite_rc, 'CAUGHT' if caught else 'MISSED', (verdict[-1][:120] if verdict else out[-200:])), flush=True)
    if confirmed:
        dst = '/verif/seeded/%s-%s%s' % (pid, ('r' + tag + '-') if tag else '', i)
        os.makedirs(dst, exist_ok=True)
        shutil.copy(d + '/patch.diff', dst)
        for f in os.listdir(d):
            if f.startswith('demo'):
                shutil.copy(os.path.join(d, f), os.path.join(dst, f + ('.txt' if f.endswith('.go') else '')))
        meta['confirmed_by_coordinator'] = 'tools/process_mut.py in a scratch worktree: demo passes on clean main; go build ./... ok with the change; demo fails with the change; repository test suite passes with the change'
        meta['check_result'] = ('tools/seedtest.sh %s (%s tier): ' % (pid, tier)) + ('CAUGHT: ' + (verdict[-1] if verdict else '') if caught else 'MISSED')
        json.dump(meta, open(dst + '/meta.json', 'w'), indent=1)
sh('git -C /repo worktree remove --force %s' % wt)
