#!/usr/bin/env python3
"""tools/storeseed.py <id> <src out dir> <i> <result text> — copies a confirmed seeded change into seeded/<id>-<i>/"""
import json, os, shutil, sys
pid, src, i, result = sys.argv[1:5]
d = '/verif/seeded/%s-%s' % (pid, i)
os.makedirs(d, exist_ok=True)
shutil.copy(os.path.join(src, i, 'patch.diff'), d)
for f in os.listdir(os.path.join(src, i)):
    if f.startswith('demo'):
        shutil.copy(os.path.join(src, i, f), os.path.join(d, f + ('.txt' if f.endswith('.go') else '')))
m = json.load(open(os.path.join(src, i, 'meta.json')))
m['confirmed_by_coordinator'] = 'tools/confirm_seed.sh in a scratch worktree: demo passes on clean main; go build ./... ok with the change; demo fails with the change; repository test suite passes with the change'
m['check_result'] = result
json.dump(m, open(os.path.join(d, 'meta.json'), 'w'), indent=1)
