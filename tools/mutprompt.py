#!/usr/bin/env python3
"""tools/mutprompt.py <id> [n]  — creates the scratch worktree /tmp/mut-<id> and prints the prompt for a fresh sub-agent."""
import json, subprocess, sys
pid = sys.argv[1]; n = int(sys.argv[2]) if len(sys.argv) > 2 else 3
tag = sys.argv[3] if len(sys.argv) > 3 else ''
p = [json.loads(l) for l in open('/verif/properties.jsonl')]
p = [x for x in p if x['id'] == pid][0]
wt = '/tmp/mut' + tag + '-' + pid.lower()
subprocess.run(['git', '-C', '/repo', 'worktree', 'add', wt, '-b', 'mut' + tag + '-' + pid.lower(), 'main'], capture_output=True)
import glob, re
tried = []
for mf in sorted(glob.glob('/verif/seeded/%s-*/meta.json' % pid)):
    mm = json.load(open(mf))
    tried.append('- ' + re.sub(r'\s+', ' ', str(mm.get('summary', '')))[:260])
already = ('\n\nAn earlier batch of changes has already been tried; do something DIFFERENT from all of these (other code paths, other clauses of the property, other kinds of trigger conditions):\n' + '\n'.join(tried)) if tag and tried else ''
print(f"""You are testing how robust a Go project is against subtle regressions. The project is cube2222/octosql (a streaming SQL query engine, 2021 version); you have your own scratch git worktree of it at {wt} (work ONLY there; never touch /repo, and do not read or list anything under /verif). Go env for every shell call: `export GOFLAGS=-mod=mod GOPROXY=off GOSUMDB=off GOTOOLCHAIN=local` (no network is available). Building the CLI: `go build -o /tmp/{pid.lower()}-octosql .` in the worktree (about a minute the first time); run it with `OCTOSQL_NO_TELEMETRY=1 HOME=<some scratch dir>`.

Here is a semantic property the project is supposed to satisfy:

Title: {p['title']}
Statement: {p['statement']}
Quantified over: {p['quantifier']['text']}
Code it is anchored in: {', '.join(p['anchors']['files'])}
Mechanisms meant to make it hold: {'; '.join(m['name'] + ' (' + m['where'] + ')' for m in p['anchors']['mechanism'])}
Where it can be observed: {'; '.join(p['anchors'].get('observe_at', []))}

Produce {n} different, independent changes to the project's source (each as its own patch against the current HEAD of your worktree) that each BREAK this property while (a) the project still compiles (`go build ./...`) and (b) its existing test suite still passes (`go test -vet=off -count=1 ./...`, about a minute). Make them realistic — the kind of slip a maintainer could make in a refactoring, a clean-up or an "optimisation" — and make each need something specific to manifest rather than failing on every input: a particular interleaving or ordering, a crash or fault at a particular point, a multi-step sequence of operations, an unusual input or boundary value, or two cooperating edits that each look fine alone. Avoid changes that ordinary use would expose at once. Spread the changes over different parts of the anchored code / different clauses of the property.{already}

For each change i in 1..{n} write into {wt}/out/<i>/: `patch.diff` (output of `git diff` for that change alone, applicable with `git apply` to a clean HEAD), a demonstration (`demo_test.go`: a Go test you place temporarily inside the worktree to run it — or `demo.sh` if the property is observed through the CLI — that FAILS with the change applied and PASSES without it; verify both yourself; a `demo.sh` takes the path of a source tree as $1, builds whatever it needs from that tree into a temp dir, and exits 0 when the behaviour is right and non-zero when the property is violated), and `meta.json` {{"property":"{pid}","summary":...,"needs":"what specific input/sequence/schedule is needed for it to manifest","demo_pkg":"package directory the demo test must be copied into (if a Go test)","demo_run":"the -run regex or the command","files":[...]}}. Put a `go.mod` (`module demos`) into {wt}/out so the repo's own `go test ./...` ignores that directory. Never use `git stash` (it is shared between worktrees of the same repository). After generating each patch restore the worktree to a clean HEAD (`git checkout -- . && git clean -fdq -e out`). Final message: one short paragraph per change (what it does, why it breaks the property, what it needs to manifest) and confirmation that build + tests pass with each and that each demo fails with / passes without the change.""")
