#!/bin/sh
# tools/pick.sh <findings-id> <commit>...  : cherry-pick builder commits into /repo main and rewrite the hashes in findings/<id>.txt (and design/<id>.md)
id="$1"; shift
for c in "$@"; do
  git -C /repo cherry-pick "$c" >/dev/null 2>&1 || { echo "CONFLICT at $c"; git -C /repo status --short | head; exit 1; }
  new=$(git -C /repo rev-parse --short HEAD)
  short=$(git -C /repo rev-parse --short "$c")
  for f in /verif/findings/$id.txt /verif/design/$id.md /verif/meta/$id.json; do [ -f "$f" ] && sed -i "s/$short/$new/g" "$f"; done
  echo "picked $short -> $new $(git -C /repo log -1 --format=%s | cut -c1-70)"
done
