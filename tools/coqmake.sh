#!/bin/sh
# ./tools/coqmake.sh Properties/C22.vo [more targets]   — the only way to compile inside /verif/coq
cd "$(dirname "$0")/.." || exit 2
mkdir -p .build
exec flock .build/coq.lock sh -c './tools/coqproject.sh && timeout ${COQMAKE_TIMEOUT:-1500} make -C coq -j8 "$@" 2>&1 | grep -v "^COQDEP\|^make\[" ' coqmake "$@"
