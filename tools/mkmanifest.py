#!/usr/bin/env python3
"""Assembles MANIFEST.json from meta/<id>.json (claimed checks) and meta/not_applicable.json."""
import glob, json, os
V = os.path.dirname(os.path.dirname(os.path.abspath(__file__)))
props = [json.loads(l)["id"] for l in open(os.path.join(V, "properties.jsonl"))]
checks, claimed = [], set()
ready = set(json.load(open(os.path.join(V, "meta", "ready.json"))))  # ids whose check has been integrated and passes on /repo
for pid in props:
    if pid not in ready:
        continue
    p = os.path.join(V, "meta", pid + ".json")
    if not os.path.exists(p):
        continue
    m = json.load(open(p))
    if m.get("disabled"):
        continue
    claimed.add(pid)
    checks.append({
        "property_id": pid,
        "quick_cmd": "./check %s --tier quick" % pid,
        "thorough_cmd": "./check %s --tier thorough" % pid,
        "evidence_file": "/verif/evidence/%s.json" % pid,
        "replay_cmd_template": "./check %s --replay {path}" % pid,
        "engine": m["engine"],
        "level_claimed": {"category": "proof", "text": m.get("level_text", ""), "design_ref": m.get("design_ref", "DESIGN.md section 4, " + pid)},
        "level_note": m.get("level_note", "; ".join(m.get("trusted_base", []))),
        "technique": m.get("technique", "Coq 8.16 model + theorems (induction over all histories); model tied to /repo by a differential run of the model (vm_compute) against the implementation on generated cases, plus an executable oracle on the implementation's output"),
    })
na_path = os.path.join(V, "meta", "not_applicable.json")
na_reasons = json.load(open(na_path)) if os.path.exists(na_path) else {}
na = [{"property_id": pid, "reason": na_reasons.get(pid, "check not built yet in this round; see DESIGN.md section 4 for the planned model and theorems")}
      for pid in props if pid not in claimed]
engines = [{"name": c["engine"], "path": "/verif/harness/cmd/" + c["engine"], "serves_properties": [c["property_id"]],
            "kind_free_text": "Go differential engine (implementation side) + Coq model evaluated by vm_compute (model side)"} for c in checks]
man = {
    "version": 1,
    "setup_cmd": "./tools/setup.sh",
    "hooks": {
        "guard": "verif",
        "enable": "go build -tags verif (every engine under harness/cmd is built with the tag against /repo's working tree)",
        "baseline_off_cmd": "cd /repo && GOFLAGS=-mod=mod GOPROXY=off GOSUMDB=off GOTOOLCHAIN=local go test -vet=off -count=1 -timeout 25m ./...",
        "source_commits": json.load(open(os.path.join(V, "meta", "hook_commits.json"))) if os.path.exists(os.path.join(V, "meta", "hook_commits.json")) else [],
        "add_only": True,
    },
    "engines": engines,
    "checks": checks,
    "notes": "One driver (./check <id>) per property: rebuild engine from /repo -> regenerate Gen/*.v -> make Properties/<id>.vo -> implementation vs model on generated cases -> verdict. Fixed defects and known findings are in findings/<id>.txt.",
    "not_applicable": na,
}
json.dump(man, open(os.path.join(V, "MANIFEST.json"), "w"), indent=1)
print("claimed", len(checks), "not_applicable", len(na))
