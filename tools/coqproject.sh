#!/bin/sh
# Regenerates coq/_CoqProject (file list by glob) and coq/Makefile when the file set changed.
cd "$(dirname "$0")/../coq" || exit 2
{ echo "-Q . Octo"; echo "-arg -w -arg -notation-overridden,-deprecated-hint-without-locality,-deprecated-instance-without-locality"; ls Model/*.v Gen/*.v Proofs/*.v Properties/*.v 2>/dev/null | LC_ALL=C sort; } > _CoqProject.new
if ! cmp -s _CoqProject.new _CoqProject 2>/dev/null || [ ! -f Makefile ]; then
  mv _CoqProject.new _CoqProject
  coq_makefile -f _CoqProject -o Makefile >/dev/null
else
  rm -f _CoqProject.new
fi
