#!/usr/bin/env python3
"""tools/multiseed.py <id> <seed> [<seed>...] — runs the check of <id> against each stored seeded change with each seed; prints CAUGHT/MISSED per (change, seed)."""
import glob, os, subprocess, sys
pid = sys.argv[1]; seeds = sys.argv[2:]
for d in sorted(glob.glob('/verif/seeded/%s-*' % pid)):
    res = []
    for s in seeds:
        p = subprocess.run(['/verif/tools/seedtest.sh', pid, d + '/patch.diff'], capture_output=True, text=True, env=dict(os.environ, VERIF_SEED=s))
        res.append('%s:%s' % (s, 'C' if 'CAUGHT' in p.stdout else 'M'))
    print(d.split('/')[-1], ' '.join(res), flush=True)
