#!/bin/sh
# tools/seedtest.sh <property id> <patch.diff> [tier]
# Applies a seeded change to a scratch worktree of /repo's main, runs the property's check against it,
# prints the verdict line, and removes the change again.  Exit 0 = the check caught it (exit 1 + VIOLATION).
id="$1"; patch="$(readlink -f "$2")"; tier="${3:-quick}"
# one seeded run per property at a time (they share the scratch worktree)
exec 9>/tmp/seedtest-$id.lock; flock 9
wt=/tmp/seedwt-$id
cd "$(dirname "$0")/.." || exit 2
if [ ! -d "$wt" ]; then git -C /repo worktree add --detach "$wt" main >/dev/null 2>&1 || exit 2; fi
git -C "$wt" checkout -q --detach main && git -C "$wt" reset -q --hard main && git -C "$wt" clean -fdq
git -C "$wt" apply "$patch" || { echo "PATCH DOES NOT APPLY"; exit 2; }
VERIF_EVIDENCE_DIR=/tmp/seedtest-evidence VERIF_REPLAY_DIR=/tmp/seedtest-replays VERIF_REPO="$wt" ./check "$id" --tier "$tier" > /tmp/seedtest-$id.out 2>/tmp/seedtest-$id.err
rc=$?
grep -E "^(VIOLATION|OK|KNOWN-FINDING)" /tmp/seedtest-$id.out
git -C "$wt" reset -q --hard main && git -C "$wt" clean -fdq
if [ $rc -eq 1 ] && grep -q "^VIOLATION property=$id" /tmp/seedtest-$id.out; then echo "CAUGHT"; exit 0; fi
echo "MISSED (rc=$rc)"; exit 1
