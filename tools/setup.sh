#!/bin/sh
# Run once after a fresh restore, offline: builds every engine and the whole Coq development.
cd "$(dirname "$0")/.." || exit 2
export GOFLAGS=-mod=mod GOPROXY=off GOSUMDB=off GOTOOLCHAIN=local CGO_ENABLED=0
mkdir -p .build coq/Gen coq/Cases evidence replays
python3 - <<'PY'
import json, glob, os, subprocess, sys
sys.path.insert(0, ".")
import importlib.machinery, importlib.util
loader = importlib.machinery.SourceFileLoader("check", "./check")
spec = importlib.util.spec_from_loader("check", loader)
chk = importlib.util.module_from_spec(spec); loader.exec_module(chk)
ready = set(json.load(open("meta/ready.json")))
for mp in sorted(glob.glob("meta/C*.json")):
    m = json.load(open(mp))
    if m["id"] not in ready: continue
    if m.get("disabled"): continue
    c = chk.Check(m["id"], "quick", 1, None)
    ok, out = c.build_engine()
    if not ok:
        print("engine build failed for", m["id"], out[-2000:]); continue
    if m.get("gen"):
        rc, out, dt = chk.run([c.engine_bin, "gen", "-out", os.path.join(chk.COQ, "Gen")], cwd=c.build, timeout=900)
        if rc != 0:
            print("translator failed for", m["id"], out[-2000:]); continue
PY
[ $? -eq 0 ] || exit 1
./tools/coqproject.sh
# build each claimed property's target on its own: one property that does not build must not stop the others
# (its own check will report it)
for m in meta/C*.json; do
  t=$(python3 -c "import json,sys; m=json.load(open('$m')); r=json.load(open('meta/ready.json')); print('' if (m.get('disabled') or m['id'] not in r) else m['properties_file'][:-2]+'.vo')")
  [ -n "$t" ] && { timeout 3000 make -C coq -j16 "$t" >/dev/null 2>&1 || echo "setup: $t did not build (its check will report it)"; }
done
echo setup ok
exit 0
