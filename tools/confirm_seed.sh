#!/bin/sh
# tools/confirm_seed.sh <dir with patch.diff + demo_test.go> <package dir for the demo> <go test -run regex>
# Confirms a seeded change in a scratch worktree: builds, passes the repository's tests, demo fails with it and passes without.
dir="$1"; pkg="$2"; re="$3"
export GOFLAGS=-mod=mod GOPROXY=off GOSUMDB=off GOTOOLCHAIN=local
wt=/tmp/confirmwt
[ -d "$wt" ] || git -C /repo worktree add --detach "$wt" main >/dev/null 2>&1
git -C "$wt" checkout -q --detach main; git -C "$wt" reset -q --hard main; git -C "$wt" clean -fdq
cp "$dir/demo_test.go" "$wt/$pkg/zz_verif_demo_test.go"
(cd "$wt" && go test -vet=off -count=1 -run "$re" "./$pkg/" >/tmp/confirm.clean 2>&1); c=$?
git -C "$wt" apply "$dir/patch.diff" || { echo "patch does not apply"; exit 2; }
(cd "$wt" && go build ./... >/tmp/confirm.build 2>&1); b=$?
(cd "$wt" && go test -vet=off -count=1 -run "$re" "./$pkg/" >/tmp/confirm.mut 2>&1); m=$?
rm -f "$wt/$pkg/zz_verif_demo_test.go"
(cd "$wt" && go test -vet=off -count=1 ./... >/tmp/confirm.suite 2>&1); s=$?
git -C "$wt" reset -q --hard main; git -C "$wt" clean -fdq
echo "demo_on_clean_rc=$c build_rc=$b demo_on_mutant_rc=$m suite_rc=$s"
[ $c -eq 0 ] && [ $b -eq 0 ] && [ $m -ne 0 ] && [ $s -eq 0 ] && echo CONFIRMED || { echo NOT-CONFIRMED; exit 1; }
