#!/usr/bin/env python3
"""tools/reseed.py <id> [<other-id-check>] — re-runs the property's check against every stored seeded change of that id and
updates seeded/<id>-<i>/meta.json. A change that was MISSED before and is caught now is recorded as 'CAUGHT after strengthening'."""
import glob, json, subprocess, sys
pid = sys.argv[1]
for d in sorted(glob.glob('/verif/seeded/%s-*' % pid)):
    m = json.load(open(d + '/meta.json'))
    p = subprocess.run(['/verif/tools/seedtest.sh', pid, d + '/patch.diff'], capture_output=True, text=True)
    out = p.stdout
    verdict = [l for l in out.split('\n') if l.startswith('VIOLATION') or l.startswith('OK ')]
    caught = 'CAUGHT' in out
    old = m.get('check_result', '')
    was_missed = ('MISSED' in old and 'now CAUGHT' not in old and 'after strengthening' not in old and '-> CAUGHT' not in old) or 'MISSED at first' in old
    if caught and (was_missed or 'strengthen' in old):
        m['check_result'] = 'MISSED at first; the check was strengthened (see design/%s.md, section on seeded changes); re-run of tools/seedtest.sh %s (quick tier): now CAUGHT: %s' % (pid, pid, verdict[-1] if verdict else '')
    elif caught:
        m['check_result'] = 'tools/seedtest.sh %s (quick tier): CAUGHT: %s' % (pid, verdict[-1] if verdict else '')
    else:
        m['check_result'] = 'tools/seedtest.sh %s (quick tier): MISSED (still, after the strengthening round)' % pid if was_missed else 'tools/seedtest.sh %s (quick tier): MISSED (regression: it was caught before)' % pid
    json.dump(m, open(d + '/meta.json', 'w'), indent=1)
    print(d.split('/')[-1], 'CAUGHT' if caught else 'MISSED', (verdict[-1][:100] if verdict else ''), flush=True)
