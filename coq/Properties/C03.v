(* Properties/C03.v — GROUP BY and aggregates match relational semantics.
   Statements only; proofs are in Proofs/RelProofs.v.  Model: Model/Rel.v
     group_node   : nodes.SimpleGroupBy — a map from group key (equality: Compare = 0 position by position) to the
                    aggregate state machines of aggregates/*.go, AggregatedSetSize and the record count; at the end
                    one record per key, an aggregate's Trigger() when its set size is positive, NULL otherwise;
     den_group    : one row per distinct key (first occurrences), each aggregate a function of the list of the
                    group's non-NULL inputs (agg_den): count = length, sum = wrapped sum, avg = wrapped sum
                    quotient length truncated toward zero, min/max, array_agg = ascending sort; DISTINCT variants
                    on the inputs without repetitions; NULL for an empty list.
   A key row prepared by eval_keyed is (key values, one input value per aggregate). *)
From Coq Require Import Permutation.
From Octo Require Import Values Rel RelProofs.

(* Every grouping query of the fragment over any database of plain values: the pipeline returns the rows the
   relational semantics defines (C01_select restricted to grouping queries). *)
Theorem C03_group : forall t db, in_fragment t = true -> plain_db db = true -> is_group_query t = true ->
  result_equiv (has_order_by t) (exec_top db t) (den_top db t).
Proof. intros t db F P _. exact (select_equiv db t F P). Qed.
Print Assumptions C03_group.

(* The group-by node itself, for every list of prepared rows of any length, any keys (NULL keys included), any
   number of aggregates: it never panics (no division by zero in AVG, no Min of an empty tree) and returns
   exactly den_group, in first-occurrence order of the keys. *)
Theorem C03_group_node : forall aggs kl, plain_keyed kl -> group_node aggs kl = Ok (den_group aggs kl).
Proof. exact group_node_correct. Qed.
Print Assumptions C03_group_node.

(* den_group has one row per distinct key: every input row's key is represented, result keys are input keys,
   no two result keys are equal under Compare — a NULL key is a key like any other. *)
Theorem C03_one_row_per_key : forall aggs (kl : list keyed),
  den_group aggs kl = map (fun k => k ++ aggs_den aggs 0 (filter (fun kr => row_eqb (fst kr) k) kl)) (den_distinct (map fst kl)) /\
  (forall kr, In kr kl -> row_in (fst kr) (den_distinct (map fst kl)) = true) /\
  (forall k, In k (den_distinct (map fst kl)) -> In k (map fst kl)) /\
  pairwise_distinct row_eqb (den_distinct (map fst kl)).
Proof. exact group_keys_spec. Qed.
Print Assumptions C03_one_row_per_key.

(* Each aggregate state machine, fed the non-NULL inputs vs of a group one by one, ends in a state whose
   Trigger() is the declarative value; with no non-NULL input the declarative value is NULL. *)
Theorem C03_aggregate : forall f d vs, plain_vals vs -> vs <> [] ->
  agg_trigger (fold_left agg_add vs (agg_init f d)) = Ok (agg_den f d vs).
Proof. exact agg_correct. Qed.
Print Assumptions C03_aggregate.

Theorem C03_null_when_no_input : forall f d, agg_den f d [] = VNull.
Proof. reflexivity. Qed.
Print Assumptions C03_null_when_no_input.

(* AVG over Int truncates toward zero (Z.quot) the wrapped sum; array_agg is ascending and keeps every input. *)
Theorem C03_avg_truncates : forall v vs, agg_den AAvg false (v :: vs) =
  VInt (Z.quot (wrap64 (zsum (map int_of (v :: vs)))) (Z.of_nat (length (v :: vs)))).
Proof. reflexivity. Qed.
Print Assumptions C03_avg_truncates.

Theorem C03_array_agg_ascending : forall v vs, exists l, agg_den AArr false (v :: vs) = VList l /\
  Permutation (v :: vs) l /\ sorted vcompare l.
Proof. intros v vs. exists (sort_vals (v :: vs)). split; [reflexivity|]. apply array_agg_ascending. Qed.
Print Assumptions C03_array_agg_ascending.

(* AggregatedSetSize: after any sequence of records of a group, the i-th counter is the number of records whose
   i-th aggregate input is not NULL. *)
Theorem C03_set_size : forall aggs g,
  g_sizes (fold_left (fun it kr => gadd it (snd kr)) g (ginit aggs)) = sizes_den (length aggs) 0 g.
Proof. exact set_size_spec. Qed.
Print Assumptions C03_set_size.

(* The whole map after any input: one entry per distinct key, holding the state of that key's records. *)
Theorem C03_group_state : forall aggs l,
  fold_left (group_step aggs) l [] = map (fun k => (k, gstate aggs (filter (same_key k) l))) (den_distinct (map fst l)).
Proof. exact group_state_spec. Qed.
Print Assumptions C03_group_state.

(* Non-vacuity: a table with a NULL key, duplicate keys and a NULL input; count, sum, avg, array_agg per key. *)
Example C03_hypotheses_satisfiable :
  in_fragment wit_group = true /\ plain_db wit_table = true /\ is_group_query wit_group = true /\
  den_top wit_table wit_group =
  Ok (mkrel [(None, [107]); (None, [99]); (None, [115]); (None, [118]); (None, [108])]
        [[VInt 2; VInt 1; VInt 3; VInt 3; VList [VInt 3]];
         [VInt 1; VInt 2; VInt 10; VInt 10; VList [VInt 10]];
         [VNull; VInt 2; VInt 12; VInt 6; VList [VInt 5; VInt 7]]]).
Proof. exact wit_group_result. Qed.

(* Column names of a grouping select (ParseSelect): alias, <aggregate>[_distinct]_<field>, <aggregate>, field name,
   key_<i>, made unique by getUniqueName; the GroupBy node's fields carry these names and the Map over it reads
   them by name.  Before the `fix:` a third column of one name repeated the second one's name and the Map read the
   wrong column: SELECT count(b) AS c, sum(b) AS c, max(b) AS c FROM t GROUP BY a (the model makes the ambiguous
   reference an error; the CLI silently printed max in the sum column). *)
Theorem C03_pinned_third_name_refuted : exists t db,
  in_fragment t = true /\ plain_db db = true /\
  result_equivb (has_order_by t) (exec_top_pinned_names db t) (den_top db t) = false /\
  exists r, exec_top db t = Ok r /\ printed_names (rsch r) = [[99]; [99; 95; 49]; [99; 95; 50]].
Proof. exists wit_triple_group, wit_table. exact pinned_triple_group. Qed.
Print Assumptions C03_pinned_third_name_refuted.

(* Before the `fix:` an unselected key part kept the raw default name key_<i>, which could repeat the name of a
   selected column (a default-named column of a grouping subquery): two GroupBy fields named key_1, and the
   key_1 column showed another key's values.  SELECT key_1, count( * ) AS c FROM (SELECT a AS k, a + 1, b AS v FROM t
   GROUP BY a, a + 1, b) x GROUP BY key_1, v. *)
Theorem C03_pinned_key_name_refuted : exists t db,
  in_fragment t = true /\ plain_db db = true /\
  result_equivb (has_order_by t) (exec_top_pinned_names db t) (den_top db t) = false /\
  exec_top db t = den_top db t.
Proof. exists wit_key_name, wit_table. destruct pinned_key_name as [A [B [C [D _]]]]. auto. Qed.
Print Assumptions C03_pinned_key_name_refuted.

(* The pinned parser built a GroupBy node only when some select expression was an aggregate call:
   SELECT a AS k FROM t GROUP BY a returned one row per input row.  (`fix:` group whenever there is a GROUP BY.) *)
Theorem C03_pinned_group_by_ignored_refuted : exists t db,
  in_fragment t = true /\ plain_db db = true /\
  result_equivb (has_order_by t) (exec_top_pinned db t) (den_top db t) = false.
Proof. exists wit_group_noagg, wit_table. destruct pinned_group_by_ignored as [A [B [C _]]]. auto. Qed.
Print Assumptions C03_pinned_group_by_ignored_refuted.
