(* Properties/C25.v — CSV and JSON output faithfully encode results.
   Statements only; proofs are in Proofs/FormatsProofs.v.  Model: Model/Formats.v
   (json_line = JSONFormatter.Write with ValueToJson and AppendJSONString; csv_file = CSVFormatter with
   FormatCSVValue and encoding/csv's Writer; json_parse / csv_parse = reference decoders for RFC 8259 / RFC 4180).
   Bytes are Z; a string is a list of bytes.  Not modelled: the digits strconv prints for a float64, the
   RFC3339 text of a time and the text of a duration; they are carried next to the value as opaque text
   (texts_ok asks only that they are bytes and, for a finite float, a JSON number token); the engine checks
   in Go that the float text read back with strconv.ParseFloat has the bits of the value. *)
From Octo Require Import Formats FormatsProofs.

(* Ints are exact: reading back the decimal text that strconv.AppendInt / FormatInt print gives the integer,
   for every integer (no bound; int64 is a special case). *)
Theorem C25_int_text : forall z, parse_int (print_int z) = Some z.
Proof. exact parse_print_int. Qed.
Print Assumptions C25_int_text.

(* ... and that text is a JSON number token (so a JSON reader sees a number, not something else). *)
Theorem C25_int_is_json_number : forall z, json_parse (print_int z) = Some (JNum (print_int z)).
Proof. exact int_is_json_number. Qed.
Print Assumptions C25_int_is_json_number.

(* Strings are preserved byte for byte: for EVERY byte string (valid UTF-8 or not, control bytes, quotes,
   backslashes, any length) the reference parser reads the escaped text back to exactly the same bytes.
   (AppendJSONString copies bytes >= 0x80 unchanged, so the text is valid UTF-8 exactly when the string is;
   a string that is not valid UTF-8 has no JSON text that is both valid UTF-8 and byte-exact — see design/C25.md.) *)
Theorem C25_json_string : forall s, forallb is_byte s = true -> json_parse_string (json_escape s) = Some s.
Proof. exact json_string_roundtrip. Qed.
Print Assumptions C25_json_string.

(* Every JSON tree whose strings are bytes and whose number tokens are JSON numbers is read back exactly from
   its printed line: nesting, order and duplicates of members, empty arrays and objects included. *)
Theorem C25_json_tree : forall j, wf_json j = true -> json_parse (print_json j ++ [10]) = Some j.
Proof. exact json_tree_roundtrip. Qed.
Print Assumptions C25_json_tree.

(* Each -o json line decodes to the row: for every schema and every row that conforms to it, either the row
   holds a NaN / infinite float and Write returns an error without output, or the line parses (RFC 8259) to the
   object  field name -> jtree type value,  where jtree maps NULL to null, an int to its decimal token, a float
   to its (opaque) token, a string to the same bytes, a list / tuple to the array of its elements' trees in
   order, an object to the members named by the type's fields in order.  Unbounded nesting, width and length. *)
Theorem C25_json : forall fields row,
  row_typed fields row = true -> fields_ok fields = true -> forallb texts_ok row = true ->
  if existsb has_nonfinite row then json_line fields row = Err e_nonfinite
  else exists bytes, json_line fields row = Ok bytes /\
                     json_parse bytes = Some (JObj (row_jmembers fields row)).
Proof. exact json_line_correct. Qed.
Print Assumptions C25_json.

(* Each -o csv record decodes to the row's values: for every non-empty schema and all rows conforming to it
   (no NaN / infinity inside a nested value), the output is the header and one record per row, and the RFC 4180
   reader gives back the field names and, per row, the cell texts: the value's own text for a scalar (the bytes
   of a string, the decimal digits of an int, true/false, the opaque float / time / duration text), the empty
   field for NULL, and the JSON text of a list / object / tuple. *)
Theorem C25_csv : forall fields rows, fields <> [] ->
  Forall (fun row => row_typed fields row = true /\ nested_finite row = true) rows ->
  exists bytes, csv_file fields rows = (0, bytes) /\
                csv_parse bytes = Some (map fst fields :: map (row_cells fields) rows).
Proof. exact csv_file_correct. Qed.
Print Assumptions C25_csv.

(* the CSV writer/reader pair alone: any records with at least one field each, any field bytes *)
Theorem C25_csv_records : forall recs, Forall (fun fs => fs <> []) recs ->
  csv_parse (concat (map csv_write_record recs)) = Some recs.
Proof. exact csv_records_roundtrip. Qed.
Print Assumptions C25_csv_records.

(* a nested CSV cell parses as JSON to the tree of the value *)
Theorem C25_csv_nested_cell : forall t v, is_container v = true -> has_type t v = true -> ty_names_ok t = true ->
  texts_ok v = true -> has_nonfinite v = false ->
  json_parse (cell_text t v) = Some (jtree t v).
Proof. exact csv_nested_cell. Qed.
Print Assumptions C25_csv_nested_cell.

(* SetSchema (WithoutQualifiers) of both formatters: json_run / csv_run = json_file / csv_file on the printed schema
   without_qualifiers fields.  The printed schema keeps every column and its type, so C25_json / C25_csv apply to it
   for exactly the rows that conform to the schema given. *)
Theorem C25_schema_types_kept : forall fields,
  map snd (without_qualifiers fields) = map snd fields /\
  (forall row, row_typed (without_qualifiers fields) row = row_typed fields row) /\
  (fields <> [] -> without_qualifiers fields <> []).
Proof. exact wq_kept. Qed.
Print Assumptions C25_schema_types_kept.

(* Exactly one member / header cell per column.  Full statement:
     forall fields, NoDup (map fst fields) -> NoDup (map fst (without_qualifiers fields))
   (distinct columns keep distinct printed names, so that no decoder merges two of them).  Proved for schemas in
   which no column name holds a '.' after its qualifier (names `col` or `table.col`): then a qualifier is stripped
   only from a short name that occurs once, and a name kept in full never equals another column's short name.
   Missing: names with two or more dots, for which the full statement is false (next theorem). *)
Theorem C25_schema_names_distinct_partial : forall fields,
  NoDup (map fst fields) -> forallb (fun n => no_dot (short_name n)) (map fst fields) = true ->
  NoDup (map fst (without_qualifiers fields)).
Proof. exact wq_names_distinct. Qed.
Print Assumptions C25_schema_names_distinct_partial.

(* the columns q.`x.y`, x.y and z.y are printed as x.y, x.y, z.y (finding class qualifier-strip-collision) *)
Theorem C25_schema_names_distinct_refuted :
  exists fields, NoDup (map fst fields) /\ ~ NoDup (map fst (without_qualifiers fields)).
Proof. exact wq_collision_with_dotted_column. Qed.
Print Assumptions C25_schema_names_distinct_refuted.

(* the executable test the oracles use for "one member per column" decides NoDup *)
Theorem C25_oracle_nodup : forall l, nodupb l = true <-> NoDup l.
Proof. exact nodupb_spec. Qed.
Print Assumptions C25_oracle_nodup.

(* Partial.  Full statement: "floats are exact", i.e. for every finite float64 f,
     ParseFloat (AppendFloat f 'g' -1 64) = f  and  ParseFloat (FormatFloat f 'f' -1 64) = f.
   strconv's shortest-digit generation and its parser are not modelled, so this is not a theorem here.
   What is proved: the float's token, whatever digits it holds, passes through both formats unchanged
   (C25_json / C25_csv above, with the token as the opaque texts of FFloat).  What is checked per run
   instead: the engine reads the printed token back with strconv.ParseFloat and compares bit patterns. *)
Theorem C25_float_token_partial : forall bits g f,
  nonfinite bits = false -> num_token_ok g = true ->
  to_tree (TScalar 2) (FFloat bits g f) = Ok (JNum g) /\ json_parse (print_json (JNum g)) = Some (JNum g) /\
  csv_text (TScalar 2) (FFloat bits g f) = Ok f.
Proof. exact float_token_passes. Qed.
Print Assumptions C25_float_token_partial.

(* Non-vacuity: a row with a string holding a control byte, a quote, a newline and a non-ASCII byte, a list of a
   nullable int column, an object whose field name needs escaping, MinInt64 and a finite float meets the hypotheses. *)
Example C25_hypotheses_satisfiable :
  let fields := [([97], TScalar 4); ([98], TList (Some (TUnion [TScalar 0; TScalar 1])));
                 ([99], TStruct [([120; 34], TScalar 1)]); ([100], TScalar 2)] in
  let row := [FStr [120; 0; 34; 10; 233]; FList [FInt (-5); FNull]; FStruct [FInt min_int64];
              FFloat 4609434218613702656 [49; 46; 53] [49; 46; 53]] in
  row_typed fields row = true /\ fields_ok fields = true /\ forallb texts_ok row = true /\
  existsb has_nonfinite row = false /\ nested_finite row = true.
Proof. vm_compute. repeat split. Qed.

(* The pinned code (before the three `fix:` commits) violated the property: *)
(* a string with a control byte was printed with a Go escape (\x00), which is not JSON *)
Theorem C25_pinned_json_string_refuted :
  exists fields row bytes, row_typed fields row = true /\ json_line_pinned fields row = Ok bytes /\ json_parse bytes = None.
Proof. exact pinned_string_not_json. Qed.
Print Assumptions C25_pinned_json_string_refuted.

(* NaN was printed as the bare word NaN *)
Theorem C25_pinned_json_nan_refuted :
  exists fields row bytes, row_typed fields row = true /\ json_line_pinned fields row = Ok bytes /\ json_parse bytes = None.
Proof. exact pinned_nan_not_json. Qed.
Print Assumptions C25_pinned_json_nan_refuted.

(* -o csv panicked on a list value *)
Theorem C25_pinned_csv_refuted :
  exists fields row, row_typed fields row = true /\ csv_record_pinned fields row = Panic p_csv_type.
Proof. exact pinned_csv_panics. Qed.
Print Assumptions C25_pinned_csv_refuted.
