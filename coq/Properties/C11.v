(* Properties/C11.v — Three-valued logic and NULL propagation.  Statements only; proofs are in
   Proofs/ExprProofs.v (any descriptor) and Proofs/ExprTableProofs.v (the descriptor table GENERATED from
   functions.FunctionMap() of the tree under check: Gen/GenFunctions.v).
   Model: Model/Expr.v — [peval orc ctx e] = Materialize e, then Evaluate in variable context ctx;
   [pevals orc ctx args] = the argument values, left to right; PAnd/POr are the n-ary physical nodes. *)
From Octo Require Import Expr ExprProofs ExprTableProofs GenFunctions.
From Octo Require Import ExprCases.   (* the case formats / oracles the engine's cases.v uses: kept built with this file *)
Local Open Scope string_scope.

(* AND over ANY number of operands (0, 1, 2, ... — not only k <= 3): if every operand evaluates to TRUE, FALSE
   or NULL, the node evaluates to the Kleene conjunction: FALSE if some operand is FALSE, else NULL if some
   operand is NULL, else TRUE. *)
Theorem C11_and : forall orc t ctx args vs,
  pevals orc ctx args = Ok vs -> Forall (fun v => is_tv v = true) vs ->
  peval orc ctx (PAnd t args) = Ok (tv_val (kleene_and (map to_tv vs))).
Proof. exact pand_kleene. Qed.
Print Assumptions C11_and.

Theorem C11_or : forall orc t ctx args vs,
  pevals orc ctx args = Ok vs -> Forall (fun v => is_tv v = true) vs ->
  peval orc ctx (POr t args) = Ok (tv_val (kleene_or (map to_tv vs))).
Proof. exact por_kleene. Qed.
Print Assumptions C11_or.

(* Short circuit, in the Kleene-correct direction: once an operand is FALSE (preceded only by TRUE / NULL
   operands) the conjunction is FALSE whatever the remaining operands are — they may fail or panic, they are
   not evaluated.  Dually for OR and TRUE. *)
Theorem C11_and_short_circuit : forall orc t ctx pre x post vs,
  pevals orc ctx pre = Ok vs -> Forall (fun v => v = VNull \/ v = VBool true) vs -> peval orc ctx x = Ok (VBool false) ->
  peval orc ctx (PAnd t (pre ++ x :: post)) = Ok (VBool false).
Proof. exact pand_short. Qed.
Print Assumptions C11_and_short_circuit.

Theorem C11_or_short_circuit : forall orc t ctx pre x post vs,
  pevals orc ctx pre = Ok vs -> Forall (fun v => v = VNull \/ v = VBool false) vs -> peval orc ctx x = Ok (VBool true) ->
  peval orc ctx (POr t (pre ++ x :: post)) = Ok (VBool true).
Proof. exact por_short. Qed.
Print Assumptions C11_or_short_circuit.

(* NOT: every descriptor the code declares under the name "not" computes Kleene negation, provided the
   operand's value is allowed by the operand's static type (a NULL is only caught if the static type allows
   NULL: that is how Materialize decides where to put null checks; C08 discharges the hypothesis). *)
Theorem C11_not : forall orc t d ctx a v,
  In d function_table -> fd_name d = "not" ->
  peval orc ctx a = Ok v -> is_tv v = true -> has_type v (ptype a) = true ->
  peval orc ctx (PCall t d [a]) = Ok (tv_val (k_not (to_tv v))).
Proof. exact table_not_kleene. Qed.
Print Assumptions C11_not.

(* NULL propagation: for EVERY descriptor of the generated table whose Strict flag is set (the proof does not
   depend on its body), a call with a NULL among its argument values is NULL. *)
Theorem C11_strict_null : forall orc t d ctx args vs,
  In d function_table -> fd_strict d = true ->
  pevals orc ctx args = Ok vs -> Forall2 (fun v a => has_type v (ptype a) = true) vs args -> In VNull vs ->
  peval orc ctx (PCall t d args) = Ok VNull.
Proof. exact table_strict_null. Qed.
Print Assumptions C11_strict_null.

(* Comparisons: every descriptor named = != < <= > >= in the table is Strict (re-checked against the table on
   every run), so a comparison with a NULL operand is NULL ... *)
Theorem C11_comparison_null : forall orc t d ctx args vs,
  In d function_table -> In (fd_name d) cmp_names ->
  pevals orc ctx args = Ok vs -> Forall2 (fun v a => has_type v (ptype a) = true) vs args -> In VNull vs ->
  peval orc ctx (PCall t d args) = Ok VNull.
Proof. exact table_cmp_null. Qed.
Print Assumptions C11_comparison_null.

(* ... and with two non-NULL operands it is TRUE or FALSE, never NULL. *)
Theorem C11_comparison_non_null : forall orc t d ctx a b x y,
  In d function_table -> In (fd_name d) cmp_names ->
  pevals orc ctx [a; b] = Ok [x; y] -> is_null x = false -> is_null y = false ->
  exists r, peval orc ctx (PCall t d [a; b]) = Ok (VBool r).
Proof. exact table_cmp_non_null. Qed.
Print Assumptions C11_comparison_non_null.

(* IS NULL / IS NOT NULL never return NULL: TRUE exactly on NULL (resp. on non-NULL), for any operand value. *)
Theorem C11_is_null_total : forall orc t d ctx a v,
  In d function_table -> fd_name d = "is null" -> peval orc ctx a = Ok v ->
  peval orc ctx (PCall t d [a]) = Ok (VBool (is_null v)).
Proof. exact table_is_null. Qed.
Print Assumptions C11_is_null_total.

Theorem C11_is_not_null_total : forall orc t d ctx a v,
  In d function_table -> fd_name d = "is not null" -> peval orc ctx a = Ok v ->
  peval orc ctx (PCall t d [a]) = Ok (VBool (negb (is_null v))).
Proof. exact table_is_not_null. Qed.
Print Assumptions C11_is_not_null_total.

(* The table does declare these functions (the four theorems above are not vacuous). *)
Theorem C11_table_has_functions :
  forallb (fun n => existsb (fun d => String.eqb (fd_name d) n) function_table)
          ("not" :: "is null" :: "is not null" :: cmp_names) = true.
Proof. exact table_has_them. Qed.
Print Assumptions C11_table_has_functions.

(* WHERE / Filter: over any input (any number of rows) on which the predicate evaluates without error, the
   node produces exactly the rows whose predicate value is Boolean TRUE, in order — rows whose predicate is
   NULL, FALSE or not a Boolean are dropped. *)
Theorem C11_filter : forall p outer rows,
  Forall (fun r => is_ok (eval (r :: outer) p) = true) rows ->
  filter_run p outer rows = (filter (pred_true p outer) rows, Ok tt).
Proof. exact filter_keeps_true. Qed.
Print Assumptions C11_filter.

Theorem C11_filter_pred_true_iff : forall v, is_true v = true <-> v = VBool true.
Proof. exact is_true_spec. Qed.
Print Assumptions C11_filter_pred_true_iff.

(* When the predicate fails on a row, the node fails there; the rows kept before are exactly the TRUE ones. *)
Theorem C11_filter_error : forall p outer pre r post,
  Forall (fun r => is_ok (eval (r :: outer) p) = true) pre ->
  is_ok (eval (r :: outer) p) = false ->
  fst (filter_run p outer (pre ++ r :: post)) = filter (pred_true p outer) pre /\
  is_ok (snd (filter_run p outer (pre ++ r :: post))) = false.
Proof. exact filter_stops_at_error. Qed.
Print Assumptions C11_filter_error.

(* Non-vacuity: x0 AND x1 AND x2 AND x3 over nullable Boolean columns holding TRUE, NULL, TRUE, NULL is NULL;
   NOT of a nullable column holding NULL is NULL; a comparison of a nullable column holding NULL with 1 is NULL;
   Filter over three rows keeps the TRUE one. *)
Example C11_hypotheses_satisfiable :
  let bn := STSet [0; 3] in
  let ctx := [[VBool true; VNull; VBool true; VNull; VInt 5]] in
  let args := [PVar bn 0 0; PVar bn 0 1; PVar bn 0 2; PVar bn 0 3] in
  pevals no_oracle ctx args = Ok [VBool true; VNull; VBool true; VNull] /\
  peval no_oracle ctx (PAnd bn args) = Ok VNull /\
  peval no_oracle ctx (PCall bn (find_desc function_table "not" 0) [PVar bn 0 1]) = Ok VNull /\
  In (find_desc function_table "not" 0) function_table /\
  peval no_oracle ctx (PCall bn (find_desc function_table "<" 0) [PVar (STSet [0;1]) 0 1; PConst (STSet [1]) (VInt 1)]) = Ok VNull /\
  filter_run (materialize no_oracle (PVar bn 0 0)) [] [[VBool true]; [VNull]; [VBool false]] = ([[VBool true]], Ok tt).
Proof.
  cbv zeta. repeat split; try (vm_compute; reflexivity).
  assert (H : existsb (fun d => desc_eqb_key "not" 0 d) function_table = true) by (vm_compute; reflexivity).
  unfold find_desc. destruct (find (desc_eqb_key "not" 0) function_table) eqn:E.
  - apply find_some in E. tauto.
  - apply existsb_exists in H. destruct H as [d [Hd Hk]]. rewrite (find_none _ _ E d Hd) in Hk. discriminate.
Qed.
