(* Properties/C17.v — Triggers fire exactly when specified.
   Statements only; proofs are in Proofs/TriggerSpecProofs.v (on top of TriggerProofs / GroupByProofs).
   Model: Model/Triggers.v, Model/GroupBy.v (see Properties/C16.v).  ctg_run_from (ctg_init trigs) es is
   CustomTriggerGroupBy.Run after its (buffered) source delivered the events es; ctg_step is the handling
   of one more record / watermark, ctg_finish the end-of-stream triggering.  "synced aggs sent k" = what
   is recorded as sent for key k (previouslySentValues) is k's current row (nothing if the group is empty);
   by invariant G2 (first conjunct of C17_watermark_complete, and C16_output_is_current_rows) the
   consolidated output is exactly the rows recorded as sent.  Executable oracles of the same clauses on an
   observed output: Model/TriggerSpec.v (c17_spec). *)
From Octo Require Import GroupBy TriggerSpec TriggerProofs GroupByProofs TriggerSpecProofs TriggerSpecProofs2 TriggerSpecProofs3 ChangelogLemmas.

(* COUNTING n alone, every delivered stream es of any length, every next record r: the step emits exactly
   the block of r's key — the retraction of what was sent for it (if anything), then its current row (if
   the group is non-empty); that is emit_key — when r is the key's n-th, 2n-th, ... record (retractions
   count as records), and nothing at all otherwise. *)
Theorem C17_counting :
  forall (ST : Type) (rinit : ST) (radd : bool -> list value -> ST -> ST) (rout : ST -> list value)
         (nk : nat) (kti : option nat) n es s o r s' o',
  0 < n < two64 ->
  ctg_run_from ST rinit radd rout wless nk kti (ctg_init ST kti [TCounting n]) es = (s, o) ->
  ctg_step ST rinit radd rout wless nk kti s (Rec r) = (s', o') ->
  if occ (keyf nk r) (map (keyf nk) (records es) ++ [keyf nk r]) mod n =? 0
  then exists sk, m_eqv slices_less (keyf nk r) sk = true /\
                  o' = snd (emit_key ST rout kti (aggs_upd ST rinit radd nk r (st_aggs ST s)) (et r) (st_sent ST s) sk)
  else o' = [].
Proof. exact counting_exact. Qed.
Print Assumptions C17_counting.

(* ... and a watermark makes COUNTING emit nothing: it is forwarded alone. *)
Theorem C17_counting_ignores_watermarks :
  forall (ST : Type) (rinit : ST) (radd : bool -> list value -> ST -> ST) (rout : ST -> list value)
         (nk : nat) (kti : option nat) n es s o w s' o',
  0 < n < two64 ->
  ctg_run_from ST rinit radd rout wless nk kti (ctg_init ST kti [TCounting n]) es = (s, o) ->
  ctg_step ST rinit radd rout wless nk kti s (WM w) = (s', o') -> o' = [WM w].
Proof. exact counting_wm_silent. Qed.
Print Assumptions C17_counting_ignores_watermarks.

(* The counting trigger by itself (inside any MultiTrigger as well): after the keys l, each followed by a
   Poll, KeyReceived(k) + Poll returns k exactly when k has now been received a multiple of n times. *)
Theorem C17_counting_trigger : forall n l s k, 0 < n < two64 -> c_inv n l s ->
  let '(o, s') := t_poll wless (t_key wless k s) in
  c_inv n (l ++ [k]) s' /\
  (if occ k (l ++ [k]) mod n =? 0 then exists sk, o = [sk] /\ m_eqv slices_less k sk = true else o = []).
Proof. exact counting_fires_every_nth. Qed.
Print Assumptions C17_counting_trigger.

(* ON END OF STREAM: the trigger is silent before the end, returns every key it has seen at the end, and
   those are pairwise different groups (each once). *)
Theorem C17_eos_trigger : forall keys b,
  t_poll wless (SEos keys false) = ([], SEos keys false) /\
  fst (t_poll wless (t_eos (SEos keys b))) = map fst keys /\
  (t_ok (SEos keys b) -> m_nd slices_less keys).
Proof. intros keys b. repeat split. exact (eos_trigger_once keys b). Qed.
Print Assumptions C17_eos_trigger.

(* At end of stream, for every non-empty configuration and every delivered stream, the final triggering
   leaves every key synced: every key still pending in any trigger (COUNTING: a started count; ON
   WATERMARK: not yet passed by a watermark; ON END OF STREAM: every key) has been emitted. *)
Theorem C17_eos :
  forall (ST : Type) (rinit : ST) (radd : bool -> list value -> ST -> ST) (rout : ST -> list value)
         (nk : nat) (kti : option nat) trigs es s o s' o',
  trigs <> [] ->
  ctg_run_from ST rinit radd rout wless nk kti (ctg_init ST kti trigs) es = (s, o) ->
  ctg_finish ST rout wless kti s = (s', o') ->
  forall k, synced ST rout (st_aggs ST s') (st_sent ST s') k.
Proof. exact finish_emits_everything. Qed.
Print Assumptions C17_eos.

(* No TRIGGER clause / ON END OF STREAM alone (SimpleGroupBy): the watermarks pass through, then come
   only insertions (one per non-empty group by C16_final_simple), nothing is emitted earlier. *)
Theorem C17_eos_simple :
  forall (ST : Type) (rinit : ST) (radd : bool -> list value -> ST -> ST) (rout : ST -> list value) (nk : nat) es,
  exists rows, sgb_run ST rinit radd rout nk es = map WM (watermarks es) ++ map Rec rows /\
               forall r, In r rows -> retr r = false /\ et r = zero_ns.
Proof. exact simple_shape. Qed.
Print Assumptions C17_eos_simple.

(* ON WATERMARK, completeness: for every configuration containing ON WATERMARK and every delivered stream,
   once watermark W has been processed the output ends with WM W, consolidates to exactly the rows recorded
   as sent, and for every key whose time component is at or below W the row recorded as sent is the key's
   current row.  (The EventTimeBuffer delivers every record with event time <= W before W:
   C16_buffer_keeps_the_bag and the model etb_step; "current" refers to the records delivered so far.) *)
Theorem C17_watermark_complete :
  forall (ST : Type) (rinit : ST) (radd : bool -> list value -> ST -> ST) (rout : ST -> list value)
         (nk : nat) (kti : option nat) trigs es W s o,
  In TWatermark trigs ->
  ctg_run_from ST rinit radd rout wless nk kti (ctg_init ST kti trigs) (es ++ [WM W]) = (s, o) ->
  (forall row, consolidate (records o) row = sbag (st_sent ST s) row) /\
  (exists o', o = o' ++ [WM W]) /\
  forall k, fst (key_time (match kti with Some i => i | None => O end) k) <= W ->
            synced ST rout (st_aggs ST s) (st_sent ST s) k.
Proof. exact watermark_complete. Qed.
Print Assumptions C17_watermark_complete.

(* Order: the rows triggered by a watermark precede it in the output, in every state. *)
Theorem C17_order :
  forall (ST : Type) (rinit : ST) (radd : bool -> list value -> ST -> ST) (rout : ST -> list value)
         (nk : nat) (kti : option nat) s w,
  exists s' rows, ctg_step ST rinit radd rout wless nk kti s (WM w) = (s', rows ++ [WM w]) /\ watermarks rows = [].
Proof. exact wm_step_order. Qed.
Print Assumptions C17_order.

(* ON WATERMARK, soundness, on the node's emitted list.  For every configuration, every delivered stream es
   and every further record or watermark e (i.e. before end of stream): every row x the node emits while
   handling e is a row of some key k (its values are a representation of k followed by the aggregate columns)
   such that EITHER k's time component is at or below the last watermark received up to and including e
   (W itself when e = WM W: by C17_order these rows precede WM W in the output), OR a COUNTING trigger's Poll
   of this very step returned k.  So no row of a key beyond W is emitted before WM W is forwarded unless a
   counting poll of the same step fired it (END OF STREAM returns nothing before the end). *)
Theorem C17_watermark_sound :
  forall (ST : Type) (rinit : ST) (radd : bool -> list value -> ST -> ST) (rout : ST -> list value)
         (nk : nat) (kti : option nat) trigs es s o e s' o' x,
  ctg_run_from ST rinit radd rout wless nk kti (ctg_init ST kti trigs) es = (s, o) ->
  ctg_step ST rinit radd rout wless nk kti s e = (s', o') -> In (Rec x) o' ->
  exists k, row_of_key x k /\
    (fst (key_time (match kti with Some i => i | None => O end) k) <= last_wm (es ++ [e]) \/
     exists n counts fire,
       In (SCount n counts false fire)
          (match e with Rec r => mt_key wless (keyf nk r) (st_trigs ST s) | WM w => mt_wm w (st_trigs ST s) end) /\
       In k (fst (t_poll wless (SCount n counts false fire)))).
Proof. exact watermark_sound. Qed.
Print Assumptions C17_watermark_sound.

(* The same at the trigger (formerly C17_watermark_sound_partial): before end of stream the watermark
   trigger's Poll returns only keys whose time component is at or below the last watermark received.
   t_ok holds of every reachable trigger state (C17_reachable_trigger_states_ok). *)
Theorem C17_watermark_trigger_sound : forall idx tks wm ks s',
  t_ok (SWm idx tks false wm) -> t_poll wless (SWm idx tks false wm) = (ks, s') ->
  forall k, In k ks -> fst (key_time idx k) <= wm.
Proof. exact wm_poll_sound. Qed.
Print Assumptions C17_watermark_trigger_sound.

(* No late rows (the group-by's clause of C18, outside C18's recorded class
   group-by-time-keyed-group-fired-at-end-of-stream): for EVERY trigger configuration, if the delivered stream
   is well-timed (watermarks non-decreasing, no record with a non-zero event time at or below a watermark
   already seen) and the node groups by the event time (the key's time component idx < nk of every record is
   the record's event time), then everything the node emits before the end-of-stream triggering is
   well-timed too: the watermarks are forwarded in order and every row carries, as the code computes it,
   min(current time, key time), which is zero or above every watermark forwarded before it. *)
Theorem C17_no_late_rows :
  forall (ST : Type) (rinit : ST) (radd : bool -> list value -> ST -> ST) (rout : ST -> list value)
         (nk idx : nat), (idx < nk)%nat -> forall trigs es s o,
  all_keyed nk idx es -> well_timed_from None es = true ->
  ctg_run_from ST rinit radd rout wless nk (Some idx) (ctg_init ST (Some idx) trigs) es = (s, o) ->
  well_timed_from None o = true.
Proof. exact no_late_rows. Qed.
Print Assumptions C17_no_late_rows.

Theorem C17_reachable_trigger_states_ok : forall idx kd k w s o s',
  t_ok (t_init idx kd) /\ (t_ok s -> t_ok (t_key wless k s)) /\ (t_ok s -> t_ok (t_wm w s)) /\
  (t_poll wless s = (o, s') -> t_ok s -> t_ok s').
Proof. intros. repeat split; [apply t_init_ok | apply t_key_ok | apply t_wm_ok | apply t_poll_ok]. Qed.
Print Assumptions C17_reachable_trigger_states_ok.

(* Non-vacuity: COUNTING 2 over three records of one key and a watermark fires on the second record. *)
Example C17_counting_example :
  run_group_by (mkcfg 1 [ACount] None [TCounting 2])
    [Rec (mkrec [VInt 1; VInt 7] false zero_ns); Rec (mkrec [VInt 1; VInt 7] false zero_ns); WM 5; Rec (mkrec [VInt 1; VInt 7] false zero_ns)]
  = Ok [Rec (mkrec [VInt 1; VInt 2] false zero_ns); WM 5;
        Rec (mkrec [VInt 1; VInt 2] true max_wm); Rec (mkrec [VInt 1; VInt 3] false max_wm)].
Proof. vm_compute. reflexivity. Qed.
