(* Properties/C14.v — Aggregates are invariant under retraction histories.  Statements only; proofs are in
   Proofs/AggregatesProofs.v.  Model: Model/Aggregates.v (every prototype of aggregates.Aggregates as
   init / add(retraction, value) / trig; [run W h] is the state after the Adds of the history h).
   In every statement  h  is ANY history: any interleaving of additions and retractions of any length;
   a retraction may come before the addition it cancels, so intermediate multiplicities may be negative.
   l  is ANY non-empty list representing the net multiset of h (for every value v: the number of members
   of l that Compare equal to v = additions - retractions of that class in h; this forces every class to
   have a non-negative net, i.e. the net "multiset" to be a multiset).  "Computed from scratch" means: a
   function of l alone. *)
From Coq Require Import Sorted.
From Octo Require Import Aggregates AggregatesProofs.

(* count = |M|  (as an int64) *)
Theorem C14_count : forall h l, represents l h -> l <> [] ->
  trig Count (run Count h) = Ok (VInt (wrap64 (zlen l))).
Proof. exact count_correct. Qed.
Print Assumptions C14_count.

(* sum(Int) = the int64-wrapped sum of M, whatever wrapped along the way *)
Theorem C14_sum_int : forall h l, represents l h -> l <> [] ->
  trig SumInt (run SumInt h) = Ok (VInt (wrap64 (lsum int_of l))).
Proof. exact (sum64_correct int_of VInt int_of_inv). Qed.
Print Assumptions C14_sum_int.

Theorem C14_sum_duration : forall h l, represents l h -> l <> [] ->
  trig SumDur (run SumDur h) = Ok (VDur (wrap64 (lsum dur_of l))).
Proof. exact (sum64_correct dur_of VDur dur_of_inv). Qed.
Print Assumptions C14_sum_duration.

(* avg(Int) = the wrapped sum divided by |M|, truncating toward zero (never a panic: |M| > 0) *)
Theorem C14_avg_int : forall h l, represents l h -> l <> [] -> zlen l < two63 ->
  trig AvgInt (run AvgInt h) = Ok (VInt (Z.quot (wrap64 (lsum int_of l)) (zlen l))).
Proof. exact (avg64_correct int_of VInt int_of_inv). Qed.
Print Assumptions C14_avg_int.

Theorem C14_avg_duration : forall h l, represents l h -> l <> [] -> zlen l < two63 ->
  trig AvgDur (run AvgDur h) = Ok (VDur (Z.quot (wrap64 (lsum dur_of l)) (zlen l))).
Proof. exact (avg64_correct dur_of VDur dur_of_inv). Qed.
Print Assumptions C14_avg_duration.

(* min = a least element of M under Value.Compare (values are identified by Compare = 0; all kinds of
   values, NaN and signed zeros included); never the empty-tree panic *)
Theorem C14_min : forall h l, represents l h -> l <> [] ->
  exists m, trig Min (run Min h) = Ok m /\
            (exists x, In x l /\ vcompare m x = 0) /\ (forall x, In x l -> vcompare m x <= 0).
Proof. exact min_correct_prop. Qed.
Print Assumptions C14_min.

Theorem C14_max : forall h l, represents l h -> l <> [] ->
  exists m, trig Max (run Max h) = Ok m /\
            (exists x, In x l /\ vcompare m x = 0) /\ (forall x, In x l -> vcompare x m <= 0).
Proof. exact max_correct_prop. Qed.
Print Assumptions C14_max.

(* array_agg = the ascending expansion of M: sorted under Compare, every class with its multiplicity *)
Theorem C14_array : forall h l, represents l h -> l <> [] ->
  exists e, trig Array (run Array h) = Ok (VList e) /\
            StronglySorted (fun a b => vcompare a b <= 0) e /\ (forall v, ccount e v = ccount l v).
Proof. exact array_correct_prop. Qed.
Print Assumptions C14_array.

(* DISTINCT, generically: if W is correct w.r.t. spec, Distinct W is correct w.r.t. spec applied to the
   support of M (any list with exactly one member per class present in M).  Uses C09's
   "Compare-equal values have equal hash feeds" for the hashmap abstraction.  Holds for every interleaving:
   the map keeps signed counts and forwards exactly the 0 -> 1 additions and the 1 -> 0 retractions. *)
Theorem C14_distinct : forall W spec, agg_correct W spec ->
  agg_correct (Distinct W) (fun l o => forall l', support_of l' l -> spec l' o).
Proof. exact distinct_correct. Qed.
Print Assumptions C14_distinct.

(* the support exists (so C14_distinct is not vacuous) and is what the oracle computes *)
Theorem C14_support_exists : forall l, support_of (vnub l) l.
Proof. exact vnub_support. Qed.
Print Assumptions C14_support_exists.

(* Every prototype of the table that contains no float sum (count, sum/avg over Int and Duration, min,
   max, array_agg and all their DISTINCT wrappers, nested to any depth): after every Add of every
   history, whenever the net multiset has no negative class and is non-empty, the model's Trigger value is accepted by the very
   oracle the differential check applies to the implementation's observations. *)
Theorem C14_table : forall k h, float_free k = true -> Z.of_nat (length h) < two63 ->
  c14_spec (k, h, run_obs (agg_of k) h) = true.
Proof. exact model_passes_c14_spec. Qed.
Print Assumptions C14_table.

(* the oracle's guard: [netl] keeps the members present and the retractions still owed; when nothing is owed
   the list represents the net multiset, and nothing is owed exactly when no class is negative *)
Theorem C14_netl_sound : forall h l, netl h = (l, []) -> represents l h.
Proof. exact netl_sound. Qed.
Print Assumptions C14_netl_sound.
Theorem C14_netl_complete : forall h, (forall v, 0 <= net h v) -> snd (netl h) = [].
Proof. exact netl_complete. Qed.
Print Assumptions C14_netl_complete.

(* what the oracle's boolean tests mean *)
Theorem C14_oracle_sorted_expansion : forall e l, is_sorted_expansion e l = true <->
  StronglySorted (fun a b => vcompare a b <= 0) e /\ (forall v, ccount e v = ccount l v).
Proof. exact is_sorted_expansion_spec. Qed.
Print Assumptions C14_oracle_sorted_expansion.
Theorem C14_oracle_least : forall m l, is_least m l = true <->
  (exists x, In x l /\ vcompare m x = 0) /\ (forall x, In x l -> vcompare m x <= 0).
Proof. exact is_least_spec. Qed.
Print Assumptions C14_oracle_least.

(* Float sums — PARTIAL.  Full statement wanted:
     forall h l, represents l h -> l <> [] -> all floats finite ->
       |float(trig SumFloat (run SumFloat h)) - exact_sum l| <= rounding_bound (length h) (sum of |x| over h)
   Proved: (1) SumFloat, SumInt and SumExact are one algorithm (SumG) over three carriers; (2) over exact
   integers (any class-invariant valuation f, e.g. the exact value of a finite float in units of 2^-1074)
   that algorithm yields exactly the sum over M — it adds and subtracts the right elements, each once.
   Missing: the rounding-error bound for the IEEE carrier.  It is checked per case by the differential
   engine (c14_spec compares with the exact rational sum within (n+3) 2^-52 sum|x|), and the model's
   SumFloat/AverageFloat are tied to the implementation bit for bit. *)
Theorem C14_sum_exact_partial : forall f, class_inv f ->
  forall h l, represents l h -> l <> [] ->
  trig (SumExact f) (run (SumExact f) h) = Ok (VInt (lsum f l)).
Proof. exact sum_exact_correct. Qed.
Print Assumptions C14_sum_exact_partial.
Theorem C14_sum_one_algorithm :
  SumFloat = SumG fl_add fl_sub 0 float_of VFloat /\ SumInt = SumG add64 sub64 0 int_of VInt /\
  forall f, SumExact f = SumG Z.add Z.sub 0 f VInt.
Proof. exact sum_algorithms_are_one. Qed.
Print Assumptions C14_sum_one_algorithm.

(* Known finding (not a small repair): a float sum does not survive the retraction of a non-finite value:
   +Inf, +1.0, -(+Inf) leaves NaN in sum and avg although the net multiset is {1.0}; the oracle rejects it. *)
Theorem C14_float_sum_nonfinite_refuted : exists h l,
  represents l h /\ l = [VFloat fb_one] /\
  trig SumFloat (run SumFloat h) = Ok (VFloat f_canon_nan) /\
  trig AvgFloat (run AvgFloat h) = Ok (VFloat f_canon_nan) /\
  c14_spec (KSumFloat, h, run_obs SumFloat h) = false.
Proof. exact float_sum_nonfinite_refuted. Qed.
Print Assumptions C14_float_sum_nonfinite_refuted.

(* ... nor an intermediate overflow: +Max, +Max, -Max leaves +Inf although the net multiset is {Max} *)
Theorem C14_float_sum_overflow_refuted : exists h l,
  represents l h /\ l = [VFloat fb_max] /\
  forallb (fun e => fl_finite (float_of (snd e))) h = true /\
  trig SumFloat (run SumFloat h) = Ok (VFloat fb_pinf) /\
  c14_spec (KSumFloat, h, run_obs SumFloat h) = false.
Proof. exact float_sum_overflow_refuted. Qed.
Print Assumptions C14_float_sum_overflow_refuted.

(* The code before `fix: Distinct forwards a retraction ... only when a retraction empties the value`:
   an addition cancelling an earlier out-of-order retraction (count -1 -> 0) forwarded a retraction the
   wrapped aggregate had never seen: count_distinct over -7 +7 +9 reported 0 for the net multiset {9}. *)
Theorem C14_distinct_pinned_refuted : exists h l,
  represents l h /\ l = [VInt 9] /\
  trig (Distinct_pinned Count) (run (Distinct_pinned Count) h) = Ok (VInt 0) /\
  trig (Distinct Count) (run (Distinct Count) h) = Ok (VInt 1) /\
  c14_spec (KDistinct KCount, h, run_obs (Distinct_pinned Count) h) = false.
Proof. exact distinct_pinned_refuted. Qed.
Print Assumptions C14_distinct_pinned_refuted.

(* Non-vacuity: a history that starts with a retraction of an absent value (-4 +4), has a duplicate, a
   retraction through another member of the class (-0.0 for +0.0), an emptied class and a NaN meets the
   hypotheses, with a two-element net multiset; at the first two steps a class is negative / M is empty. *)
Example C14_hypotheses_satisfiable :
  let h := [(true, VInt 4); (false, VInt 4); (false, VFloat 0); (false, VFloat 0); (true, VFloat 9223372036854775808);
            (false, VInt 7); (true, VInt 7); (false, VFloat f_canon_nan)] in
  netl h = ([VFloat 0; VFloat f_canon_nan], []) /\
  netl (firstn 1 h) = ([], [VInt 4]) /\
  skipn 2 (run_obs Array h) = [Ok (VList [VFloat 0]); Ok (VList [VFloat 0; VFloat 0]); Ok (VList [VFloat 0]);
                               Ok (VList [VInt 7; VFloat 0]); Ok (VList [VFloat 0]); Ok (VList [VFloat f_canon_nan; VFloat 0])] /\
  skipn 2 (run_obs (Distinct Count) h) = [Ok (VInt 1); Ok (VInt 1); Ok (VInt 1); Ok (VInt 2); Ok (VInt 1); Ok (VInt 2)].
Proof. vm_compute. repeat split. Qed.
