(* Properties/C14.v — Aggregates are invariant under retraction histories.  Statements only; proofs are in
   Proofs/AggregatesProofs.v.  Model: Model/Aggregates.v (every prototype of aggregates.Aggregates as
   init / add(retraction, value) / trig; [run W h] is the state after the Adds of the history h).
   In every statement  h  is ANY history of any length,  valid_hist h  says no prefix retracts a value
   whose Compare-class is absent, and  l  is ANY non-empty list representing the net multiset of h
   (for every value v: the number of members of l that Compare equal to v = additions - retractions of
   that class in h).  "Computed from scratch" means: a function of l alone. *)
From Coq Require Import Sorted.
From Octo Require Import Aggregates AggregatesProofs.

(* count = |M|  (as an int64) *)
Theorem C14_count : forall h l, valid_hist h -> represents l h -> l <> [] ->
  trig Count (run Count h) = Ok (VInt (wrap64 (zlen l))).
Proof. exact count_correct. Qed.
Print Assumptions C14_count.

(* sum(Int) = the int64-wrapped sum of M, whatever wrapped along the way *)
Theorem C14_sum_int : forall h l, valid_hist h -> represents l h -> l <> [] ->
  trig SumInt (run SumInt h) = Ok (VInt (wrap64 (lsum int_of l))).
Proof. exact (sum64_correct int_of VInt int_of_inv). Qed.
Print Assumptions C14_sum_int.

Theorem C14_sum_duration : forall h l, valid_hist h -> represents l h -> l <> [] ->
  trig SumDur (run SumDur h) = Ok (VDur (wrap64 (lsum dur_of l))).
Proof. exact (sum64_correct dur_of VDur dur_of_inv). Qed.
Print Assumptions C14_sum_duration.

(* avg(Int) = the wrapped sum divided by |M|, truncating toward zero (never a panic: |M| > 0) *)
Theorem C14_avg_int : forall h l, valid_hist h -> represents l h -> l <> [] -> zlen l < two63 ->
  trig AvgInt (run AvgInt h) = Ok (VInt (Z.quot (wrap64 (lsum int_of l)) (zlen l))).
Proof. exact (avg64_correct int_of VInt int_of_inv). Qed.
Print Assumptions C14_avg_int.

Theorem C14_avg_duration : forall h l, valid_hist h -> represents l h -> l <> [] -> zlen l < two63 ->
  trig AvgDur (run AvgDur h) = Ok (VDur (Z.quot (wrap64 (lsum dur_of l)) (zlen l))).
Proof. exact (avg64_correct dur_of VDur dur_of_inv). Qed.
Print Assumptions C14_avg_duration.

(* min = a least element of M under Value.Compare (values are identified by Compare = 0; all kinds of
   values, NaN and signed zeros included); never the empty-tree panic *)
Theorem C14_min : forall h l, valid_hist h -> represents l h -> l <> [] ->
  exists m, trig Min (run Min h) = Ok m /\
            (exists x, In x l /\ vcompare m x = 0) /\ (forall x, In x l -> vcompare m x <= 0).
Proof. exact min_correct_prop. Qed.
Print Assumptions C14_min.

Theorem C14_max : forall h l, valid_hist h -> represents l h -> l <> [] ->
  exists m, trig Max (run Max h) = Ok m /\
            (exists x, In x l /\ vcompare m x = 0) /\ (forall x, In x l -> vcompare x m <= 0).
Proof. exact max_correct_prop. Qed.
Print Assumptions C14_max.

(* array_agg = the ascending expansion of M: sorted under Compare, every class with its multiplicity *)
Theorem C14_array : forall h l, valid_hist h -> represents l h -> l <> [] ->
  exists e, trig Array (run Array h) = Ok (VList e) /\
            StronglySorted (fun a b => vcompare a b <= 0) e /\ (forall v, ccount e v = ccount l v).
Proof. exact array_correct_prop. Qed.
Print Assumptions C14_array.

(* DISTINCT, generically: if W is correct w.r.t. spec, Distinct W is correct w.r.t. spec applied to the
   support of M (any list with exactly one member per class present in M).  Uses C09's
   "Compare-equal values have equal hash feeds" for the hashmap abstraction. *)
Theorem C14_distinct : forall W spec, agg_correct W spec ->
  agg_correct (Distinct W) (fun l o => forall l', support_of l' l -> spec l' o).
Proof. exact distinct_correct. Qed.
Print Assumptions C14_distinct.

(* the support exists (so C14_distinct is not vacuous) and is what the oracle computes *)
Theorem C14_support_exists : forall l, support_of (vnub l) l.
Proof. exact vnub_support. Qed.
Print Assumptions C14_support_exists.

(* Every prototype of the table that contains no float sum (count, sum/avg over Int and Duration, min,
   max, array_agg and all their DISTINCT wrappers, nested to any depth): after every Add of every valid
   history, whenever the net multiset is non-empty, the model's Trigger value is accepted by the very
   oracle the differential check applies to the implementation's observations. *)
Theorem C14_table : forall k h, float_free k = true -> valid_hist h -> Z.of_nat (length h) < two63 ->
  c14_spec (k, h, run_obs (agg_of k) h) = true.
Proof. exact model_passes_c14_spec. Qed.
Print Assumptions C14_table.

(* the oracle's guard: the executable net multiset exists exactly for valid histories and represents them *)
Theorem C14_netl_sound : forall h l, netl h = Some l -> valid_hist h /\ represents l h.
Proof. exact netl_sound. Qed.
Print Assumptions C14_netl_sound.
Theorem C14_netl_complete : forall h, valid_hist h -> exists l, netl h = Some l.
Proof. exact netl_complete. Qed.
Print Assumptions C14_netl_complete.

(* what the oracle's boolean tests mean *)
Theorem C14_oracle_sorted_expansion : forall e l, is_sorted_expansion e l = true <->
  StronglySorted (fun a b => vcompare a b <= 0) e /\ (forall v, ccount e v = ccount l v).
Proof. exact is_sorted_expansion_spec. Qed.
Print Assumptions C14_oracle_sorted_expansion.
Theorem C14_oracle_least : forall m l, is_least m l = true <->
  (exists x, In x l /\ vcompare m x = 0) /\ (forall x, In x l -> vcompare m x <= 0).
Proof. exact is_least_spec. Qed.
Print Assumptions C14_oracle_least.

(* Float sums — PARTIAL.  Full statement wanted:
     forall h l, valid_hist h -> represents l h -> l <> [] -> all floats finite ->
       |float(trig SumFloat (run SumFloat h)) - exact_sum l| <= rounding_bound (length h) (sum of |x| over h)
   Proved: (1) SumFloat, SumInt and SumExact are one algorithm (SumG) over three carriers; (2) over exact
   integers (any class-invariant valuation f, e.g. the exact value of a finite float in units of 2^-1074)
   that algorithm yields exactly the sum over M — it adds and subtracts the right elements, each once.
   Missing: the rounding-error bound for the IEEE carrier.  It is checked per case by the differential
   engine (c14_spec compares with the exact rational sum within (n+3) 2^-52 sum|x|), and the model's
   SumFloat/AverageFloat are tied to the implementation bit for bit. *)
Theorem C14_sum_exact_partial : forall f, class_inv f ->
  forall h l, valid_hist h -> represents l h -> l <> [] ->
  trig (SumExact f) (run (SumExact f) h) = Ok (VInt (lsum f l)).
Proof. exact sum_exact_correct. Qed.
Print Assumptions C14_sum_exact_partial.
Theorem C14_sum_one_algorithm :
  SumFloat = SumG fl_add fl_sub 0 float_of VFloat /\ SumInt = SumG add64 sub64 0 int_of VInt /\
  forall f, SumExact f = SumG Z.add Z.sub 0 f VInt.
Proof. exact sum_algorithms_are_one. Qed.
Print Assumptions C14_sum_one_algorithm.

(* Known finding (not a small repair): a float sum does not survive the retraction of a non-finite value:
   +Inf, +1.0, -(+Inf) leaves NaN in sum and avg although the net multiset is {1.0}; the oracle rejects it. *)
Theorem C14_float_sum_nonfinite_refuted : exists h l,
  valid_hist h /\ represents l h /\ l = [VFloat fb_one] /\
  trig SumFloat (run SumFloat h) = Ok (VFloat f_canon_nan) /\
  trig AvgFloat (run AvgFloat h) = Ok (VFloat f_canon_nan) /\
  c14_spec (KSumFloat, h, run_obs SumFloat h) = false.
Proof. exact float_sum_nonfinite_refuted. Qed.
Print Assumptions C14_float_sum_nonfinite_refuted.

(* ... nor an intermediate overflow: +Max, +Max, -Max leaves +Inf although the net multiset is {Max} *)
Theorem C14_float_sum_overflow_refuted : exists h l,
  valid_hist h /\ represents l h /\ l = [VFloat fb_max] /\
  forallb (fun e => fl_finite (float_of (snd e))) h = true /\
  trig SumFloat (run SumFloat h) = Ok (VFloat fb_pinf) /\
  c14_spec (KSumFloat, h, run_obs SumFloat h) = false.
Proof. exact float_sum_overflow_refuted. Qed.
Print Assumptions C14_float_sum_overflow_refuted.

(* Non-vacuity: a history with a duplicate, a retraction through another member of the class (-0.0 for
   +0.0), an emptied class and a NaN meets the hypotheses, with a two-element net multiset. *)
Example C14_hypotheses_satisfiable :
  let h := [(false, VFloat 0); (false, VFloat 0); (true, VFloat 9223372036854775808); (false, VInt 7);
            (true, VInt 7); (false, VFloat f_canon_nan)] in
  netl h = Some [VFloat 0; VFloat f_canon_nan] /\
  run_obs Min h = [Ok (VFloat 0); Ok (VFloat 0); Ok (VFloat 0); Ok (VInt 7); Ok (VFloat 0); Ok (VFloat f_canon_nan)] /\
  run_obs (Distinct Count) h = [Ok (VInt 1); Ok (VInt 1); Ok (VInt 1); Ok (VInt 2); Ok (VInt 1); Ok (VInt 2)].
Proof. vm_compute. repeat split. Qed.
