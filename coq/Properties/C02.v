(* Properties/C02.v — Join results match relational join semantics.
   Statements only; proofs in Proofs/JoinQueryProofs.v (and Proofs/JoinsProofs.v for the schedule-independence).
   Model: Model/JoinQuery.v (relational reference rel_join, ON/WHERE conjuncts, LookupJoin) over the node models
   of Model/Joins.v.  A table read as a batch is [batch t]: insert-only records without event time, then close. *)
From Octo Require Import Joins JoinQuery JoinsBase JoinsProofs JoinQueryProofs GenJoinProofs OuterJoinProofs OuterJoinProofs2 JoinsDoneProofs ChangelogLemmas.

(* INNER JOIN (parser.go: StreamJoin + Filter(ON); optimizer: equalities moved into the join key, the rest stays
   in the filter).  For every pair of tables, every key extraction kl/kr (none = the unoptimized plan, where
   key_match [] [] = true and the whole ON is the residual), every residual predicate and EVERY interleaving of the
   two inputs (either one finishing first), the rows passing the filter are exactly the relational join
   { l ++ r | the keys are NULL-free and equal /\ residual (l ++ r) }, with multiplicities. *)
Theorem C02_inner : forall kl kr nl, key_respects kl -> key_respects kr ->
  forall residual L R sigma st os, pred_respects residual ->
  interleave (batch L) (batch R) sigma -> (forall l, In l L -> length l = nl) ->
  sj_run_steps kl kr jinit sigma = (st, os) -> phase st = Done ->
  forall x, consolidate (filter (fun r => residual (vals r)) (records (concat os))) x =
            count_rows (rel_inner (fun y => key_pred kl kr nl y && residual y) L R) x.
Proof.
  intros kl kr nl Hkl Hkr residual L R sigma st os Hres Hil Ha Hrun Hd.
  exact (inner_join_batch kl kr nl Hkl Hkr residual L R sigma st os Hres Hil Ha Hrun Hd).
Qed.
Print Assumptions C02_inner.

(* The result does not depend on the schedule (whichever input finishes first): two runs of the same join over
   the same tables under any two interleavings consolidate to the same bag. *)
Corollary C02_any_order : forall kl kr nl, key_respects kl -> key_respects kr ->
  forall L R sigma1 sigma2 st1 os1 st2 os2,
  interleave (batch L) (batch R) sigma1 -> interleave (batch L) (batch R) sigma2 ->
  (forall l, In l L -> length l = nl) ->
  sj_run_steps kl kr jinit sigma1 = (st1, os1) -> phase st1 = Done ->
  sj_run_steps kl kr jinit sigma2 = (st2, os2) -> phase st2 = Done ->
  forall x, consolidate (records (concat os1)) x = consolidate (records (concat os2)) x.
Proof.
  intros kl kr nl Hkl Hkr L R s1 s2 st1 os1 st2 os2 I1 I2 Ha R1 D1 R2 D2 x.
  pose proof (inner_join_batch kl kr nl Hkl Hkr (fun _ => true) L R s1 st1 os1 (fun _ _ _ => eq_refl) I1 Ha R1 D1 x) as A.
  pose proof (inner_join_batch kl kr nl Hkl Hkr (fun _ => true) L R s2 st2 os2 (fun _ _ _ => eq_refl) I2 Ha R2 D2 x) as B.
  assert (F : forall l, filter (fun r : rec => (fun _ : row => true) (vals r)) l = l) by (induction l; simpl; congruence).
  rewrite F in A, B. rewrite A, B. reflexivity.
Qed.
Print Assumptions C02_any_order.

(* A conjunction of ON equalities col_i = col_j is TRUE on a row exactly when the two key tuples are NULL-free and
   equal: so the keys that logical/join.go (outer joins) and the optimizer (inner joins) extract mean the same as
   the predicate they were extracted from — once the join no longer matches NULL keys. *)
Theorem C02_equalities_are_keys : forall is js x, length is = length js ->
  all_hold (eq_conds is js) x = key_match (proj is x) (proj js x).
Proof. exact eq_conds_are_keys. Qed.
Print Assumptions C02_equalities_are_keys.

(* LOOKUP JOIN: the joined side is run once per source record with that record in scope.  When the joined side is a
   table filtered by a predicate over (source record, joined row) the output is the relational theta-join ... *)
Theorem C02_lookup : forall (p : row -> bool) S T,
  lookup_join (fun s => map ins (filter (fun t => p (vals s ++ t)) T)) (map ins S) = map ins (rel_inner p S T).
Proof. exact lookup_join_batch. Qed.
Print Assumptions C02_lookup.
(* ... and for any joined side it is linear in the source changelog (a retraction of a source record retracts
   what an equal insertion produces, provided the joined side answers the same). *)
Theorem C02_lookup_linear : forall joined a b x,
  consolidate (lookup_join joined (a ++ b)) x = consolidate (lookup_join joined a) x + consolidate (lookup_join joined b) x.
Proof. exact lookup_join_linear. Qed.
Print Assumptions C02_lookup_linear.

(* Non-vacuity of C02_inner: duplicate and NULL keys, right side finishing first. *)
Example C02_hypotheses_satisfiable :
  let L := [[VInt 1; VInt 10]; [VNull; VInt 11]; [VInt 1; VInt 12]] in
  let R := [[VInt 1; VInt 20]; [VNull; VInt 21]] in
  exists sigma st os,
    merge [false; true; false; false; true; true; true] (batch L) (batch R) = Some sigma /\
    sj_run_steps k1 k1 jinit sigma = (st, os) /\ phase st = Done /\
    count_rows (rel_inner (fun y => key_pred k1 k1 2 y && true) L R) [VInt 1; VInt 12; VInt 1; VInt 20] = 1 /\
    count_rows (rel_inner (fun y => key_pred k1 k1 2 y && true) L R) [VNull; VInt 11; VNull; VInt 21] = 0.
Proof. eexists _, _, _. repeat split; vm_compute; reflexivity. Qed.

(* The pinned code: with the equality in the join key the NULL/NULL pair is returned (inner join with the
   optimizer on; outer joins always). *)
Theorem C02_inner_refuted :
  let '(st, out) := sj_run_pinned k1 k1 jinit wnull_sigma in
  phase st = Done /\ bag_eqb (records out) (map ins (rel_join 0 (all_hold [CEq 0 2]) 2 2 wq_left wq_right)) = false.
Proof. exact inner_pinned_pairs_null_keys. Qed.
Print Assumptions C02_inner_refuted.
Theorem C02_outer_refuted :
  let '(st, out) := oj_run_pinned k1 k1 true true 2 2 jinit wnull_sigma in
  phase st = Done /\ bag_eqb (records out) (map ins (rel_join 3 (all_hold [CEq 0 2]) 2 2 wq_left wq_right)) = false.
Proof. exact outer_pinned_pairs_null_keys. Qed.
Print Assumptions C02_outer_refuted.

(* LEFT (kind 1) / RIGHT (kind 2) / FULL (kind 3) OUTER JOIN (kind 0: no outer side).  logical/join.go takes all ON
   equalities as keys.  On two batches, under EVERY interleaving (either input finishing first), the output is the
   matched pairs plus every row of an outer side that has no partner exactly once, NULL-padded — [rel_join]. *)
Theorem C02_outer : forall kl kr nl nr kind, key_respects kl -> key_respects kr ->
  forall L R sigma st os,
  interleave (batch L) (batch R) sigma ->
  (forall l, In l L -> length l = nl) -> (forall r, In r R -> length r = nr) ->
  oj_run_steps kl kr ((kind =? 1) || (kind =? 3)) ((kind =? 2) || (kind =? 3)) nl nr jinit sigma = (st, os) ->
  phase st = Done ->
  forall x, consolidate (records (concat os)) x = count_rows (rel_join kind (key_pred kl kr nl) nl nr L R) x.
Proof.
  intros kl kr nl nr kind Hkl Hkr L R sigma st os.
  exact (outer_join_batch kl kr nl nr kind Hkl Hkr L R sigma st os).
Qed.
Print Assumptions C02_outer.

(* the instance on the NULL-key witness (kept from the first round; subsumed by C02_outer) *)
Theorem C02_outer_partial :
  let '(st, out) := oj_run k1 k1 true true 2 2 jinit wnull_sigma in
  phase st = Done /\ bag_eqb (records out) (map ins (rel_join 3 (all_hold [CEq 0 2]) 2 2 wq_left wq_right)) = true.
Proof. exact outer_fixed_pads_null_keys. Qed.
Print Assumptions C02_outer_partial.

(* Batch inputs always run to completion (no panic, no error), so the `phase st = Done` hypotheses above hold for
   every interleaving: the unconditional forms. *)
Theorem C02_inner_total : forall kl kr nl, key_respects kl -> key_respects kr ->
  forall residual L R sigma, pred_respects residual ->
  interleave (batch L) (batch R) sigma -> (forall l, In l L -> length l = nl) ->
  forall x, consolidate (filter (fun r => residual (vals r)) (records (concat (snd (sj_run_steps kl kr jinit sigma))))) x =
            count_rows (rel_inner (fun y => key_pred kl kr nl y && residual y) L R) x.
Proof.
  intros kl kr nl Hkl Hkr residual L R sigma Hres Hil Ha.
  assert (Hd : phase (fst (sj_run_steps kl kr jinit sigma)) = Done)
    by exact (reaches_done (recv_stream kl kr true) true (recv_stream_ins_ok kl kr true) _ _ sigma Hil (good_batch L) (good_batch R)).
  destruct (sj_run_steps kl kr jinit sigma) as [st os] eqn:E.
  exact (inner_join_batch kl kr nl Hkl Hkr residual L R sigma st os Hres Hil Ha E Hd).
Qed.
Print Assumptions C02_inner_total.

Theorem C02_outer_total : forall kl kr nl nr kind, key_respects kl -> key_respects kr ->
  forall L R sigma,
  interleave (batch L) (batch R) sigma ->
  (forall l, In l L -> length l = nl) -> (forall r, In r R -> length r = nr) ->
  forall x, consolidate (records (concat (snd (oj_run_steps kl kr ((kind =? 1) || (kind =? 3)) ((kind =? 2) || (kind =? 3)) nl nr jinit sigma)))) x =
            count_rows (rel_join kind (key_pred kl kr nl) nl nr L R) x.
Proof.
  intros kl kr nl nr kind Hkl Hkr L R sigma Hil HL HR.
  assert (Hd : phase (fst (oj_run_steps kl kr ((kind =? 1) || (kind =? 3)) ((kind =? 2) || (kind =? 3)) nl nr jinit sigma)) = Done)
    by exact (reaches_done (recv_outer kl kr ((kind =? 1) || (kind =? 3)) ((kind =? 2) || (kind =? 3)) nl nr true) false
                (recv_outer_ins_ok kl kr _ _ nl nr true) _ _ sigma Hil (good_batch L) (good_batch R)).
  destruct (oj_run_steps kl kr _ _ nl nr jinit sigma) as [st os] eqn:E.
  exact (outer_join_batch kl kr nl nr kind Hkl Hkr L R sigma st os Hil HL HR E Hd).
Qed.
Print Assumptions C02_outer_total.
