(* Properties/C28.v — Installed plugins are discovered and versions resolved correctly.
   Statements only; proofs are in Proofs/PluginsProofs.v.  Model: Model/Plugins.v
   (listed = ListInstalledPlugins after the `fix:` commit, listed_pinned = before it; resolve = dbLoop of
   cmd/root.go; pick = the selection loop of PluginManager.Install over GetManifest's sorted versions;
   vcompare / check = Masterminds semver v1.5.0 Compare / Constraints.Check).
   canonv v: every prerelease identifier of v is non-empty and, when numeric, written without leading zeros. *)
From Octo Require Import Plugins PluginsProofs PluginsRoundtrip.
From Coq Require Import Permutation Sorted.

(* version_le (Compare <= 0) is reflexive, total and transitive; GreaterThan — the comparator handed to
   sort.Slice in ListInstalledPlugins and GetManifest — is exactly its strict part; Compare = 0 means equal
   up to build metadata. *)
Theorem C28_semver_order :
     (forall a, version_le a a)
  /\ (forall a b, canonv a -> canonv b -> version_le a b \/ version_le b a)
  /\ (forall a b c, canonv a -> canonv b -> canonv c -> version_le a b -> version_le b c -> version_le a c)
  /\ (forall a b, canonv a -> canonv b -> (vgt a b = true <-> version_le b a /\ ~ version_le a b))
  /\ (forall a b, canonv a -> canonv b ->
        (vcompare a b = 0 <-> vmaj a = vmaj b /\ vmin a = vmin b /\ vpat a = vpat b /\ vpre a = vpre b)).
Proof. exact semver_order. Qed.
Print Assumptions C28_semver_order.

(* The hypothesis canonv is needed: with the identifiers "01" and "1" the library's Compare is not transitive
   (1.0.0-1.4 <= 1.0.0-01.5 <= 1.0.0-1.3 but not 1.0.0-1.4 <= 1.0.0-1.3). *)
Theorem C28_semver_order_needs_canonical_numerals : exists a b c,
  version_le a b /\ version_le b c /\ ~ version_le a c.
Proof. exact order_needs_canonical. Qed.
Print Assumptions C28_semver_order_needs_canonical_numerals.

(* The sort used for installed versions and manifests returns the same versions, in descending order. *)
Theorem C28_sort_descending : forall l, Forall canonv l ->
  Permutation l (sort_desc l) /\ StronglySorted (fun a b => version_le b a) (sort_desc l).
Proof. intros l C. split; [apply sort_perm|apply sort_sorted; exact C]. Qed.
Print Assumptions C28_sort_descending.

(* Discovery.  [it] is any set of installations: repository -> plugin name -> version directory names, the
   plugin directory being "octosql-plugin-" ++ name.  Whatever bytes the names consist of (dashes included),
   the listing has exactly one entry per installed plugin, in directory order, under exactly that name and
   repository, with the versions sorted (no repository may be called ".staging", the name Install reserves
   for its staging directory after the staged-install fix); and it fails only if some version directory name is not a version. *)
Theorem C28_discover : forall it, no_staging it = true ->
  (tree_parses it = true ->
     listed (dir_tree it) = Ok (map (fun '(repo, name, vs) => mkMD name repo (sort_desc (parsed_or_nil vs))) (flat it)))
  /\ (tree_parses it = false -> listed (dir_tree it) = Err e_bad_version).
Proof. intros it NS. split; [apply discover; exact NS|apply discover_bad; exact NS]. Qed.
Print Assumptions C28_discover.

(* A plugin whose own name contains "octosql-plugin-" (or starts with it, or is empty): the directory is the prefix
   plus the name and exactly one prefix is trimmed, so the name comes back unchanged — an instance of C28_discover,
   spelled out because TrimPrefix is applied to such directory names too. *)
Theorem C28_discover_prefix_inside_name : forall a b,
  plugin_name (dir_of (a ++ plugin_prefix ++ b)) = a ++ plugin_prefix ++ b /\
  plugin_name (dir_of (plugin_prefix ++ b)) = plugin_prefix ++ b /\ plugin_name (dir_of []) = [].
Proof. intros a b. repeat split; apply plugin_name_dir_of. Qed.
Print Assumptions C28_discover_prefix_inside_name.

(* Hyphen ranges (reachable from `version:` in octosql.yml and from `plugin install name@lo - hi`): a range is
   exactly the conjunction of ">= lo" and "<= hi" with the library's dirty-version rules for both bounds; every
   theorem above is stated for the rewritten constraint (check (desugar src)). *)
Theorem C28_hyphen_range : forall lo hi v,
  check (desugar [[CR lo hi]]) v =
  check1 v (parse_constraint (mkCS OpGe (vs_maj lo) (vs_rest lo) (vs_pre lo))) &&
  check1 v (parse_constraint (mkCS OpLe (vs_maj hi) (vs_rest hi) (vs_pre hi))).
Proof. intros lo hi v. unfold check, desugar. simpl. rewrite andb_true_r, orb_false_r. reflexivity. Qed.
Print Assumptions C28_hyphen_range.

(* String() and NewVersion are inverse on well-formed versions (segments within int64, prerelease identifiers
   non-empty over [0-9A-Za-z-], metadata empty or dotted identifiers): the version directory Install creates,
   version.Number.String(), parses back to the same version, so installed versions are listed as themselves.
   (This is the hypothesis u_parse / f_parse of the C27 theorems.) *)
Theorem C28_version_roundtrip : forall v, wf_version v -> parse_version (print_version v) = Some v.
Proof. exact parse_print. Qed.
Print Assumptions C28_version_roundtrip.

Theorem C28_installed_versions_listed : forall vs, Forall wf_version vs ->
  parse_versions (map print_version vs) = Ok vs.
Proof. exact parse_versions_print. Qed.
Print Assumptions C28_installed_versions_listed.

(* The pinned code keeps the text after the LAST dash: core/octosql-plugin-my-plugin is listed as "plugin". *)
Theorem C28_discover_refuted : exists it,
  no_staging it = true /\ tree_parses it = true /\
  listed_pinned (dir_tree it) <> Ok (map (fun '(repo, name, vs) => mkMD name repo (sort_desc (parsed_or_nil vs))) (flat it)).
Proof. exact discover_pinned_refuted. Qed.
Print Assumptions C28_discover_refuted.

(* Resolution at start-up.  For an installed plugin (repo, name) with version directories vs — directory names are
   unique, hence NoDup — a database of that type with constraint c resolves to a version that is installed, is
   accepted by c and is >= every installed version accepted by c; it fails to resolve only if none is accepted. *)
Theorem C28_resolve : forall it repo name vs c l,
  no_staging it = true -> tree_parses it = true -> NoDup (map ref_of (flat it)) -> In (repo, name, vs) (flat it) ->
  Forall canonv (parsed_or_nil vs) ->
  listed (dir_tree it) = Ok l ->
  match resolve l name repo c with
  | Some v => In v (parsed_or_nil vs) /\ check c v = true /\
              forall w, In w (parsed_or_nil vs) -> check c w = true -> version_le w v
  | None => forall w, In w (parsed_or_nil vs) -> check c w = false
  end.
Proof. intros it repo name vs c l NS TP ND Hin C L. exact (resolve_correct it repo name vs c NS TP ND Hin C l L). Qed.
Print Assumptions C28_resolve.

(* Install picks a highest manifest version accepted by the constraint, or a highest version without a
   prerelease when no constraint is given (pick_pred); "version not found" only if there is none. *)
Theorem C28_install_pick : forall manifest c, Forall canonv manifest ->
  match pick manifest c with
  | Some v => In v manifest /\ pick_pred c v = true /\
              forall w, In w manifest -> pick_pred c w = true -> version_le w v
  | None => forall w, In w manifest -> pick_pred c w = false
  end.
Proof. exact pick_correct. Qed.
Print Assumptions C28_install_pick.

(* The executable oracle applied to the implementation's answers (is_max_of) implies the statement above. *)
Theorem C28_oracle_sound : forall p cands v, Forall canonv cands -> canonv v ->
  is_max_of p cands v = true ->
  p v = true /\ (exists w, In w cands /\ p w = true /\ vcompare w v = 0) /\
  forall w, In w cands -> p w = true -> version_le w v.
Proof. exact max_spec_sound. Qed.
Print Assumptions C28_oracle_sound.

(* Non-vacuity: two repositories, names with dashes, prereleases and build metadata, a constraint with a
   prerelease bound; the hypotheses of C28_resolve hold and the resolution is the expected one. *)
Example C28_hypotheses_satisfiable :
  let s := fun (l : list Z) => l in
  let it : tree :=
    [ (s [99;111;114;101] (* core *),
        [ (s [109;121;45;112;108;117;103;105;110] (* my-plugin *),
             [s [49;46;48;46;48] (* 1.0.0 *); s [49;46;50;46;48;45;114;99;46;49] (* 1.2.0-rc.1 *);
              s [49;46;49;46;48;43;98;53] (* 1.1.0+b5 *)]) ;
          (s [112;108;117;103;105;110] (* plugin *), [s [48;46;51;46;48]]) ]) ;
      (s [120] (* x *), [ (s [109;121;45;112;108;117;103;105;110], [s [50;46;48;46;48]]) ]) ] in
  no_staging it = true /\ tree_parses it = true /\ NoDup (map ref_of (flat it)) /\
  Forall canonv (parsed_or_nil [s [49;46;48;46;48]; s [49;46;50;46;48;45;114;99;46;49]; s [49;46;49;46;48;43;98;53]]) /\
  (exists l, listed (dir_tree it) = Ok l /\
     option_map print_version (resolve l [109;121;45;112;108;117;103;105;110] [99;111;114;101] star)
       = Some [49;46;49;46;48;43;98;53] /\
     option_map print_version (resolve l [109;121;45;112;108;117;103;105;110] [99;111;114;101]
                                 [[mkCS OpGe (SN 1) (Some (SN 0, Some (SN 0))) [[97]]]])
       = Some [49;46;50;46;48;45;114;99;46;49]).
Proof.
  cbv zeta. split; [vm_compute; reflexivity|]. split; [vm_compute; reflexivity|]. split.
  - vm_compute. repeat (constructor; [simpl; intro H; repeat (destruct H as [H|H]; [discriminate H|]); exact H|]). constructor.
  - split; [repeat constructor|].
    eexists. split; [vm_compute; reflexivity|]. split; vm_compute; reflexivity.
Qed.
