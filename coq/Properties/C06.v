(* Properties/C06.v — Runtime errors are never swallowed.  Statements only; proofs in Proofs/ErrorFlowProofs.v.
   Model: Model/ErrorFlow.v.  A node is a function of its consumer (produce / metaSend callbacks and the
   consumer's state) returning (state, returned error, ghost); the ghost flag is raised where a fresh
   runtime failure comes into existence (scripted source reaches its injected failure, an expression
   evaluates to an error, a limit expression fails, a join receives a producer's error, a subquery meets
   a retraction) and is never inspected by the model.  [run false pl] is the code after the fix: commits,
   [run true pl] the pinned code.  [run_top] runs a plan under the recording consumer (never an error).

   Vocabulary (Proofs/ErrorFlowProofs.v):
     HQ b x        the call result x is honest (ghost raised -> the returned error is a failure, i.e. not nil
                   and not a LIMIT sentinel) and, when b = true, also quiet (an error is returned only when
                   the ghost is raised: the call never stops the stream for another reason);
     node_ok b n   under every consumer whose callbacks are HQ b, every Run of n is HQ b;
     AF n          under every honest and quiet consumer, Run of n returns a failure;
     cut_free pl   pl contains no Limit node and no ORDER BY .. LIMIT 0 (the two places that end a run
                   early by design); source_fails pl: a scripted source below fails (for a join: on either side). *)
From Octo Require Import ErrorFlow ErrorFlowProofs.
From Octo Require JoinDelivery JoinDeliveryProofs.

(* C06_node.  For every node kind: if the node(s) below are honest (resp. honest and quiet), so is the node
   — whatever the predicate / expressions / aggregate state machine / join matching function / schedule are.
   Filter, Map, Distinct, OrderSensitiveTransform, Unnest, SimpleGroupBy, CustomTriggerGroupBy (abstract
   aggregates and trigger), EventTimeBuffer, LookupJoin (the joined subtree may depend on the outer record),
   StreamJoin and OuterJoin (every interleaving of the two producers).  Limit is honest; it is not quiet:
   it stops its source with its sentinel, and swallows that sentinel only (theorems C06_limit_reached, C06_limit_cut_off, C06_limit_swallows_only_own). *)
Theorem C06_node : forall b,
  (forall pred src, node_ok b src -> node_ok b (filter_node pred src)) /\
  (forall es src, node_ok b src -> node_ok b (map_node es src)) /\
  (forall src, node_ok b src -> node_ok b (distinct_node false src)) /\
  (forall keys dirs lim noretr src, node_ok b src -> node_ok b (ost_node false keys dirs lim noretr src)) /\
  (forall idx src, node_ok b src -> node_ok b (unnest_node idx src)) /\
  (forall g src, node_ok b src -> node_ok b (sgb_node g src)) /\
  (forall g src, node_ok b src -> node_ok b (cgb_node g src)) /\
  (forall src, node_ok b src -> node_ok b (buffer_node src)) /\
  (forall src joined, node_ok b src -> (forall a, node_ok b (joined a)) -> node_ok b (lookup_node src joined)) /\
  (forall j sched l r, node_ok b l -> node_ok b r -> node_ok b (join_node j sched l r)) /\
  (forall id lim src, node_ok false src -> node_ok false (limit_node id lim src)) /\
  (forall evs fl, node_ok b (run_script evs fl)).
Proof.
  intro b.
  exact (conj (filter_ok b) (conj (map_ok b) (conj (distinct_ok b) (conj (ost_ok b) (conj (unnest_ok b)
        (conj (sgb_ok b) (conj (cgb_ok b) (conj (buffer_ok b) (conj (lookup_ok b) (conj (join_ok b)
        (conj limit_honest (script_ok b)))))))))))).
Qed.
Print Assumptions C06_node.

(* C06_node_fails.  Each node kind above a source that always fails: Run returns a failure (for an ORDER BY with
   LIMIT the limit must not be 0: LIMIT 0 returns before running the source). *)
Theorem C06_node_fails :
  (forall pred src, AF src -> AF (filter_node pred src)) /\
  (forall es src, AF src -> AF (map_node es src)) /\
  (forall src, AF src -> AF (distinct_node false src)) /\
  (forall keys dirs lim noretr src, ost_runs_source lim -> AF src -> AF (ost_node false keys dirs lim noretr src)) /\
  (forall idx src, AF src -> AF (unnest_node idx src)) /\
  (forall g src, AF src -> AF (sgb_node g src)) /\
  (forall g src, AF src -> AF (cgb_node g src)) /\
  (forall src, AF src -> AF (buffer_node src)) /\
  (forall src joined, AF src -> (forall a, node_ok true (joined a)) -> AF (lookup_node src joined)) /\
  (forall j sched l r, node_ok true l -> node_ok true r -> AF l \/ AF r -> AF (join_node j sched l r)) /\
  (forall evs e, AF (run_script evs (Some e))).
Proof.
  exact (conj filter_AF (conj map_AF (conj distinct_AF (conj ost_AF (conj unnest_AF (conj sgb_AF (conj cgb_AF
        (conj buffer_AF (conj lookup_AF (conj join_AF script_AF)))))))))).
Qed.
Print Assumptions C06_node_fails.

(* An expression that evaluates to an error on a record that reaches the operator makes the operator's callback
   return a fresh failure (which, by C06_pipeline_honest, reaches the top). *)
Theorem C06_expression_error_is_reported :
  (forall S pred (p : pfn S) s r e, pred r = Err e -> filter_cb pred p s r = fail_with s (EFail e)) /\
  (forall S es (p : pfn S) s r e, eval_all es r = Err e -> map_cb es p s r = fail_with s (EFail e)) /\
  (forall S keys dirs limit noretr (st : S * list oitem) r e,
     eval_all keys r = Err e -> ost_cb keys dirs limit noretr st r = fail_with st (EFail e)) /\
  (forall S g (sh : S * list rec) r e, sgb_eval g r = Err e -> sgb_cb g sh r = fail_with sh (EFail e)) /\
  (forall S g (p : pfn S) sh r e, cgb_eval g r = Err e -> cgb_cb g p sh r = fail_with sh (EFail e)).
Proof.
  exact (conj filter_expr_error (conj map_expr_error (conj ost_expr_error (conj sgb_expr_error cgb_expr_error)))).
Qed.
Print Assumptions C06_expression_error_is_reported.

(* C06_pipeline (honesty).  For EVERY plan built from the node kinds above (any tree, any depth, Limit nodes
   included, any scripts, expressions, schedules): if anywhere in the run a failure came into existence, the
   run returns a failure.  Structural induction over the plan. *)
Theorem C06_pipeline_honest : forall pl,
  rgen (run_top false pl) = true -> is_fail (rres (run_top false pl)) = true.
Proof. exact run_top_honest. Qed.
Print Assumptions C06_pipeline_honest.

(* ... so a nil result (exit status 0) means no failure happened anywhere in the run. *)
Theorem C06_ok_means_nothing_failed : forall pl out,
  run_outcome false pl = Ok out -> rgen (run_top false pl) = false.
Proof. exact ok_means_nothing_failed. Qed.
Print Assumptions C06_ok_means_nothing_failed.

(* C06_pipeline.  Any stack of operators (topmost first) without a cut above a failing source returns a failure,
   whatever the rows before the failure and whatever the operators' parameters are. *)
Theorem C06_pipeline : forall ops evs e,
  Forall unop_cut_free ops ->
  is_fail (rres (run_top false (stack ops (PScript evs (Some e))))) = true.
Proof. exact stack_above_failing_source. Qed.
Print Assumptions C06_pipeline.

(* the same for plan trees (joins, lookup joins with arbitrary joined subtrees) *)
Theorem C06_plan_fails : forall pl, cut_free pl -> source_fails pl -> is_fail (rres (run_top false pl)) = true.
Proof. exact run_top_fails. Qed.
Print Assumptions C06_plan_fails.

(* LIMIT: the failure is reached exactly when fewer than k records precede it.  Reached: the failure comes out.
   Not reached (k records precede it): nil, k records emitted, and no failure came into existence. *)
Theorem C06_limit_reached : forall id k evs e,
  count_recs evs < k ->
  rres (run_top false (PLimit id (Ok (VInt k)) (PScript evs (Some e)))) = Some (EFail e).
Proof. exact limit_failure_reached. Qed.
Print Assumptions C06_limit_reached.

Theorem C06_limit_cut_off : forall id k evs fl,
  0 < k -> k <= count_recs evs ->
  let x := run_top false (PLimit id (Ok (VInt k)) (PScript evs fl)) in
  rres x = None /\ rgen x = false /\ count_recs (rst x) = k.
Proof. exact limit_failure_cut_off. Qed.
Print Assumptions C06_limit_cut_off.

(* Limit swallows exactly its own sentinel: failures and other Limits' sentinels pass. *)
Theorem C06_limit_swallows_only_own : forall id,
  (forall r, is_fail r = true -> swallow_own id r = r) /\
  (forall id', id' <> id -> swallow_own id (Some (ELimit id')) = Some (ELimit id')) /\
  swallow_own id (Some (ELimit id)) = None.
Proof.
  intro id. split; [exact (swallow_own_keeps_failures id)|]. split; [exact (fun id' => swallow_own_keeps_foreign id id')|].
  simpl. rewrite Z.eqb_refl. reflexivity.
Qed.
Print Assumptions C06_limit_swallows_only_own.

(* C06_query_expr.  Single/MultiColumnQueryExpression.Evaluate: an error returned by the subquery is the
   expression's error; a failure anywhere inside the subquery (including its own "can't handle retractions")
   makes Evaluate fail; a subquery above a failing source fails. *)
Theorem C06_query_expr : forall multi (sub : node) e,
  rres (sub (list value) (qe_cb multi) drop_meta []) = Some (EFail e) -> query_expr false multi sub = Err e.
Proof. exact query_expr_returns_error. Qed.
Print Assumptions C06_query_expr.

Theorem C06_query_expr_honest : forall multi pl,
  query_expr_gen multi (run false pl) = true -> is_ok (query_expr false multi (run false pl)) = false.
Proof. intros multi pl. apply query_expr_honest. apply plan_honest. Qed.
Print Assumptions C06_query_expr_honest.

Theorem C06_query_expr_source_fails : forall multi pl, cut_free pl -> source_fails pl ->
  is_ok (query_expr false multi (run false pl)) = false.
Proof. exact query_expr_fails_with_source. Qed.
Print Assumptions C06_query_expr_source_fails.

(* The eager sink (-o json / csv): a failure below or a failing write comes out of OutputPrinter.Run. *)
Theorem C06_sink_honest : forall wr pl,
  rgen (eager_sink false wr (run false pl)) = true -> is_fail (rres (eager_sink false wr (run false pl))) = true.
Proof. exact eager_sink_honest. Qed.
Print Assumptions C06_sink_honest.

Theorem C06_sink_write_error : forall wr evs r e,
  wr r = Some e -> In (Rec r) evs -> is_fail (rres (eager_sink false wr (run_script evs None))) = true.
Proof. exact eager_sink_write_error. Qed.
Print Assumptions C06_sink_write_error.

(* Non-vacuity: a three-deep stack with a Limit whose failure is reached; the ghost is raised and the result is the failure. *)
Example C06_hypotheses_satisfiable :
  let pl := PLimit 1 (Ok (VInt 5)) (PDistinct (PFilter (ev (CTrueUnless 0 (VInt 3)))
              (PScript [row1 1; row1 1; row1 2; row1 3; row1 4] None))) in
  rgen (run_top false pl) = true /\ run_outcome false pl = Err 1 /\
  run_outcome false (PLimit 1 (Ok (VInt 2)) (PDistinct (PFilter (ev (CTrueUnless 0 (VInt 3)))
              (PScript [row1 1; row1 1; row1 2; row1 3; row1 4] None)))) = Ok [row1 1; row1 2].
Proof. vm_compute. repeat split; reflexivity. Qed.

(* ---- the pinned code (before the fix: commits) violates the property ---- *)
(* Distinct.Run dropped source.Run's error: a failing source, no cut, and yet Ok with the rows seen so far. *)
Theorem C06_pinned_distinct_refuted :
  exists pl, source_fails pl /\ cut_free pl /\ is_ok (run_outcome true pl) = true /\ rgen (run_top true pl) = true.
Proof.
  exists (PDistinct (PScript [row1 1; row1 2] (Some 7))).
  destruct pinned_distinct_swallows as [H1 [H2 [H3 H4]]]. repeat split; auto; try (rewrite H3; reflexivity).
Qed.
Print Assumptions C06_pinned_distinct_refuted.

(* SELECT DISTINCT panic(b): the Map's expression error is dropped too *)
Theorem C06_pinned_distinct_expression_refuted :
  exists pl, is_ok (run_outcome true pl) = true /\ rgen (run_top true pl) = true.
Proof.
  exists (PDistinct (PMap [ev (CFailIf 0 (VInt 2))] (PScript [row1 1; row1 2; row1 3] None))).
  destruct pinned_distinct_swallows_expression_error as [H1 H2]. split; auto; try (rewrite H1; reflexivity).
Qed.
Print Assumptions C06_pinned_distinct_expression_refuted.

Theorem C06_pinned_order_by_refuted :
  exists pl, source_fails pl /\ cut_free pl /\ is_ok (run_outcome true pl) = true /\ rgen (run_top true pl) = true.
Proof.
  exists (POst [ev (CCol 0)] [1] None true (PScript [row1 2; row1 1] (Some 7))).
  destruct pinned_ost_swallows as [H1 [H2 [H3 H4]]]. repeat split; auto; try (rewrite H3; reflexivity).
Qed.
Print Assumptions C06_pinned_order_by_refuted.

Theorem C06_pinned_query_expr_refuted :
  exists sub, source_fails sub /\ is_ok (query_expr true false (run true sub)) = true /\ query_expr_gen false (run true sub) = true.
Proof.
  exists (PScript [row1 1] (Some 7)).
  destruct pinned_query_expr_swallows as [H1 [H2 H3]]. repeat split; auto; try (rewrite H2; reflexivity).
Qed.
Print Assumptions C06_pinned_query_expr_refuted.

(* JSONFormatter.Write dropped the writer's error *)
Theorem C06_pinned_json_write_refuted :
  exists wr evs, rres (eager_sink true wr (run_script evs None)) = None /\
                 sink_write_failed wr (rst (eager_sink true wr (run_script evs None))) = true.
Proof.
  exists (fun r : rec => if row_eqb (vals r) [VInt 2] then Some 9 else None), [row1 1; row1 2].
  exact pinned_json_write_swallows.
Qed.
Print Assumptions C06_pinned_json_write_refuted.

(* ---- joins at channel level (the class of seeded change C06-4) ----
   Model: the two-producer / one-receive-loop transition system of StreamJoin.Run / OuterJoin.Run built for C29
   (Model/Concurrency.v part (b), tied to the real joins by C29's replay of traced runs; reused read-only):
   channels of capacity cap, a producer whose source failed sends the error as its last message with a BLOCKING send,
   the receive loop returns at once on an error message or a failing processing action, and otherwise returns through
   its final flush after both sides are closed and drained — the only step by which Run can return nil
   ([nil_return_step]).  For every capacity >= 0, every number of messages, every interleaving (every reachable state): *)
Section Joins.
Import JoinDelivery JoinDeliveryProofs ConcurrencyProofs.

(* C06_join_error_delivered: an error sent by a producer is always delivered or Run has already returned an error:
   Run cannot take its nil-return step in any reachable state when the source of either side failed. *)
Theorem C06_join_error_delivered : forall p s l s',
  nreach p s -> nstep p s l = Some s' -> nil_return_step s l = true ->
  np_errl p = false /\ np_errr p = false.
Proof. exact join_no_nil_return_when_a_source_failed. Qed.

Theorem C06_join_run_returns_error : forall p tr s l s',
  nrun p ninit tr = Some s -> nstep p s l = Some s' -> (np_errl p = true \/ np_errr p = true) ->
  nil_return_step s l = false.
Proof. exact join_run_returns_error. Qed.

(* the seeded variant: with a non-blocking send of the final error (dropped when the channel is full) there is a run in
   which the left source fails and Run returns nil: capacity 1, one record, the error dropped, both sides drained *)
Theorem C06_join_nonblocking_send_refuted :
  exists p tr s l s', np_errl p = true /\ drun p ninit tr = Some s /\ dstep p s (DStd l) = Some s' /\
                      nil_return_step s l = true /\ n_m s' = Concurrency.MRet.
Proof. exact nonblocking_send_loses_the_error. Qed.
End Joins.
Print Assumptions C06_join_error_delivered.
Print Assumptions C06_join_run_returns_error.
Print Assumptions C06_join_nonblocking_send_refuted.
