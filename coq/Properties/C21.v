(* Properties/C21.v — tumble, range and poll produce their documented streams.  Statements only; proofs in
   Proofs/TVFProofs.v.  Model: Model/TVF.v. *)
From Octo Require Import TVF TVFProofs.
From Coq Require Import Sorted.

(* tumble: if the run succeeds then the window length is positive and the output is the input event by
   event: watermarks unchanged, and every record r (Time t in field idx) becomes r' with
   vals r' = vals r ++ [window_start; window_end], window_start <= t < window_end,
   window_end - window_start = len, (window_start - offset) a multiple of len counted from Go's zero Time
   (Time.Truncate's origin), retraction flag and event time unchanged.  Any t (no range guard), any
   offset except MinInt64 (larger than the length, negative ...), streams of any length. *)
Theorem C21_tumble : forall len off idx inp out,
  - two63 < off < two63 -> tumble_run len off idx inp = Ok out ->
  0 < len /\ Forall2 (tumble_rel len off idx) inp out.
Proof. exact tumble_run_char. Qed.
Print Assumptions C21_tumble.

(* ... it does succeed for every positive length when each record has field idx, *)
Theorem C21_tumble_total : forall len off idx inp,
  0 < len -> forallb (has_field idx) (records inp) = true -> exists out, tumble_run len off idx inp = Ok out.
Proof. exact tumble_run_total. Qed.
Print Assumptions C21_tumble_total.

(* ... and a window length <= 0 (whose "window" cannot contain the record) is rejected with an error. *)
Theorem C21_tumble_bad_length_rejected : forall len off idx inp,
  len <= 0 -> tumble_run len off idx inp = Err err_bad_argument.
Proof. exact tumble_run_rejects_bad_length. Qed.
Print Assumptions C21_tumble_bad_length_rejected.

(* The clauses determine the window; and for lengths that divide the zero-Time-to-epoch distance (all
   divisors of 24 h) "multiple" also holds counted from the Unix epoch. *)
Theorem C21_tumble_window_unique : forall len off t s1 s2,
  0 < len -> s1 <= t < s1 + len -> s2 <= t < s2 + len ->
  (s1 - off - zero_ns) mod len = 0 -> (s2 - off - zero_ns) mod len = 0 -> s1 = s2.
Proof. exact tumble_window_unique. Qed.
Print Assumptions C21_tumble_window_unique.

Theorem C21_tumble_epoch_aligned : forall len off s,
  0 < len -> (len | zero_ns) -> (s - off - zero_ns) mod len = 0 -> (s - off) mod len = 0.
Proof. exact tumble_epoch_aligned. Qed.
Print Assumptions C21_tumble_epoch_aligned.

(* range(a, b), any int64 a and b: the run returns normally and emits exactly the insertions of
   a, a+1, ..., b-1 with no event time, in that order (nothing when b <= a), and no watermark. *)
Theorem C21_range : forall a b,
  - two63 <= a < two63 -> - two63 <= b < two63 ->
  range_run a b = Ok (map range_rec (zseq a (Z.to_nat (b - a)))).
Proof. exact range_run_char. Qed.
Print Assumptions C21_range.

(* that list holds each integer of [a, b) and nothing else, strictly ascending (hence exactly once) *)
Theorem C21_range_values : forall a n,
  (forall i, In i (zseq a n) <-> a <= i < a + Z.of_nat n) /\ StronglySorted Z.lt (zseq a n).
Proof. intros a n. split; [intro i; apply zseq_in | apply zseq_sorted]. Qed.
Print Assumptions C21_range_values.

(* poll over an abstract clock (now k = what the k-th time.Now() returns, never the zero Time) and a source
   that emits the rows [snaps k] on its k-th run and fails on its (length snaps)-th run (the only way poll
   returns).  The output is, round by round (poll_spec_from / poll_round_spec in Model/TVF.v):
     round 0:     insertions of (now 0 :: row) for the rows of snaps 0, event time now 0, then WM (now 0)
     round k > 0: retractions of (now (k-1) :: row) for snaps (k-1) with event time now k,
                  insertions of (now k :: row) for snaps k with event time now k, then WM (now k)
     last:        the retractions of the last snapshot, then the source's error.
   Retraction flags of source records are ignored by poll (every source record is an insertion of the
   snapshot); sources that send watermarks themselves are outside this statement (poll hands them on). *)
Theorem C21_poll : forall now loc srcs,
  (forall k, now k <> zero_ns) -> forallb no_wms srcs = true ->
  poll_run now loc srcs = poll_spec_from now loc 0 [] (map src_rows srcs).
Proof. exact poll_run_char. Qed.
Print Assumptions C21_poll.

Example C21_hypotheses_satisfiable :
  let r := mkrec [VInt 1; VTime 86400000000007 0] true 3 in
  (exists out, tumble_run 3600000000000 (-7) 1 [WM 1; Rec r] = Ok out) /\
  poll_run (fun k => 10 + Z.of_nat k) 0 [[Rec (mkrec [VInt 7] false zero_ns)]; []] =
    [Rec (mkrec [VTime 10 0; VInt 7] false 10); WM 10; Rec (mkrec [VTime 10 0; VInt 7] true 11); WM 11].
Proof. split; [eexists; vm_compute; reflexivity | vm_compute; reflexivity]. Qed.

(* The pinned tumble accepts window_length = 0 and emits window_start = window_end = time. *)
Theorem C21_pinned_tumble_refuted :
  exists len off idx inp r',
    len <= 0 /\ tumble_run_pinned len off idx inp = Ok [Rec r'] /\
    vals r' = [VTime 5 0; VTime 5 0; VTime 5 0].
Proof. exact tumble_pinned_accepts_empty_window. Qed.
Print Assumptions C21_pinned_tumble_refuted.
