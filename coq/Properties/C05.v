(* Properties/C05.v — LIMIT and ORDER BY behave identically in every output mode and nesting.
   Statements only; proofs in Proofs/OperatorsProofs.v and Proofs/LimitOrderProofs.v.
   Model: Model/Operators.v (run_limit = Limit node, run_ost = OrderSensitiveTransform, run_printer =
   batch.OutputPrinter) and Model/LimitOrder.v (printed mode nested keys limit noretr inp = the rows that reach
   the output for `SELECT ... [ORDER BY keys] LIMIT n`, following cmd/root.go's output switch for the top level
   and physical/nodes.go's Materialize for a subquery / CTE).
     is_limit_of n rows out : out is a sub-bag of rows and has min(n, #rows) rows
     is_top_n ks n rows out : is_limit_of, out is sorted by the keys, and the rows left out all sort at or
                              after every printed row (ties at the boundary may break either way)
   [rows] is any list that represents the consolidated input (duplicates listed individually). *)
From Octo Require Import Operators LimitOrder OperatorsProofs LimitOrderProofs ChangelogLemmas.

(* LIMIT n without ORDER BY: every output mode, top level and nested, sources with and without retractions
   (noretr is Schema.NoRetractions: when it is set the input really has no retraction). *)
Theorem C05_limit : forall n0 n inp rows mode nested noretr, 0 <= n ->
  arity_is n0 (records inp) -> valid_changelog (records inp) = true -> represents rows (records inp) ->
  (noretr = true -> insert_only (records inp) = true) ->
  exists out, printed mode nested [] (Some n) noretr inp = Ok out /\ is_limit_of n rows out.
Proof. intros n0 n inp rows mode nested noretr Hn Ha V R. exact (limit_printed n0 n inp rows Hn Ha V R mode nested noretr). Qed.
Print Assumptions C05_limit.

(* ORDER BY keys LIMIT n.  Full statement: for every mode, nesting and noretr (with insert-only input when
   noretr) the printed rows are a top-n.  PROVED PART: sources whose schema allows retractions (noretr = false,
   e.g. below a GROUP BY with a counting trigger or a join of such), where OrderSensitiveTransform and the printer
   keep the whole counted tree.  MISSING: noretr = true, where both prune the tree with DeleteMax while reading
   (the pruned tree is the first n items of the unpruned one; that simulation is not proved).  That path is
   covered by the differential run only (exact tie + is_top_n oracle on every case, in-process and through the CLI). *)
Theorem C05_order_limit_partial : forall n0 ks n inp rows mode nested, key_congruent ks -> ks <> [] -> 0 <= n ->
  arity_is n0 (records inp) -> valid_changelog (records inp) = true -> represents rows (records inp) ->
  (nested = true -> mode <> BatchTable) ->
  exists out, printed mode nested ks (Some n) false inp = Ok out /\ is_top_n ks n rows out.
Proof. intros n0 ks n inp rows mode nested Hk NE Hn Ha V R. exact (order_limit_printed n0 ks n inp rows Hk Hn Ha V R NE mode nested). Qed.
Print Assumptions C05_order_limit_partial.

(* nested and shown as a table: the table holds exactly the rows the inner ORDER BY ... LIMIT selected
   (the table itself is ordered by values, as the enclosing query has no ORDER BY) *)
Theorem C05_order_limit_nested_table_partial : forall n0 ks n inp rows, key_congruent ks -> ks <> [] -> 0 <= n ->
  arity_is n0 (records inp) -> valid_changelog (records inp) = true -> represents rows (records inp) ->
  exists inner out, eager_choice ks (Some n) false inp = Ok inner /\ is_top_n ks n rows (rows_of inner) /\
                    printed BatchTable true ks (Some n) false inp = Ok out /\
                    forall x, count_rows out x = count_rows (rows_of inner) x.
Proof. intros n0 ks n inp rows Hk NE Hn Ha V R. exact (order_limit_nested_table n0 ks n inp rows Hk Hn Ha V R NE). Qed.
Print Assumptions C05_order_limit_nested_table_partial.

(* the three implementations one by one *)
Theorem C05_limit_node : forall n inp rows, 0 <= n -> insert_only (records inp) = true ->
  represents rows (records inp) -> is_limit_of n rows (rows_of (run_limit n inp)).
Proof. exact limit_node_is_limit_of. Qed.
Print Assumptions C05_limit_node.
Theorem C05_order_sensitive_transform_partial : forall n0 ks n inp rows, key_congruent ks -> 0 <= n ->
  arity_is n0 (records inp) -> valid_changelog (records inp) = true -> represents rows (records inp) ->
  exists out, run_ost ks (Some n) false inp = Ok out /\ is_top_n ks n rows (rows_of out).
Proof. intros n0 ks n inp rows Hk. exact (ost_top_n n0 ks Hk n inp rows). Qed.
Print Assumptions C05_order_sensitive_transform_partial.
Theorem C05_batch_printer_partial : forall n0 ks n inp rows, key_congruent ks -> 0 <= n ->
  arity_is n0 (records inp) -> valid_changelog (records inp) = true -> represents rows (records inp) ->
  exists out, run_printer ks (Some n) false inp = Ok out /\ is_top_n ks n rows out.
Proof. intros n0 ks n inp rows Hk. exact (printer_top_n n0 ks Hk n inp rows). Qed.
Print Assumptions C05_batch_printer_partial.
(* the printer above a Limit node (batch_table, no ORDER BY, no retractions): DeleteMax never fires *)
Theorem C05_printer_above_limit_never_prunes : forall ks n inp, Z.of_nat (length (records inp)) <= n ->
  run_printer ks (Some n) true inp = run_printer ks (Some n) false inp.
Proof. exact run_printer_small. Qed.
Print Assumptions C05_printer_above_limit_never_prunes.

(* the executable oracle used on the implementation's output implies the Prop for the limit clause *)
Theorem C05_oracle_limit_sound : forall n rows out, is_limit_ofb n rows out = true -> is_limit_of n rows out.
Proof. exact is_limit_ofb_sound. Qed.
Print Assumptions C05_oracle_limit_sound.

(* Non-vacuity: a changelog with duplicates and a retraction; LIMIT 2 of it in csv output. *)
Example C05_hypotheses_satisfiable :
  let inp := [Rec (ins [VInt 2]); Rec (ins [VInt 2]); Rec (ins [VInt 1]); Rec (mkrec [VInt 2] true zero_ns); Rec (ins [VInt 1])] in
  valid_changelog (records inp) = true /\ arity_is 1 (records inp) /\
  represents (expand (records inp)) (records inp) /\
  printed Csv false [(false, fun x => nth 0 x VNull)] (Some 2) false inp = Ok [[VInt 1]; [VInt 1]].
Proof.
  cbv zeta. split; [reflexivity|]. split; [intros r H; simpl in H; repeat destruct H as [H|H]; subst; try reflexivity; contradiction|].
  split; [|vm_compute; reflexivity]. apply expand_represents. apply Valid_nonneg. apply valid_iff. reflexivity.
Qed.

(* ---- the pinned tree (before the two `fix:` commits) ---- *)
(* LIMIT 0 returned every row: Limit.Run tested i == limit only after producing *)
Theorem C05_pinned_limit_zero_refuted : exists inp, insert_only (records inp) = true /\
  exists ev, eager_choice_pinned [] (Some 0) true inp = Ok ev /\ ~ is_limit_of 0 (rows_of inp) (rows_of ev).
Proof. exact pinned_limit0_printed_refuted. Qed.
Print Assumptions C05_pinned_limit_zero_refuted.
(* ORDER BY a LIMIT 1 over [2,2,1,1] printed two rows: produceOrderByItems counted tree items *)
Theorem C05_pinned_order_limit_refuted : exists ks inp, insert_only (records inp) = true /\
  exists ev, eager_choice_pinned ks (Some 1) true inp = Ok ev /\ ~ is_limit_of 1 (rows_of inp) (rows_of ev).
Proof. exact pinned_order_limit_printed_refuted. Qed.
Print Assumptions C05_pinned_order_limit_refuted.
