(* Properties/C05.v — LIMIT and ORDER BY behave identically in every output mode and nesting.
   Statements only; proofs in Proofs/OperatorsProofs.v, LimitOrderProofs.v, LimitPruneProofs.v, LimitOracleProofs.v.
   Model: Model/Operators.v (run_limit = Limit node, run_ost = OrderSensitiveTransform, run_printer =
   batch.OutputPrinter) and Model/LimitOrder.v (printed mode nested keys limit noretr inp = the rows that reach
   the output for `SELECT ... [ORDER BY keys] LIMIT n`, following cmd/root.go's output switch for the top level
   and physical/nodes.go's Materialize for a subquery / CTE).
     is_limit_of n rows out : out is a sub-bag of rows and has min(n, #rows) rows
     is_top_n ks n rows out : is_limit_of, out is sorted by the keys, and the rows left out all sort at or
                              after every printed row (ties at the boundary may break either way)
   [rows] is any list that represents the consolidated input (duplicates listed individually). *)
From Octo Require Import Operators LimitOrder OperatorsProofs LimitOrderProofs LimitPruneProofs LimitOracleProofs LimitNestedProofs ChangelogLemmas.

(* LIMIT n without ORDER BY: every output mode, top level and nested, sources with and without retractions
   (noretr is Schema.NoRetractions: when it is set the input really has no retraction). *)
Theorem C05_limit : forall n0 n inp rows mode nested noretr, 0 <= n ->
  arity_is n0 (records inp) -> valid_changelog (records inp) = true -> represents rows (records inp) ->
  (noretr = true -> insert_only (records inp) = true) ->
  exists out, printed mode nested [] (Some n) noretr inp = Ok out /\ is_limit_of n rows out.
Proof. intros n0 n inp rows mode nested noretr Hn Ha V R. exact (limit_printed n0 n inp rows Hn Ha V R mode nested noretr). Qed.
Print Assumptions C05_limit.

(* ORDER BY keys LIMIT n: for every output mode, nesting and NoRetractions setting the printed rows are a top-n of
   the consolidated input.  When Schema.NoRetractions is set the input has no retraction (that is what the flag
   means) and OrderSensitiveTransform / the printer prune their counted tree with DeleteMax while reading;
   C05_prune_safe below shows that the pruning changes nothing that is printed. *)
Theorem C05_order_limit : forall n0 ks n inp rows mode nested noretr, key_congruent ks -> ks <> [] -> 0 <= n ->
  arity_is n0 (records inp) -> valid_changelog (records inp) = true -> represents rows (records inp) ->
  (noretr = true -> insert_only (records inp) = true) ->
  (nested = true -> mode <> BatchTable) ->
  exists out, printed mode nested ks (Some n) noretr inp = Ok out /\ is_top_n ks n rows out.
Proof. intros n0 ks n inp rows mode nested noretr Hk NE Hn Ha V R Hi. exact (order_limit_printed_full n0 ks n inp rows noretr Hk Hn Ha V R Hi NE mode nested). Qed.
Print Assumptions C05_order_limit.

(* nested and shown as a table: the table holds exactly the rows the inner ORDER BY ... LIMIT selected
   (the table itself is ordered by values, as the enclosing query has no ORDER BY) *)
Theorem C05_order_limit_nested_table : forall n0 ks n inp rows noretr, key_congruent ks -> ks <> [] -> 0 <= n ->
  arity_is n0 (records inp) -> valid_changelog (records inp) = true -> represents rows (records inp) ->
  (noretr = true -> insert_only (records inp) = true) ->
  exists inner out, eager_choice ks (Some n) noretr inp = Ok inner /\ is_top_n ks n rows (rows_of inner) /\
                    printed BatchTable true ks (Some n) noretr inp = Ok out /\
                    forall x, count_rows out x = count_rows (rows_of inner) x.
Proof. intros n0 ks n inp rows noretr Hk NE Hn Ha V R Hi. exact (order_limit_nested_table_full n0 ks n inp rows noretr Hk Hn Ha V R Hi NE). Qed.
Print Assumptions C05_order_limit_nested_table.

(* ... so what the table shows is itself a top-n of the input, as a set (is_top_n_set = is_top_n without the order of
   printing; this is the Prop the oracle is_top_n_setb decides) *)
Theorem C05_order_limit_nested_table_set : forall n0 ks n inp rows noretr, key_congruent ks -> ks <> [] -> 0 <= n ->
  arity_is n0 (records inp) -> valid_changelog (records inp) = true -> represents rows (records inp) ->
  (noretr = true -> insert_only (records inp) = true) ->
  exists out, printed BatchTable true ks (Some n) noretr inp = Ok out /\ is_top_n_set ks n rows out.
Proof. exact order_limit_nested_table_set. Qed.
Print Assumptions C05_order_limit_nested_table_set.

(* the simulation behind it: on an insert-only input the pruned tree is at every moment the first n items of the
   unpruned tree (Proofs/LimitPruneProofs.v: prune_step, prune_run), every item stands for at least one row, so both
   nodes emit exactly what they emit without pruning *)
Theorem C05_prune_safe : forall n0 ks n inp, key_congruent ks -> 0 <= n ->
  arity_is n0 (records inp) -> insert_only (records inp) = true ->
  run_ost ks (Some n) true inp = run_ost ks (Some n) false inp /\
  run_printer ks (Some n) true inp = run_printer ks (Some n) false inp.
Proof.
  intros n0 ks n inp Hk Hn Ha Hi. split; [exact (run_ost_prune_eq n0 ks n Hk Hn inp Ha Hi) | exact (run_printer_prune_eq n0 ks n Hk Hn inp Ha Hi)].
Qed.
Print Assumptions C05_prune_safe.

(* the two tree users one by one, every NoRetractions setting *)
Theorem C05_order_sensitive_transform : forall n0 ks n inp rows noretr, key_congruent ks -> 0 <= n ->
  arity_is n0 (records inp) -> valid_changelog (records inp) = true -> represents rows (records inp) ->
  (noretr = true -> insert_only (records inp) = true) ->
  exists out, run_ost ks (Some n) noretr inp = Ok out /\ insert_only (records out) = true /\ is_top_n ks n rows (rows_of out).
Proof. intros n0 ks n inp rows noretr Hk Hn Ha V R Hi. exact (ost_top_n_full n0 ks n inp rows noretr Hk Hn Ha V R Hi). Qed.
Print Assumptions C05_order_sensitive_transform.
Theorem C05_batch_printer : forall n0 ks n inp rows noretr, key_congruent ks -> 0 <= n ->
  arity_is n0 (records inp) -> valid_changelog (records inp) = true -> represents rows (records inp) ->
  (noretr = true -> insert_only (records inp) = true) ->
  exists out, run_printer ks (Some n) noretr inp = Ok out /\ is_top_n ks n rows out.
Proof. intros n0 ks n inp rows noretr Hk Hn Ha V R Hi. exact (printer_top_n_full n0 ks n inp rows noretr Hk Hn Ha V R Hi). Qed.
Print Assumptions C05_batch_printer.

(* the earlier statements for sources that can retract (noretr = false) are the corresponding special cases,
   kept under their names *)
Theorem C05_order_limit_partial : forall n0 ks n inp rows mode nested, key_congruent ks -> ks <> [] -> 0 <= n ->
  arity_is n0 (records inp) -> valid_changelog (records inp) = true -> represents rows (records inp) ->
  (nested = true -> mode <> BatchTable) ->
  exists out, printed mode nested ks (Some n) false inp = Ok out /\ is_top_n ks n rows out.
Proof. intros n0 ks n inp rows mode nested Hk NE Hn Ha V R. exact (order_limit_printed n0 ks n inp rows Hk Hn Ha V R NE mode nested). Qed.
Print Assumptions C05_order_limit_partial.

Theorem C05_order_limit_nested_table_partial : forall n0 ks n inp rows, key_congruent ks -> ks <> [] -> 0 <= n ->
  arity_is n0 (records inp) -> valid_changelog (records inp) = true -> represents rows (records inp) ->
  exists inner out, eager_choice ks (Some n) false inp = Ok inner /\ is_top_n ks n rows (rows_of inner) /\
                    printed BatchTable true ks (Some n) false inp = Ok out /\
                    forall x, count_rows out x = count_rows (rows_of inner) x.
Proof. intros n0 ks n inp rows Hk NE Hn Ha V R. exact (order_limit_nested_table n0 ks n inp rows Hk Hn Ha V R NE). Qed.
Print Assumptions C05_order_limit_nested_table_partial.

(* the Limit node alone, and the noretr = false special cases of the two tree users *)
Theorem C05_limit_node : forall n inp rows, 0 <= n -> insert_only (records inp) = true ->
  represents rows (records inp) -> is_limit_of n rows (rows_of (run_limit n inp)).
Proof. exact limit_node_is_limit_of. Qed.
Print Assumptions C05_limit_node.
Theorem C05_order_sensitive_transform_partial : forall n0 ks n inp rows, key_congruent ks -> 0 <= n ->
  arity_is n0 (records inp) -> valid_changelog (records inp) = true -> represents rows (records inp) ->
  exists out, run_ost ks (Some n) false inp = Ok out /\ is_top_n ks n rows (rows_of out).
Proof. intros n0 ks n inp rows Hk. exact (ost_top_n n0 ks Hk n inp rows). Qed.
Print Assumptions C05_order_sensitive_transform_partial.
Theorem C05_batch_printer_partial : forall n0 ks n inp rows, key_congruent ks -> 0 <= n ->
  arity_is n0 (records inp) -> valid_changelog (records inp) = true -> represents rows (records inp) ->
  exists out, run_printer ks (Some n) false inp = Ok out /\ is_top_n ks n rows out.
Proof. intros n0 ks n inp rows Hk. exact (printer_top_n n0 ks Hk n inp rows). Qed.
Print Assumptions C05_batch_printer_partial.
(* the printer above a Limit node (batch_table, no ORDER BY, no retractions): DeleteMax never fires *)
Theorem C05_printer_above_limit_never_prunes : forall ks n inp, Z.of_nat (length (records inp)) <= n ->
  run_printer ks (Some n) true inp = run_printer ks (Some n) false inp.
Proof. exact run_printer_small. Qed.
Print Assumptions C05_printer_above_limit_never_prunes.

(* the executable oracles applied to the implementation's output decide exactly the Props above *)
Theorem C05_oracle_limit_sound : forall n rows out, is_limit_ofb n rows out = true -> is_limit_of n rows out.
Proof. exact is_limit_ofb_sound. Qed.
Print Assumptions C05_oracle_limit_sound.
Theorem C05_oracle_limit_iff : forall n rows out, is_limit_ofb n rows out = true <-> is_limit_of n rows out.
Proof. exact is_limit_ofb_iff. Qed.
Print Assumptions C05_oracle_limit_iff.
(* soundness holds for every key function; completeness needs keys that do not tell Compare-equal rows apart *)
Theorem C05_oracle_top_n_sound : forall ks n rows out, is_top_nb ks n rows out = true -> is_top_n ks n rows out.
Proof. exact is_top_nb_sound. Qed.
Print Assumptions C05_oracle_top_n_sound.
Theorem C05_oracle_top_n_iff : forall ks n rows out, key_congruent ks ->
  (is_top_nb ks n rows out = true <-> is_top_n ks n rows out).
Proof. exact is_top_nb_iff. Qed.
Print Assumptions C05_oracle_top_n_iff.
Theorem C05_oracle_top_n_set_iff : forall ks n rows out, key_congruent ks ->
  (is_top_n_setb ks n rows out = true <-> is_top_n_set ks n rows out).
Proof. exact is_top_n_setb_iff. Qed.
Print Assumptions C05_oracle_top_n_set_iff.

(* Non-vacuity: a changelog with duplicates and a retraction; LIMIT 2 of it in csv output. *)
Example C05_hypotheses_satisfiable :
  let inp := [Rec (ins [VInt 2]); Rec (ins [VInt 2]); Rec (ins [VInt 1]); Rec (mkrec [VInt 2] true zero_ns); Rec (ins [VInt 1])] in
  valid_changelog (records inp) = true /\ arity_is 1 (records inp) /\
  represents (expand (records inp)) (records inp) /\
  printed Csv false [(false, fun x => nth 0 x VNull)] (Some 2) false inp = Ok [[VInt 1]; [VInt 1]].
Proof.
  cbv zeta. split; [reflexivity|]. split; [intros r H; simpl in H; repeat destruct H as [H|H]; subst; try reflexivity; contradiction|].
  split; [|vm_compute; reflexivity]. apply expand_represents. apply Valid_nonneg. apply valid_iff. reflexivity.
Qed.

(* ---- the pinned tree (before the two `fix:` commits) ---- *)
(* LIMIT 0 returned every row: Limit.Run tested i == limit only after producing *)
Theorem C05_pinned_limit_zero_refuted : exists inp, insert_only (records inp) = true /\
  exists ev, eager_choice_pinned [] (Some 0) true inp = Ok ev /\ ~ is_limit_of 0 (rows_of inp) (rows_of ev).
Proof. exact pinned_limit0_printed_refuted. Qed.
Print Assumptions C05_pinned_limit_zero_refuted.
(* ORDER BY a LIMIT 1 over [2,2,1,1] printed two rows: produceOrderByItems counted tree items *)
Theorem C05_pinned_order_limit_refuted : exists ks inp, insert_only (records inp) = true /\
  exists ev, eager_choice_pinned ks (Some 1) true inp = Ok ev /\ ~ is_limit_of 1 (rows_of inp) (rows_of ev).
Proof. exact pinned_order_limit_printed_refuted. Qed.
Print Assumptions C05_pinned_order_limit_refuted.
