(* Properties/C07.v — No query or input crashes the process.  Statements only; proofs in Proofs/NoPanicProofs.v.

   PARTIAL BY CONSTRUCTION.  The full statement would be
       forall (query : string) (options) (files), cli_run query options files <> Panic _
   over a model of the whole CLI (parser, planner, typechecker, optimizer, every function, every node, every
   datasource and formatter).  That model does not exist.  What is proved is the statement for the panic
   SITES of the modelled fragment (Model/NoPanic.v): each place where user input can reach a Go runtime panic
   in the code read for this property, modelled with its arguments ranging over ALL values.  Everything outside
   the fragment is SEARCHED, not proved: the engine (harness/cmd/c07) runs grammar-generated and mutated queries
   over edge-valued inputs through the built CLI and reports any run that dies with a Go panic. *)
From Octo Require Import NoPanic NoPanicProofs.

(* C07_no_panic_fragment_partial: for the repaired model of every site and for all arguments, the outcome is
   not Panic: integer and duration division, string repetition, substr (2 and 3 arguments), list indexing,
   aggregate call parsing, VariablesUsed on every expression shape, CSV cell formatting of every value kind,
   watermark rounding, window truncation, table-valued-function typechecking (any argument kinds, present or
   absent: recovered by cmd/root.go) and materialization (descriptor tables whose declared, asserted and read
   kinds agree — true of range, max_diff_watermark, tumble, and of poll once poll_interval is declared an expression). *)
Theorem C07_no_panic_fragment_partial :
  (forall a b, is_panic (int_div a b) = false) /\
  (forall a b, is_panic (dur_div a b) = false) /\
  (forall len count, is_panic (repeat_len len count) = false) /\
  (forall len start, is_panic (substr2 len start) = false) /\
  (forall len start length, is_panic (substr3 len start length) = false) /\
  (forall (l : list value) i, is_panic (list_index l i) = false) /\
  (forall args, is_panic (parse_aggregate args) = false) /\
  (forall e, is_panic (vars_used e) = false) /\
  (forall v, is_panic (csv_value v) = false) /\
  (forall ns res, is_panic (round_down ns res) = false) /\
  (forall ns d, is_panic (truncate ns d) = false) /\
  (forall args, is_panic (tvf_typecheck args) = false) /\
  (forall args, forallb tvf_consistent args = true -> is_panic (tvf_run args) = false).
Proof.
  exact (conj int_div_no_panic (conj dur_div_no_panic (conj repeat_no_panic (conj substr2_no_panic
        (conj substr3_no_panic (conj (list_index_no_panic value) (conj parse_aggregate_no_panic
        (conj vars_used_no_panic (conj csv_value_no_panic (conj round_down_no_panic (conj truncate_no_panic
        (conj tvf_typecheck_no_panic tvf_run_no_panic)))))))))))).
Qed.
Print Assumptions C07_no_panic_fragment_partial.

(* the four descriptor tables of table_valued_functions/ (poll after its repair) are consistent, so the last clause applies to them *)
Theorem C07_tvf_tables_consistent : forall a b c d,
  forallb tvf_consistent (tvf_range a b) = true /\ forallb tvf_consistent (tvf_max_diff a b c d) = true /\
  forallb tvf_consistent (tvf_tumble a b c d) = true /\ forallb tvf_consistent (tvf_poll a b) = true.
Proof. exact tvf_tables_consistent. Qed.
Print Assumptions C07_tvf_tables_consistent.

(* the repaired substr returns exactly the specified slice (it does not merely avoid the panic) *)
Theorem C07_substr_result : forall len start length, 0 <= start -> 0 <= length -> start < len ->
  substr3 len start length = Ok (start, Z.min (start + length) len).
Proof. exact substr3_result. Qed.
Print Assumptions C07_substr_result.

(* Non-vacuity: the sites are reachable with ordinary arguments and give ordinary results. *)
Example C07_hypotheses_satisfiable :
  int_div 7 2 = Ok 3 /\ int_div min_int64 (-1) = Ok min_int64 /\ substr3 5 1 2 = Ok (1, 3) /\
  list_index [VInt 4; VInt 5] 1 = Ok (Some (VInt 5)) /\
  vars_used (XAnd [XVar 1; XField (XVar 2); XTuple [XVar 3]]) = Ok [1; 2; 3] /\
  tvf_run (tvf_max_diff (Some KTable) (Some KExpr) (Some KDesc) None) = Ok tt /\
  tvf_run (tvf_max_diff (Some KExpr) (Some KExpr) (Some KDesc) None) = Err err_typecheck.
Proof. vm_compute. repeat split; reflexivity. Qed.

(* The pinned code: every one of these sites panics on some input (1 / 0, INTERVAL 1 SECOND / 0, 'a' * -1,
   substr(s, -1), substr(s, 1, -2), l[-1], count(), JOIN .. ON with a tuple / IN list, -o csv of a list,
   resolution => INTERVAL 0 SECONDS, poll(poll_interval => DESCRIPTOR(x))). *)
Theorem C07_pinned_sites_refuted :
  exists a b, is_panic (int_div_pinned a b) = true /\
  exists a b, is_panic (dur_div_pinned a b) = true /\
  exists len count, is_panic (repeat_pinned len count) = true /\
  exists len start, is_panic (substr2_pinned len start) = true /\
  exists len start length, is_panic (substr3_pinned len start length) = true /\
  exists (l : list value) i, is_panic (list_index_pinned l i) = true /\
  exists args, is_panic (parse_aggregate_pinned args) = true /\
  exists e, is_panic (vars_used_pinned e) = true /\
  exists v, is_panic (csv_value_pinned v) = true /\
  exists ns res, is_panic (round_down_pinned ns res) = true /\
  exists src pi, is_panic (tvf_run (tvf_poll_pinned src pi)) = true.
Proof.
  exists 1, 0. split; [reflexivity|]. exists 1000000000, 0. split; [reflexivity|].
  exists 1, (-1). split; [reflexivity|]. exists 3, (-1). split; [reflexivity|].
  exists 3, 1, (-2). split; [reflexivity|]. exists [VInt 1], (-1). split; [reflexivity|].
  exists []. split; [reflexivity|]. exists (XCall [XVar 1; XTuple [XConst; XConst]]). split; [reflexivity|].
  exists (VList [VInt 1]). split; [reflexivity|]. exists 5, 0. split; [reflexivity|].
  exists (Some KTable), (Some KDesc). reflexivity.
Qed.
Print Assumptions C07_pinned_sites_refuted.

(* ---- sites found after the first round (strengthening / deepening) ---- *)

(* C07_no_panic_later_sites_partial: for all arguments, no Panic from
   - the outermost LIMIT expression (after fix c96f03c: any set of column references, any static type);
   - JSON getOctoSQLValue against any list type, including the type of the empty list at any nesting depth (after C24's fix);
   and, as the shape a repair must have (these three are still open on main, see C07_later_pinned_sites_refuted):
   - a join's per-row event-time list under any sequence of insertions and retractions;
   - COALESCE layout mapping for any tuple lengths;  - string repetition under any memory bound. *)
Theorem C07_no_panic_later_sites_partial :
  (forall cols e, is_panic (limit_eval cols e) = false) /\
  (forall v t, is_panic (get_value false t v) = false) /\
  (forall ops times, is_panic (join_row_history false times ops) = false) /\
  (forall n l, is_panic (coalesce_mapping n l) = false) /\
  (forall mem len count, is_panic (repeat_alloc mem len count) = false).
Proof.
  exact (conj limit_eval_no_panic (conj get_value_no_panic (conj join_row_history_no_panic
        (conj coalesce_mapping_no_panic repeat_alloc_no_panic)))).
Qed.
Print Assumptions C07_no_panic_later_sites_partial.

(* a LIMIT expression that is accepted references no column and is an Int *)
Theorem C07_limit_accepts_only_constant_int : forall cols e b,
  limit_eval cols e = Ok b -> lvars e = [] /\ lint e = true.
Proof. exact limit_eval_ok. Qed.
Print Assumptions C07_limit_accepts_only_constant_int.

(* the join code on main panics exactly on row histories in which some prefix retracts more often than it inserts
   (a retraction that is processed before its insertion): a valid changelog processed in arrival order never does *)
Theorem C07_join_retraction_pinned_characterised : forall ops times,
  is_panic (join_row_history true times ops) = negb (balance_ok (length times) ops).
Proof. exact join_row_history_pinned_spec. Qed.
Print Assumptions C07_join_retraction_pinned_characterised.

(* witnesses: LIMIT <column>; a non-empty array against the type of the empty list, also one level down; +row, -row,
   -row into a join; COALESCE((1,2),(1,2,3)); 'a' * MaxInt64 with 2^48 bytes of address space.
   The first two are repaired on main (c96f03c, C24's fix); the last three are finding classes
   c18-join-retraction-unmatched, c13-fixlayout (C13: coalesce-tuple-length), c13-repeat (C13: repeat-beyond-memory). *)
Theorem C07_later_pinned_sites_refuted :
  (exists cols e, is_panic (limit_eval_pinned cols e) = true) /\
  (exists t v, is_panic (get_value true t v) = true) /\
  (exists ops, is_panic (join_row_history true [] ops) = true) /\
  (exists n l, is_panic (coalesce_mapping_pinned n l) = true) /\
  (exists mem len count, is_panic (repeat_alloc_pinned mem len count) = true).
Proof.
  split; [exists [1; 2], (mklim [2] true); reflexivity|].
  split; [exists (JList (Some (JList None))), (JArr [JArr []; JArr [JScalar]]); reflexivity|].
  split; [exists [false; true; true]; reflexivity|].
  split; [exists 3%nat, [2%nat; 3%nat]; reflexivity|].
  exists 281474976710656, 1, 9223372036854775807. reflexivity.
Qed.
Print Assumptions C07_later_pinned_sites_refuted.
