(* Properties/C29.v — Query execution is free of deadlocks (proved for the channel protocols) and of data
   races (NOT proved: searched with the race detector; see meta/C29.json level_text).
   Statements only; proofs are in Proofs/ConcurrencyProofs.v.  Models: Model/Concurrency.v
     jstep/jenabled : the JSON datasource (reader goroutine, global parser pool, token channel, outChan, done
                      channel, the consumer's select loop, cancel on return, the caller's ctx), for every number
                      of workers w >= 1, every number of lines, every batch size >= 1, every channel capacity
                      >= 1 with cap(tokens) <= cap(outChan), every set of malformed lines, a reader error or
                      none, a produce call that fails (LIMIT / downstream error) or none.  A worker may take any
                      queued job and the consumer any queued result (a superset of Go's FIFO schedules).
     nstep/nenabled : StreamJoin / OuterJoin: two producers into bounded channels, the two-phase receive loop,
                      a source error or none on each side, a processing step of the main loop that fails or none.
   `jreach p s` / `nreach p s`: s is reachable from the initial state by ANY sequence of steps = any schedule. *)
From Octo Require Import Base Concurrency ConcurrencyProofs GenC29.
Open Scope nat_scope.

(* ---- JSON ---- *)

(* No deadlock: in every reachable state that is not final (Run returned, reader goroutine exited, no parse
   job queued or held) some goroutine of the protocol can take a step — not counting the caller cancelling ctx. *)
Theorem C29_json_progress : forall p s, jvalid p -> jreach p s -> jfinalb s = false ->
  exists l s', is_env_label l = false /\ jstep p s l = Some s'.
Proof. exact json_progress. Qed.
Print Assumptions C29_json_progress.

(* Every schedule terminates: the step relation is well-founded on ALL states (a measure that every step
   decreases: lines left to scan, jobs queued/held/sent, lines to produce, program counters) ... *)
Theorem C29_json_terminates : forall p, well_founded (fun s' s => exists l, jstep p s l = Some s').
Proof. exact json_wf. Qed.
Print Assumptions C29_json_terminates.

(* ... and no run from the initial state is longer than 10 n + 23 steps. *)
Theorem C29_json_run_bound : forall p tr s, jrun p (jinit p) tr = Some s -> length tr <= 10 * jp_n p + 23.
Proof. exact json_run_bound. Qed.
Print Assumptions C29_json_run_bound.

(* Results outstanding <= tokens taken <= cap(outChan): a worker that holds a parsed batch can always send it,
   whatever the consumer is doing (stalled inside produce, returned, ...). *)
Theorem C29_workers_never_block_on_out : forall p s, jvalid p -> jreach p s ->
  outstanding s <= q_tokens (j_q s) /\ q_tokens (j_q s) <= jp_ct p /\ jp_ct p <= jp_co p /\
  forall j, In j (q_busy (j_q s)) ->
    length (q_out (j_q s)) < jp_co p /\ exists s', jstep p s (JSend (jstart j)) = Some s'.
Proof. exact json_workers_never_block_full. Qed.
Print Assumptions C29_workers_never_block_on_out.

(* The global pool never waits for any consumer: while a job is queued or held, a WORKER step is enabled.
   (This is what makes the pool safe to share between sources: a source whose consumer is blocked elsewhere —
   a join whose channel is full, a lookup join running another JSON source from inside produce — cannot
   wedge the workers.) *)
Theorem C29_pool_never_waits_for_consumer : forall p s, jvalid p -> jreach p s ->
  (q_jobs (j_q s) <> [] \/ q_busy (j_q s) <> []) ->
  exists l s', is_worker_label l = true /\ jstep p s l = Some s'.
Proof. exact json_pool_live. Qed.
Print Assumptions C29_pool_never_waits_for_consumer.

(* Early exit: once Run has returned (parse error, produce error / LIMIT, reader error, cancelled ctx, or normally)
   the consumer never moves again, and until the reader has exited and no job is queued or held there is
   always a step of the reader or of a worker: they reach quiescence on their own (and by C29_json_terminates
   after finitely many steps). *)
Theorem C29_early_exit : forall p s, jvalid p -> jreach p s -> c_pc (j_c s) = CRet ->
  (jfinalb s = false -> exists l s', is_consumer_label l = false /\ is_env_label l = false /\ jstep p s l = Some s')
  /\ (forall l s', jstep p s l = Some s' -> is_consumer_label l = false /\ c_pc (j_c s') = CRet).
Proof. exact json_early_exit. Qed.
Print Assumptions C29_early_exit.

(* enabled lists exactly the labels on which step is defined *)
Theorem C29_json_enabled_spec : forall p s l, In l (jenabled p s) <-> exists s', jstep p s l = Some s'.
Proof. exact jenabled_iff. Qed.
Print Assumptions C29_json_enabled_spec.

(* What the tie computes: an accepted trace is a run of the LTS from the initial state into a reachable final
   state; and the oracle of the spec check is the token invariant, which holds in every reachable state. *)
Theorem C29_trace_accepts_sound : forall p tr, jtrace_accepts p tr = true ->
  exists s, jrun p (jinit p) tr = Some s /\ jreach p s /\ jfinalb s = true.
Proof. exact jtrace_accepts_sound. Qed.
Print Assumptions C29_trace_accepts_sound.

Theorem C29_oracle_holds_on_model : forall p s, jvalid p -> jreach p s -> tokens_okb p s = true /\ send_room_okb p s = true.
Proof. exact tokens_okb_reach. Qed.
Print Assumptions C29_oracle_holds_on_model.

(* The hypothesis cap(tokens) <= cap(outChan) cannot be dropped: with 2 tokens and an outChan of 1 a worker is
   stuck on its send while the consumer sits at its select. *)
Theorem C29_tokens_above_out_refuted :
  exists p tr s, jp_ct p > jp_co p /\ jrun p (jinit p) tr = Some s /\
                 exists j, In j (q_busy (j_q s)) /\ jstep p s (JSend (jstart j)) = None /\ c_pc (j_c s) = CSel.
Proof. exact json_tokens_above_out_blocks. Qed.
Print Assumptions C29_tokens_above_out_refuted.

(* The numbers in the source of the tree under check (regenerated into Gen/GenC29.v by every run) satisfy
   the hypotheses, for any number of workers >= 1, with and without tail=true. *)
Theorem C29_code_constants_valid : forall w n rerr bad plimit, 1 <= w ->
  jvalid (mkjparams w n (nn gen_json_batch) (nn gen_json_cap_jobs) (nn gen_json_cap_tokens) (nn gen_json_cap_out) rerr bad plimit)
  /\ jvalid (mkjparams w n (nn gen_json_batch_tail) (nn gen_json_cap_jobs) (nn gen_json_cap_tokens) (nn gen_json_cap_out) rerr bad plimit)
  /\ nn gen_json_cap_done = 1
  /\ Forall (fun c => 1 <= nn c) gen_join_caps.
Proof.
  exact (consts_valid_of_check gen_json_batch gen_json_batch_tail gen_json_cap_jobs gen_json_cap_tokens gen_json_cap_out
           gen_json_cap_done gen_join_caps eq_refl).
Qed.
Print Assumptions C29_code_constants_valid.

(* Non-vacuity: 2 workers, 5 lines in batches of 2, line 3 malformed, all capacities 2: the hypotheses hold and
   a 21-step schedule (with a dropped result after the early return) is a run into a final state. *)
Example C29_json_hypotheses_satisfiable :
  let p := mkjparams 2 5 2 2 2 2 false [3] None in
  jvalid p /\
  jtrace_accepts p [JScan; JScan; JTok; JEnq; JScan; JScan; JTok; JEnq; JTake 0; JTake 2; JSend 2; JScan; JEof;
                    JRecv 2; JTokRel; JProduce; JParseErr; JTok; JEnq; JDone; JSend 0; JTake 4; JDrop 4] = true.
Proof. split; [unfold jvalid; simpl; lia|vm_compute; reflexivity]. Qed.

(* ---- joins ---- *)

(* The query never deadlocks: while the join's Run has not returned, the main loop or the producer it is
   listening to can take a step — for all script lengths, capacities >= 1, source errors and failing steps. *)
Theorem C29_join_progress : forall p s, nvalid p -> nreach p s -> nfinalb s = false -> exists l s', nstep p s l = Some s'.
Proof. exact join_progress. Qed.
Print Assumptions C29_join_progress.

(* Every interleaving of the two producers and the main loop is finite (well-founded step relation), with at
   most 3 (nl + nr) + 10 steps. *)
Theorem C29_join_terminates : forall p, well_founded (fun s' s => exists l, nstep p s l = Some s').
Proof. exact join_wf. Qed.
Print Assumptions C29_join_terminates.

Theorem C29_join_run_bound : forall p tr s, nrun p ninit tr = Some s -> length tr <= 3 * (np_nl p + np_nr p) + 10.
Proof. exact join_run_bound. Qed.
Print Assumptions C29_join_run_bound.

(* A producer whose whole input (plus the error message) fits into its channel never blocks, whatever the main
   loop does — in particular after an early return. *)
Theorem C29_join_producer_never_blocks_when_input_fits : forall p s d, nvalid p -> nreach p s ->
  np_n p d + 1 <= np_cap p -> p_pc (nget s d) <> PDone ->
  exists l s', is_producer_label d l = true /\ nstep p s l = Some s'.
Proof. exact join_producer_fits. Qed.
Print Assumptions C29_join_producer_never_blocks_when_input_fits.

(* The full statement "after an early return both producer goroutines exit" is FALSE of the code (its own
   "TODO: Fix goroutine leak"): producers send without a ctx.Done() escape, so a producer with more input than
   the channel holds stays blocked for ever once the main loop has returned.  The query itself is over
   (C29_join_progress / C29_join_terminates concern the query); the leak is recorded, not counted as a deadlock. *)
Theorem C29_join_early_exit_leaks_producer_refuted :
  exists p tr s, nvalid p /\ nrun p ninit tr = Some s /\ nfinalb s = true /\ stuck_left p s /\
    forall tr' s', nrun p s tr' = Some s' ->
      n_l s' = n_l s /\ forallb (fun l => negb (is_producer_label SL l)) tr' = true.
Proof. exact join_leak_forever. Qed.
Print Assumptions C29_join_early_exit_leaks_producer_refuted.

(* Early return (LIMIT above the join, an error of a source, a failing produce or key expression): the step in
   which the main loop receives the error message / the message whose processing fails is a step of the main
   loop alone and its result is final — Run HAS RETURNED.  It needs no further step of either producer, and it
   leaves the producers exactly as they were (same sends completed, same program counters, the other channel
   untouched): a producer that was blocked on a full channel is still blocked.  (A variant of the code that
   waits for the producers before returning is not this LTS: the conformance replay below rejects its runs and
   the wall-clock oracle flags them.) *)
Theorem C29_join_early_return_needs_no_producer : forall p s d s',
  n_m s <> MRet -> nstep p s (NRecv d) = Some s' ->
  (hd_error (p_ch (nget s d)) = Some MErr \/ np_fail p = Some (n_acts s)) ->
  nfinalb s' = true /\
  p_sent (nget s' SL) = p_sent (nget s SL) /\ p_sent (nget s' SR) = p_sent (nget s SR) /\
  p_pc (nget s' SL) = p_pc (nget s SL) /\ p_pc (nget s' SR) = p_pc (nget s SR) /\
  p_ch (nget s' (other d)) = p_ch (nget s (other d)) /\
  p_ch (nget s d) = (match hd_error (p_ch (nget s d)) with Some m => m | None => MData end) :: p_ch (nget s' d).
Proof. exact join_early_return_alone. Qed.
Print Assumptions C29_join_early_return_needs_no_producer.

(* Once Run has returned it stays returned whatever the producers do or cannot do, and the main loop never moves again. *)
Theorem C29_join_returned_is_stable : forall p s l s', nstep p s l = Some s' -> nfinalb s = true ->
  nfinalb s' = true /\ is_main_label l = false.
Proof. exact nfinal_stable. Qed.
Print Assumptions C29_join_returned_is_stable.

(* What the join tie computes: an accepted replay (main-loop events as observed through verifJoinRecv, producer
   sends filled in eagerly, k sends at a time) is a run of the LTS from the initial state into a reachable final state. *)
Theorem C29_join_replay_sound : forall c, c29j_tie c = true ->
  nvalid (c29j_params c) /\
  exists s, nrun (c29j_params c) ninit (nexpand (kj_trace c)) = Some s /\ nreach (c29j_params c) s /\ nfinalb s = true.
Proof. exact c29j_tie_sound. Qed.
Print Assumptions C29_join_replay_sound.

Example C29_join_hypotheses_satisfiable :
  let p := mknparams 2 1 false true 1 None in
  nvalid p /\ exists s, nrun p ninit [NSend SL; NSend SR; NRecv SR; NErr SR; NRecv SL; NSend SL; NRecv SR] = Some s /\ nfinalb s = true.
Proof. split; [unfold nvalid; simpl; lia|eexists; split; vm_compute; reflexivity]. Qed.
