(* Properties/C22.v — The internally-consistent output wrapper forwards exactly the settled changes.
   Statements only; proofs are in Proofs/WrapperProofs.v.  Model: Model/Wrapper.v (icw_run = the wrapper
   while its source runs, icw_run_finish = including the final flush at WatermarkMaxValue). *)
From Octo Require Import Wrapper WrapperProofs ChangelogLemmas.

(* Each time the wrapper forwards watermark W (the output so far is icw_run (pre ++ [WM W]), a prefix of
   the whole output ending in WM W), the consolidated records emitted equal the consolidated input
   records with event time at or below W.  For every input changelog of any length, with duplicates,
   retractions, late and out-of-order event times; watermarks non-decreasing; one arity per stream. *)
Theorem C22_at_watermark : forall n pre W,
  same_arity n (records pre) -> monotone_wms (pre ++ [WM W]) = true ->
  forall row, consolidate (records (icw_run (pre ++ [WM W]))) row =
              consolidate (filter (fun r => negb (after_wm W r)) (records pre)) row.
Proof. exact icw_at_watermark. Qed.
Print Assumptions C22_at_watermark.

Theorem C22_output_prefix : forall pre W post,
  exists rest, icw_run (pre ++ WM W :: post) = icw_run (pre ++ [WM W]) ++ rest /\
               last (icw_run (pre ++ [WM W])) (WM 0) = WM W.
Proof. exact icw_prefix. Qed.
Print Assumptions C22_output_prefix.

(* It never emits a record that was not in its input (same values, same retraction flag, same event time). *)
Theorem C22_no_invention : forall n inp,
  same_arity n (records inp) -> monotone_wms inp = true ->
  forall r, In r (records (icw_run_finish inp)) -> In r (records inp).
Proof. exact icw_no_invention. Qed.
Print Assumptions C22_no_invention.

(* By end of stream everything has been emitted. *)
Theorem C22_complete : forall n inp,
  same_arity n (records inp) -> monotone_wms inp = true ->
  (forall r, In r (records inp) -> et r <= max_wm) ->
  forall row, consolidate (records (icw_run_finish inp)) row = consolidate (records inp) row.
Proof. exact icw_complete. Qed.
Print Assumptions C22_complete.

(* Watermarks are forwarded unchanged and in order. *)
Theorem C22_watermarks_forwarded : forall n inp,
  same_arity n (records inp) -> monotone_wms inp = true ->
  watermarks (icw_run_finish inp) = watermarks inp.
Proof. exact icw_watermarks. Qed.
Print Assumptions C22_watermarks_forwarded.

(* The executable bag comparison used by the oracle decides exactly the equality the theorems state. *)
Theorem C22_oracle_bag_eq : forall a b,
  bag_eqb a b = true <-> (forall row, consolidate a row = consolidate b row).
Proof. exact bag_eqb_spec. Qed.
Print Assumptions C22_oracle_bag_eq.

(* Non-vacuity: a changelog with a duplicate, a retraction and a record above the watermark meets the hypotheses. *)
Example C22_hypotheses_satisfiable :
  let pre := [Rec (mkrec [VInt 1] false 1); Rec (mkrec [VInt 1] false 2); Rec (mkrec [VInt 1] true 2); Rec (mkrec [VInt 2] false 9)] in
  same_arity 1 (records pre) /\ monotone_wms (pre ++ [WM 3]) = true /\
  consolidate (records (icw_run (pre ++ [WM 3]))) [VInt 1] = 1 /\
  consolidate (records (icw_run (pre ++ [WM 3]))) [VInt 2] = 0.
Proof. repeat split; try reflexivity. intros r H. simpl in H. repeat destruct H as [H|H]; subst; try reflexivity; contradiction. Qed.

(* The pinned code (before the two `fix:` commits) violated the second and third clause: *)
Theorem C22_pinned_no_invention_refuted :
  exists inp r, In r (records (icw_run_finish_pinned inp)) /\ ~ In r (records inp).
Proof. exact pinned_invents_a_record. Qed.
Print Assumptions C22_pinned_no_invention_refuted.

Theorem C22_pinned_complete_refuted :
  exists inp, consolidate (records (icw_run_finish_pinned inp)) [VInt 1] <> consolidate (records inp) [VInt 1].
Proof. exact pinned_cancels_twice. Qed.
Print Assumptions C22_pinned_complete_refuted.
