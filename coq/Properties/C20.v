(* Properties/C20.v — max_diff_watermark generates correct watermarks.  Statements only; proofs are in
   Proofs/TVFProofs.v.  Model: Model/TVF.v ([mdw_run] = maxDifferenceWatermarkGenerator.Run after the two
   `fix:` commits of this round, [mdw_run_pinned] = the pinned code).
   Guard [mdw_guard md res idx inp]: 0 < resolution < 2^62 ns, |max_diff| < 2^62 ns, every record carries a
   Time in field idx with |UnixNano| < 2^62 (years 1823..2116).  Streams are arbitrary otherwise: any length,
   any order of times, duplicates, retractions, source watermarks anywhere (they are swallowed). *)
From Octo Require Import TVF TVFProofs.
From Coq Require Import Sorted.

(* The run succeeds; the emitted watermarks are, in order, the first and every strictly larger value of
   floor_to_resolution(largest time seen so far) - max_diff; the emitted records are exactly the input records
   whose time is above (floor(largest time among the records before it) - max_diff) — the watermark current
   when they arrive — in input order, values and retraction flag unchanged, event time := the time field.
   The first record is always forwarded (no watermark yet). *)
Theorem C20_watermarks_and_records : forall md res idx inp,
  mdw_guard md res idx inp ->
  exists out, mdw_run md res idx inp = Ok out /\
    watermarks out = mdw_wm_spec md res (map (time_of idx) (records inp)) /\
    records out = mdw_rec_spec md res idx None (records inp).
Proof. exact mdw_run_char. Qed.
Print Assumptions C20_watermarks_and_records.

(* ... and that list of watermarks is strictly increasing. *)
Theorem C20_watermarks_strictly_increasing : forall md res idx inp out,
  mdw_guard md res idx inp -> mdw_run md res idx inp = Ok out -> StronglySorted Z.lt (watermarks out).
Proof. exact mdw_watermarks_increasing. Qed.
Print Assumptions C20_watermarks_strictly_increasing.

(* "rounded down to the resolution": the rounding used is the largest multiple of res not above t. *)
Theorem C20_rounding_is_floor : forall res t,
  0 < res < two62 -> - two62 < t < two62 ->
  round_fixed res t = floor_to res t /\ floor_to res t <= t < floor_to res t + res /\ (floor_to res t) mod res = 0.
Proof.
  intros res t Hr Ht. split; [apply round_fixed_floor; assumption|].
  split; [apply floor_to_bounds; lia | apply floor_to_multiple; lia].
Qed.
Print Assumptions C20_rounding_is_floor.

(* No input stream and no argument value makes the generator panic (records only need to have field idx);
   a resolution <= 0 is rejected with an error before the source is started. *)
Theorem C20_no_panic : forall md res idx inp,
  forallb (has_field idx) (records inp) = true -> is_panic (mdw_run md res idx inp) = false.
Proof. exact mdw_run_no_panic. Qed.
Print Assumptions C20_no_panic.

Theorem C20_bad_resolution_rejected : forall md res idx inp,
  res <= 0 -> mdw_run md res idx inp = Err err_bad_argument.
Proof. exact mdw_run_rejects_bad_resolution. Qed.
Print Assumptions C20_bad_resolution_rejected.

(* Non-vacuity: an out-of-order stream with a duplicate, a pre-epoch instant and a source watermark. *)
Example C20_hypotheses_satisfiable :
  let r t := Rec (mkrec [VInt 1; VTime t 0] false zero_ns) in
  let inp := [r 2500; r (-1500); WM 7; r 2500; r 3999; r 4000] in
  mdw_guard 1000 1000 1 inp /\
  mdw_run 1000 1000 1 inp =
    Ok [Rec (mkrec [VInt 1; VTime 2500 0] false 2500); WM 1000;
        Rec (mkrec [VInt 1; VTime 2500 0] false 2500);
        Rec (mkrec [VInt 1; VTime 3999 0] false 3999); WM 2000;
        Rec (mkrec [VInt 1; VTime 4000 0] false 4000); WM 3000].
Proof. split; [unfold mdw_guard; vm_compute; repeat split; reflexivity || discriminate | vm_compute; reflexivity]. Qed.

(* The pinned code divides with Go's `/`, which rounds toward zero: for the pre-epoch instant -1.5 s and
   resolution 1 s it emits the watermark -1 s instead of -2 s (a watermark above the record's own time). *)
Theorem C20_pinned_watermarks_refuted :
  exists md res idx inp out,
    mdw_guard md res idx inp /\ mdw_run_pinned md res idx inp = Ok out /\
    watermarks out <> mdw_wm_spec md res (map (time_of idx) (records inp)).
Proof. exact mdw_pinned_rounds_toward_zero. Qed.
Print Assumptions C20_pinned_watermarks_refuted.

(* The pinned code with resolution 0 panics (integer divide by zero) on the first record. *)
Theorem C20_pinned_no_panic_refuted :
  exists md idx inp, forallb (has_field idx) (records inp) = true /\ mdw_run_pinned md 0 idx inp = Panic panic_divzero.
Proof. exact mdw_pinned_divides_by_zero. Qed.
Print Assumptions C20_pinned_no_panic_refuted.

(* On instants at or after the epoch the pinned rounding and the fixed one agree (so the fix changes
   nothing there). *)
Theorem C20_pinned_rounding_agrees_after_epoch : forall res t,
  0 < res < two62 -> 0 <= t < two62 -> round_pinned res t = round_fixed res t.
Proof. intros res t Hr Ht. rewrite round_pinned_floor_nonneg, round_fixed_floor; auto. destruct two62_63. lia. Qed.
Print Assumptions C20_pinned_rounding_agrees_after_epoch.
