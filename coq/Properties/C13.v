(* Properties/C13.v — Numeric, time and conversion functions meet their specification.
   Statements only; proofs are in Proofs/NumFnsProofs.v.  Model: Model/NumFns.v (the descriptors of
   functions/functions.go named below, Coalesce.Evaluate and the ObjectLayoutFixer of execution/expressions.go,
   after the five `fix:` commits of branch verif-c13; `*_pinned` = before them).

   What is NOT carried by a theorem (tied in the engine only, see meta/C13.json): log, log2, log10, pow; the
   decimal text <-> float64 conversions (float(String), string(Float)); that the SpecFloat operations are what
   the hardware computes (this is the bit-exact differential tie); exactness of the integer -> float encoding
   inside floor/ceil. *)
From Coq Require Import SpecFloat.
From Octo Require Import NumFns NumFnsProofs LayoutProofs FloatProofs.

(* + - * and unary - on Int and Duration: the result is the exact result wrapped to int64, it is an int64, and it
   is the exact result whenever that fits.  (Duration uses the same functions: both are int64 in Go.) *)
Theorem C13_int_ring : forall a b,
  (int_add a b = wrap64 (a + b) /\ in_int64 (int_add a b) /\ (in_int64 (a + b) -> int_add a b = a + b)) /\
  (int_sub a b = wrap64 (a - b) /\ in_int64 (int_sub a b) /\ (in_int64 (a - b) -> int_sub a b = a - b)) /\
  (int_mul a b = wrap64 (a * b) /\ in_int64 (int_mul a b) /\ (in_int64 (a * b) -> int_mul a b = a * b)) /\
  (int_neg a = wrap64 (- a) /\ in_int64 (int_neg a) /\ (in_int64 (- a) -> int_neg a = - a)).
Proof. exact int_ring. Qed.
Print Assumptions C13_int_ring.

(* Int / Int and Duration / Int with a non-zero divisor: the quotient truncated toward zero (Z.quot, not the
   flooring Z.div), wrapped; it is exact except for MinInt64 / -1, which wraps to MinInt64. *)
Theorem C13_int_div : forall a b, b <> 0 ->
  int_div a b = Ok (wrap64 (Z.quot a b)) /\
  (in_int64 a -> in_int64 b -> ~ (a = min_int64 /\ b = -1) -> int_div a b = Ok (Z.quot a b)) /\
  int_div min_int64 (-1) = Ok min_int64.
Proof. intros a b H. split; [apply int_div_spec; assumption|split; [intros; apply int_div_exact; assumption|exact int_div_min_neg1]]. Qed.
Print Assumptions C13_int_div.

(* Division by zero is an error, never a panic (after the fix). *)
Theorem C13_int_div0 : forall a, int_div a 0 = Err E_div_zero /\ forall b, is_panic (int_div a b) = false.
Proof. intro a. split; [apply int_div_zero|intro b; apply int_div_never_panics]. Qed.
Print Assumptions C13_int_div0.

(* The pinned code: 1 / 0 is a Go run-time panic (process exit 2). *)
Theorem C13_int_div0_pinned_refuted : exists a, int_div_pinned a 0 = Panic P_div_zero.
Proof. exact int_div_pinned_panics. Qed.
Print Assumptions C13_int_div0_pinned_refuted.

(* abs(Int): |a| wrapped; exact except abs(MinInt64) = MinInt64 (Go's int64 has no +2^63). *)
Theorem C13_abs : forall a, in_int64 a ->
  int_abs a = wrap64 (Z.abs a) /\ (a <> min_int64 -> int_abs a = Z.abs a) /\ int_abs min_int64 = min_int64.
Proof. intros a H. split; [apply int_abs_spec; assumption|split; [intro; apply int_abs_exact; assumption|exact int_abs_min]]. Qed.
Print Assumptions C13_abs.

(* time_to_unix(time_from_unix(x)) = x for EVERY int64 x — also where time.Unix's internal year-1 second count
   wraps around (x > MaxInt64 - 62135596800): Time.Unix() wraps back.  Unit: seconds, no rounding involved. *)
Theorem C13_unix_rt : forall x, in_int64 x -> time_to_unix (time_from_unix x) = x.
Proof. exact unix_round_trip. Qed.
Print Assumptions C13_unix_rt.

(* Where that count does not wrap, time_from_unix(x) is the instant x seconds after the epoch, and time_to_unix is
   the floor of the instant in seconds (pre-epoch instants round toward -inf). *)
Theorem C13_unix_exact : forall x, in_int64 x -> in_int64 (x + unix_to_internal) ->
  time_from_unix x = x * e9 /\ forall t, in_int64 (t / e9) -> time_to_unix t = t / e9.
Proof. intros x H1 H2. split; [apply time_from_unix_exact; assumption|exact time_to_unix_floor]. Qed.
Print Assumptions C13_unix_exact.

(* Time + Duration (and Duration + Time, Time - Duration through Add(-d)): the exact instant ns + d, as long as
   Go's saturating second counter is not at its limits (|year| < 2.9e11). *)
Theorem C13_time_add : forall ns d,
  in_int64 (t_ext ns + d / e9 + 1) -> in_int64 (t_ext ns + d / e9 - 1) -> time_add ns d = ns + d.
Proof. exact time_add_exact. Qed.
Print Assumptions C13_time_add.

(* int(String): the code's strconv.ParseInt(s, 10, 64) digit loop on a wrapping uint64 accumulator accepts exactly
   [+-]?[0-9]+ with a value in int64 — no spaces, no underscores, no base prefix, no other digits — and yields
   that value; every other string yields NULL. *)
Theorem C13_parse_int : forall s,
  int_of_string s = match parse_decimal_int64 s with Some z => VInt z | None => VNull end.
Proof. exact int_of_string_spec. Qed.
Print Assumptions C13_parse_int.

(* IN / NOT IN over lists and tuples: membership under Value.Equal; NOT IN is its negation; NULL is never a member
   and never has a member. *)
Theorem C13_in : forall x l,
  in_loop x l = existsb (vequal x) l /\ not_in_loop x l = negb (existsb (vequal x) l) /\ in_loop VNull l = false.
Proof. intros x l. split; [apply in_loop_spec|split; [apply not_in_loop_spec|apply in_loop_null]]. Qed.
Print Assumptions C13_in.

(* list[i]: the element for 0 <= i < len, NULL otherwise (negative, too large, MinInt64) — never a panic. *)
Theorem C13_index : forall l i,
  index_fn l i = Ok (if (0 <=? i) && (i <? Z.of_nat (length l)) then nth (Z.to_nat i) l VNull else VNull).
Proof. exact index_fn_spec. Qed.
Print Assumptions C13_index.

Theorem C13_index_pinned_refuted : exists l i, index_pinned l i = Panic P_index.
Proof. exact index_pinned_panics. Qed.
Print Assumptions C13_index_pinned_refuted.

(* String * Int: negative count and overflowing length are errors, otherwise the n-fold concatenation;
   never a panic (after the fix).  The model's memory is unbounded: see findings/C13.txt, class repeat-beyond-memory. *)
Theorem C13_repeat : forall s n,
  str_repeat s n = (if n <? 0 then Err E_neg_repeat
                    else if max_int64 <? Z.of_nat (length s) * n then Err E_repeat_overflow
                    else Ok (concat (repeat s (Z.to_nat n)))) /\
  is_panic (str_repeat s n) = false.
Proof. intros s n. split; [apply str_repeat_spec|apply str_repeat_never_panics]. Qed.
Print Assumptions C13_repeat.

Theorem C13_repeat_pinned_refuted : exists s n, str_repeat_pinned s n = Panic P_neg_repeat.
Proof. exact str_repeat_pinned_panics. Qed.
Print Assumptions C13_repeat_pinned_refuted.

(* COALESCE: with k NULL arguments before the first non-NULL argument v, the result is v put into the output
   layout by that argument's mapping, exactly k+1 arguments are evaluated, and the result does not depend on the
   arguments after v (they may even fail: [post] is arbitrary) — they are not evaluated. *)
Theorem C13_coalesce_first : forall nulls v post maps,
  v <> VNull -> Forall (fun a => a = AVal VNull) nulls ->
  coalesce (nulls ++ AVal v :: post) maps =
    (match nth_error maps (length nulls) with Some m => fix_layout m v | None => Panic P_index end,
     Z.of_nat (length nulls) + 1).
Proof. intros. unfold coalesce. rewrite coalesce_gen_first by assumption. reflexivity. Qed.
Print Assumptions C13_coalesce_first.

(* ... a scalar v comes out unchanged; all-NULL arguments give NULL; a failing argument before any non-NULL one
   is an error (never swallowed). *)
Theorem C13_coalesce_cases : forall nulls, Forall (fun a => a = AVal VNull) nulls -> forall maps,
  (forall m v, is_scalar v = true -> fix_layout m v = Ok v) /\
  coalesce nulls maps = (Ok VNull, Z.of_nat (length nulls)) /\
  (forall post, coalesce (nulls ++ AErr :: post) maps = (Err E_arg, Z.of_nat (length nulls) + 1)).
Proof.
  intros nulls H maps. split; [intros; apply fix_layout_scalar; assumption|split].
  - unfold coalesce. rewrite coalesce_gen_all_null by assumption. reflexivity.
  - intro post. unfold coalesce. rewrite coalesce_gen_error by assumption. reflexivity.
Qed.
Print Assumptions C13_coalesce_cases.

(* Layout fixer, in full: nested structs, lists, tuples and unions.  If the output type tgt covers the argument type
   src ([tcovers]: same shapes; a struct field is looked up BY NAME in the argument type — sourceIndices, the last
   duplicate wins — and covered recursively, output fields the argument lacks and argument fields the output lacks
   are both fine; list element covered; the argument tuple is not longer than the output tuple; unions: no union
   directly inside a union, and against a non-union output every alternative has the output's kind), and v is a
   value of src as far as the fixer looks at it ([vfits]), then calculateMapping(tgt, src) succeeds and fixLayout
   with that mapping returns [reshape tgt src v]: field by field by name, NULL for absent fields, elementwise on
   lists and tuples, a shorter tuple padded with NULLs, union alternatives chosen by the kind of the value.
   n is the model's fuel (Go has none): the statement holds at every fuel at which the two checkers accept, and
   they reject (false) — never accept wrongly — when the fuel is below the nesting depth. *)
Theorem C13_layout : forall n tgt src v,
  tcovers n tgt src = true -> vfits n tgt src v = true ->
  exists m, calc_mapping n tgt src = Ok m /\ fix_layout m v = Ok (reshape n tgt src v).
Proof. exact layout_full. Qed.
Print Assumptions C13_layout.

(* ... and through the entry point: NewObjectLayoutFixer(tgt, srcs) + Coalesce.Evaluate on k NULLs, then v, then
   anything: the result is v in the output layout, k+1 arguments evaluated. *)
Theorem C13_coalesce_layout : forall tgt srcs nulls v post src,
  Forall (fun s => tcovers mapping_fuel tgt s = true) srcs ->
  Forall (fun a => a = AVal VNull) nulls -> v <> VNull ->
  nth_error srcs (length nulls) = Some src -> vfits mapping_fuel tgt src v = true ->
  coalesce_typed tgt srcs (nulls ++ AVal v :: post) =
    (Ok (reshape mapping_fuel tgt src v), Z.of_nat (length nulls) + 1).
Proof. exact coalesce_typed_layout. Qed.
Print Assumptions C13_coalesce_layout.

(* Non-vacuity of C13_layout: a nullable struct argument {b: Int, a: [{y: Str, x: Int}], t: (Int)} into the output
   {a: [{x: Int | NULL, z: Int}] , c: Float | NULL, t: (Int, Str | NULL)} | NULL — reordering, nesting in a list,
   an absent field, a dropped field, a padded tuple, unions on both sides. *)
Example C13_layout_satisfiable :
  let inner_t := TStruct [([120], TUnion [TPrim 1; TPrim 0]); ([122], TUnion [TPrim 0; TPrim 1])] in
  let inner_s := TStruct [([121], TPrim 4); ([120], TPrim 1)] in
  let tgt := TUnion [TStruct [([97], TList (Some inner_t)); ([99], TUnion [TPrim 2; TPrim 0]);
                              ([116], TTuple [TPrim 1; TUnion [TPrim 4; TPrim 0]])]; TPrim 0] in
  let src := TUnion [TPrim 0; TStruct [([98], TPrim 1); ([97], TList (Some inner_s)); ([116], TTuple [TPrim 1])]] in
  let v := VStruct [VInt 5; VList [VStruct [VStr [104]; VInt 7]]; VTuple [VInt 9]] in
  tcovers 9 tgt src = true /\ vfits 9 tgt src v = true /\
  reshape 9 tgt src v = VStruct [VList [VStruct [VInt 7; VNull]]; VNull; VTuple [VInt 9; VNull]].
Proof. repeat split. Qed.

(* The earlier partial statement, kept: on a raw mapping, for a struct whose selected fields are scalars. *)
Theorem C13_layout_flat_struct : forall st li tu fields, Forall (flat_entry fields) st ->
  fix_layout (LMap (Some st) li tu) (VStruct fields) = Ok (VStruct (map (pick_field fields) st)).
Proof. exact fix_layout_flat_struct. Qed.
Print Assumptions C13_layout_flat_struct.

(* The pinned fixLayout panics on every non-empty tuple (it indexes value.List of a tuple value). *)
Theorem C13_layout_tuple_pinned_refuted : exists m v, is_panic (fix_layout_pinned m v) = true /\ fix_layout m v = Ok v.
Proof. exists (LMap None None (Some [lmap_empty])), (VTuple [VInt 1]). split; reflexivity. Qed.
Print Assumptions C13_layout_tuple_pinned_refuted.

(* floor / ceil, in full.  For a finite x = ±m·2^e decoded from the bit pattern a:
   e < 0:  the integer z the model chooses brackets x (floor: z <= x < z+1; ceil: z-1 < x <= z; scaled by 2^-e), and the
           bit pattern returned DECODES TO EXACTLY z ([sf_is_int]: a zero, or a normal number ±m'·2^e' with a 53-bit m',
           -52 <= e' <= 0 and ±m' = z·2^-e'): Coq's binary_normalize is exact below 2^53 and the bits<->spec_float codec
           gives back what it encoded;
   e >= 0: x is integral and returned unchanged.
   (NaN -> NaN, ±Inf and ±0 unchanged are definitional.)  What stays with the tie: that math.Floor/math.Ceil return these bits. *)
Theorem C13_floor_ceil : forall a s m e, b2sf a = S754_finite s m e ->
  (e < 0 ->
     (sf_floor_int s m e * 2 ^ (- e) <= signed_m s m < (sf_floor_int s m e + 1) * 2 ^ (- e) /\
      sf_is_int (b2sf (f_floor a)) (sf_floor_int s m e)) /\
     ((sf_ceil_int s m e - 1) * 2 ^ (- e) < signed_m s m <= sf_ceil_int s m e * 2 ^ (- e) /\
      sf_is_int (b2sf (f_ceil a)) (sf_ceil_int s m e))) /\
  (0 <= e -> f_floor a = a mod two64 /\ f_ceil a = a mod two64).
Proof. exact floor_ceil_full. Qed.
Print Assumptions C13_floor_ceil.

(* float(Int)-style encoding: every integer below 2^53 in magnitude is encoded exactly (used by floor/ceil; also the
   exact range of float(Int)). *)
Theorem C13_int_encoding_exact : forall z s, Z.abs z < 2 ^ 53 ->
  sf_is_int (b2sf (sf2b (binary_normalize 53 1024 z 0 s))) z.
Proof. exact int_encoding_round_trip. Qed.
Print Assumptions C13_int_encoding_exact.

(* int(Float): for a finite x = ±m·2^e whose truncation toward zero t fits int64 the result is t, where
   |t| <= |x| < |t| + 1 and t has the sign of x (or is 0) for e < 0, and t = x for e >= 0; ±0 gives 0; whatever the
   model returns is an int64.  NaN, ±Inf and |x| >= 2^63 are excluded: Go leaves the conversion implementation-defined
   there (amd64 returns MinInt64, observed), the model makes no claim (MUnspec) beyond "no panic". *)
Theorem C13_int_of_float : forall a,
  (forall s m e, b2sf a = S754_finite s m e -> in_int64 (sf_trunc_int s m e) ->
     f_to_int a = Some (sf_trunc_int s m e) /\
     (e < 0 -> Z.abs (sf_trunc_int s m e) * 2 ^ (- e) <= Z.abs (signed_m s m) < (Z.abs (sf_trunc_int s m e) + 1) * 2 ^ (- e) /\
               0 <= sf_trunc_int s m e * signed_m s m) /\
     (0 <= e -> sf_trunc_int s m e = signed_m s m * 2 ^ e)) /\
  (forall s, b2sf a = S754_zero s -> f_to_int a = Some 0) /\
  (forall z, f_to_int a = Some z -> in_int64 z).
Proof.
  intro a. split; [|split].
  - intros s m e H R. split; [apply f_to_int_finite; assumption|]. split.
    + intro He. apply trunc_bracket. assumption.
    + intro He. unfold sf_trunc_int. destruct (Z.leb_spec 0 e); [reflexivity|lia].
  - intros s H. eapply f_to_int_zero. eassumption.
  - apply f_to_int_some_range.
Qed.
Print Assumptions C13_int_of_float.

(* the bracket alone (the earlier partial statement, kept under its old name for reference) *)
Theorem C13_floor_ceil_partial : forall s m e,
  (e < 0 -> sf_floor_int s m e * 2 ^ (- e) <= signed_m s m < (sf_floor_int s m e + 1) * 2 ^ (- e) /\
            (sf_ceil_int s m e - 1) * 2 ^ (- e) < signed_m s m <= sf_ceil_int s m e * 2 ^ (- e)) /\
  (0 <= e -> sf_floor_int s m e = signed_m s m * 2 ^ e /\ sf_ceil_int s m e = signed_m s m * 2 ^ e).
Proof.
  intros s m e. split; [intro H; split; [apply floor_bracket|apply ceil_bracket]; assumption|apply floor_ceil_integral].
Qed.
Print Assumptions C13_floor_ceil_partial.

(* Float + - * / sqrt: the model IS the IEEE 754 binary64 operation of Coq's SpecFloat (round to nearest even) on
   the decoded operands.  This is definitional — the content is that the real descriptors return these bits for
   every generated operand pair (the tie compares bit for bit, identifying only NaN payloads). *)
Theorem C13_float_ops : forall a b,
  f_add a b = sf2b (SFadd 53 1024 (b2sf a) (b2sf b)) /\ f_sub a b = sf2b (SFsub 53 1024 (b2sf a) (b2sf b)) /\
  f_mul a b = sf2b (SFmul 53 1024 (b2sf a) (b2sf b)) /\ f_div a b = sf2b (SFdiv 53 1024 (b2sf a) (b2sf b)) /\
  f_sqrt a = sf2b (SFsqrt 53 1024 (b2sf a)).
Proof. intros. repeat split. Qed.
Print Assumptions C13_float_ops.

(* Non-vacuity: values meeting the hypotheses above. *)
Example C13_hypotheses_satisfiable :
  in_int64 min_int64 /\ int_abs (-5) = 5 /\ int_div (-7) 2 = Ok (-3) /\ int_div min_int64 (-1) = Ok min_int64 /\
  time_to_unix (time_from_unix max_int64) = max_int64 /\ time_from_unix max_int64 <> max_int64 * e9 /\
  time_add (-1) (-1500000000) = -1500000001 /\
  int_of_string [43; 53] = VInt 5 /\ int_of_string [49; 95; 48] = VNull /\ int_of_string [32; 53] = VNull /\
  index_fn [VInt 7] (-1) = Ok VNull /\
  coalesce [AVal VNull; AVal (VInt 1); AErr] [lmap_empty; lmap_empty; lmap_empty] = (Ok (VInt 1), 2) /\
  Forall (flat_entry [VInt 1; VStr [97]]) [(1, lmap_empty); (-1, lmap_empty); (0, lmap_empty)] /\
  fix_layout (LMap (Some [(1, lmap_empty); (-1, lmap_empty); (0, lmap_empty)]) None None) (VStruct [VInt 1; VStr [97]])
    = Ok (VStruct [VStr [97]; VNull; VInt 1]).
Proof.
  repeat match goal with |- _ /\ _ => split end; try reflexivity; try (vm_compute; congruence).
  { unfold in_int64, min_int64, two63. lia. }
  constructor; [right; cbn; repeat split; lia|].
  constructor; [left; reflexivity|].
  constructor; [right; cbn; repeat split; lia|constructor].
Qed.

(* The code before `fix: COALESCE over tuples of different lengths pads the shorter tuple with NULLs`: calculateMapping
   panics when an argument's tuple type is shorter than the output tuple type; the fixed model maps it. *)
Theorem C13_mapping_tuple_length_pinned_refuted : exists tgt src,
  calc_mapping_pinned mapping_fuel tgt src = Panic P_index /\ is_ok (calc_mapping mapping_fuel tgt src) = true.
Proof. exists (TTuple [TPrim 1; TPrim 1; TPrim 1]), (TTuple [TPrim 1; TPrim 1]). split; reflexivity. Qed.
Print Assumptions C13_mapping_tuple_length_pinned_refuted.
