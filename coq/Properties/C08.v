(* Properties/C08.v — Static types are sound (expression level).  Statements only; proofs are in
   Proofs/ExprTcProofs.v and Proofs/ExprTcTableProofs.v.
   Model: Model/ExprTypes.v (static types as sets of top-level TypeIDs, exact for unions of scalar types),
   Model/Expr.v (Materialize + Evaluate), Model/ExprTc.v ([tc]: Typecheck of constants, variables, AND/OR,
   function calls with the exact pass and the Maybe pass, COALESCE, CAST; [pwt]: local well-typedness of a
   physical expression), Gen/GenFunctions.v (the descriptor table generated from FunctionMap()).

   FULL STATEMENT (kept here; only partly proved, see C08_expr_partial):
     forall env e pe ctx v,  tc type_inter_aliasing function_table env e = TcOk pe -> ctx_conforms ctx env = true ->
                             peval ctx pe = Ok v -> has_type v (ptype pe) = true
     and the same for aggregates (logical/group_by.go) and whole plans (outer-join nullability).
   PROVED: the statement with "pe is locally well-typed (pwt env pe = true)" in place of "tc produced pe", for
   every physical expression; plus, per row of the generated table, that the declared OutputType allows what the
   modelled body returns.  MISSING: the lemma  tc ... = TcOk pe -> pwt env pe = true  (in particular for the
   Maybe pass with accumulated assertions); it is CHECKED instead, on every run, for every physical expression
   the real typechecker produces on the generated cases (check tie_pwt), and [tc] itself is compared with the
   real typechecker node by node (check tie_tc).  Aggregates, plans, List/Struct/Tuple element types and the
   unmodelled function bodies (float arithmetic, string and time functions: listed by
   [filter (fun d => negb (desc_claimed d)) function_table]) are not covered by a theorem; the engine checks
   value-against-type for them on the implementation only. *)
From Octo Require Import Expr ExprProofs ExprTc ExprTcProofs ExprTcTableProofs GenFunctions.
From Octo Require Import ExprTcCases.   (* the case formats / oracles of the engine's cases.v: kept built with this file *)

(* A locally well-typed physical expression, evaluated on a variable context whose current record conforms to
   the column types, yields a value its static type allows — or fails (error / panic), never an ill-typed
   value.  In particular NULL only if the static type allows NULL.  All expressions of the modelled language,
   any depth, any argument count; calls only of descriptors whose body is modelled (pwt requires it). *)
Theorem C08_expr_partial : forall env ctx e v,
  ctx_conforms ctx env = true -> pwt env e = true ->
  peval ctx e = Ok v -> has_type v (ptype e) = true.
Proof. intros env ctx e v Hc W. exact (pwt_sound env ctx Hc e W v). Qed.
Print Assumptions C08_expr_partial.

(* One obligation per row of the generated table: for every descriptor whose body is modelled, the declared
   OutputType allows every kind of value the body can return (for int(Int) / float(Float), which return their
   argument: the declared argument type is allowed by the OutputType).  Fails to build if a descriptor's
   OutputType is narrowed, or (pinned tree) for int(String): the body returns NULL on a failed parse. *)
Theorem C08_descriptors : forallb (fun d => implb (desc_claimed d) (row_output_ok d)) function_table = true.
Proof. exact table_outputs_ok. Qed.
Print Assumptions C08_descriptors.

(* A call typed the way FunctionExpression.Typecheck types it — OutputType of the chosen descriptor, plus NULL
   when the descriptor is Strict and some argument's static type allows NULL — is sound for every modelled
   fixed-kind descriptor of the table, whatever the (well-typed) arguments are. *)
Theorem C08_call : forall env ctx d args ks,
  In d function_table -> desc_modelled d = true -> body_result_kinds (body_of d) = Some ks ->
  ctx_conforms ctx env = true -> forallb (pwt env) args = true ->
  forall v, peval ctx (PCall (nullable_wrap d args (fd_out d)) d args) = Ok v ->
            has_type v (nullable_wrap d args (fd_out d)) = true.
Proof. exact table_call_sound. Qed.
Print Assumptions C08_call.

(* "Functions whose declared result is non-nullable never return NULL": a modelled descriptor of the table
   whose OutputType does not allow NULL returns a non-NULL value on non-NULL arguments. *)
Theorem C08_non_nullable_result : forall ctx d args vs v t,
  In d function_table -> desc_modelled d = true -> has_kind K_NULL (fd_out d) = false ->
  pevals ctx args = Ok vs -> Forall (fun x => is_null x = false) vs ->
  peval ctx (PCall t d args) = Ok v -> is_null v = false.
Proof. exact table_non_nullable_result. Qed.
Print Assumptions C08_non_nullable_result.

(* The pinned tree declared int(String) : Int.  Its body returns NULL on a failed parse: with a non-NULL
   String argument the result is not allowed by Int.  (Fixed by declaring TypeSum(Int, Null); float(String)
   likewise — its body, strconv.ParseFloat, is not modelled; the engine reproduces it.) *)
Theorem C08_pinned_int_of_string_refuted :
  exists vs v, Forall2 (fun x t => has_type x t = true) vs [STSet [K_STR]] /\
               Forall (fun x => is_null x = false) vs /\
               apply_body BIntOfStr vs = Ok v /\ has_type v (STSet [K_INT]) = false.
Proof. exact pinned_int_of_string_unsound. Qed.
Print Assumptions C08_pinned_int_of_string_refuted.

(* Non-vacuity: over columns (Int | NULL, Boolean | Int | NULL) the model typechecks  c0 + 1 > 2 AND c1  into a
   locally well-typed expression (with a type assertion on c1), of type Boolean | NULL; on the conforming row
   (NULL, TRUE) it evaluates to NULL, which that type allows. *)
Local Open Scope string_scope.
Example C08_hypotheses_satisfiable :
  let env := [STSet [0; 1]; STSet [0; 1; 3]] in
  let e := LAnd (LCall ">" [LCall "+" [LVar 0; LConst (VInt 1)]; LConst (VInt 2)]) (LVar 1) in
  exists pe, tc type_inter_aliasing function_table env e = TcOk pe /\ pwt env pe = true /\ pmodelled pe = true /\
             sty_eqb (ptype pe) (STSet [0; 3]) = true /\
             ctx_conforms [[VNull; VBool true]] env = true /\ peval [[VNull; VBool true]] pe = Ok VNull.
Proof. eexists. split; [vm_compute; reflexivity|]. vm_compute. repeat split; reflexivity. Qed.
