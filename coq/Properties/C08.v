(* Properties/C08.v — Static types are sound (expression level).  Statements only; proofs are in
   Proofs/ExprTcProofs.v and Proofs/ExprTcTableProofs.v.
   Model: Model/ExprTypes.v (static types as sets of top-level TypeIDs, exact for unions of scalar types),
   Model/Expr.v (Materialize + Evaluate), Model/ExprTc.v ([tc]: Typecheck of constants, variables, AND/OR,
   function calls with the exact pass and the Maybe pass, COALESCE, CAST; [pwt]: local well-typedness of a
   physical expression), Gen/GenFunctions.v (the descriptor table generated from FunctionMap()).

   PROVED IN FULL for the modelled expression language: C08_expr — everything the typechecker model accepts
   evaluates, on a conforming row, to a value its static type allows, or fails.  The proof goes through the
   decidable local well-typedness check [pwt]: C08_tc_well_typed (tc only produces pwt expressions; includes the
   Maybe pass with its accumulated assertions and both behaviours of TypeIntersection) and C08_expr_pwt (pwt
   expressions are sound; formerly C08_expr_partial).  [tc] itself is compared with the real typechecker node by
   node on every generated case (check tie_tc), and pwt is re-run on the real typechecker's output (tie_pwt).
   BODIES: 28 descriptor bodies are modelled exactly; 47 more (float arithmetic and transcendental functions,
   string / regexp / time functions, conversions, in / not in / len on collections) are modelled ABSTRACTLY: by the
   kinds of value they may return (hand-written per body in Model/Expr.v body_of, e.g. sqrt -> [Float],
   position -> [NULL; Int]) and the number of arguments they read; the value itself comes from an oracle [orc]
   (descriptor, argument values -> result).  Every theorem here holds FOR EVERY ORACLE: apply_body checks the
   returned value against the declared kinds, so nothing is assumed about the oracle.  In the differential run the
   oracle of a case is the list of calls the real bodies made while evaluating that case (recorded by the engine),
   so the tie compares the full result of every expression and, per call, that the real body's result kind and
   NULL-ness are within the abstract model.  C08_descriptors then says, per table row, that the declared
   OutputType allows every kind the (exact or abstract) body model returns: 75 of 76 rows are claimed; the
   exception is "[]" (list indexing: element types are not modelled).
   STILL PARTIAL, stated here: (a) that a real body stays within its abstract kinds is checked per generated case,
   not proved (the bodies are Go library code: math.Sqrt, strconv, regexp, time); (b) aggregates and whole plans
   (outer-join nullability) have no theorem — the engine's query slice checks GROUP BY outputs against the reported
   schema per case; the missing theorem is C08_aggregate: for every row of an aggregate table generated from
   aggregates.Aggregates and every input typing tin, agg_typing row tin = Some tout -> for every group of values
   conforming to tin, has_type (group_output row group) tout (group_output = NULL when no non-NULL value was
   aggregated, else a value of the declared output kinds); (c) static types are sets of top-level TypeIDs:
   List/Struct/Tuple element types are not modelled in has_type. *)
From Octo Require Import Expr ExprProofs ExprTc ExprTcProofs ExprTcProofs2 ExprTcTableProofs GenFunctions.
From Octo Require Import ExprTcCases.   (* the case formats / oracles of the engine's cases.v: kept built with this file *)

(* THE PROPERTY, expression level: for every column typing env, every logical expression e of the modelled
   language (constants, columns, AND, OR, function calls resolved against the generated descriptor table by the
   exact pass or the Maybe pass, COALESCE, CAST; any depth), if the typechecker accepts e and produces the
   physical expression pe (whose static type is ptype pe — what --describe reports for the column), then on every
   variable context whose current record conforms to env, evaluation of pe yields a value that ptype pe allows —
   in particular NULL only if the type allows NULL — or it fails (error / panic).  Holds for either behaviour
   of TypeIntersection (al).  The translator says which one the tree has: type_inter_aliasing. *)
Theorem C08_expr : forall orc al env e pe ctx v,
  tc al function_table env e = TcOk pe -> ctx_conforms ctx env = true ->
  peval orc ctx pe = Ok v -> has_type v (ptype pe) = true.
Proof. exact table_tc_sound. Qed.
Print Assumptions C08_expr.

(* The typechecker model only produces locally well-typed physical expressions. *)
Theorem C08_tc_well_typed : forall al env e pe,
  tc al function_table env e = TcOk pe -> pwt env pe = true.
Proof. exact table_tc_pwt. Qed.
Print Assumptions C08_tc_well_typed.

(* A locally well-typed physical expression (whoever produced it: this is what is re-checked on the REAL
   typechecker's output on every case), evaluated on a conforming row, yields a value its static type allows,
   or fails.  (Formerly C08_expr_partial.) *)
Theorem C08_expr_pwt : forall orc env ctx e v,
  ctx_conforms ctx env = true -> pwt env e = true ->
  peval orc ctx e = Ok v -> has_type v (ptype e) = true.
Proof. intros orc env ctx e v Hc W. exact (pwt_sound orc env ctx Hc e W v). Qed.
Print Assumptions C08_expr_pwt.

(* One obligation per row of the generated table: for every descriptor whose body is modelled, the declared
   OutputType allows every kind of value the body can return (for int(Int) / float(Float), which return their
   argument: the declared argument type is allowed by the OutputType).  Fails to build if a descriptor's
   OutputType is narrowed, or (pinned tree) for int(String): the body returns NULL on a failed parse. *)
Theorem C08_descriptors : forallb (fun d => implb (desc_claimed d) (row_output_ok d)) function_table = true.
Proof. exact table_outputs_ok. Qed.
Print Assumptions C08_descriptors.

(* A call typed the way FunctionExpression.Typecheck types it — OutputType of the chosen descriptor, plus NULL
   when the descriptor is Strict and some argument's static type allows NULL — is sound for every modelled
   fixed-kind descriptor of the table, whatever the (well-typed) arguments are. *)
Theorem C08_call : forall orc env ctx d args ks,
  In d function_table -> desc_modelled d = true -> body_result_kinds (body_of no_oracle d) = Some ks ->
  ctx_conforms ctx env = true -> forallb (pwt env) args = true ->
  forall v, peval orc ctx (PCall (nullable_wrap d args (fd_out d)) d args) = Ok v ->
            has_type v (nullable_wrap d args (fd_out d)) = true.
Proof. exact table_call_sound. Qed.
Print Assumptions C08_call.

(* "Functions whose declared result is non-nullable never return NULL": a modelled descriptor of the table
   whose OutputType does not allow NULL returns a non-NULL value on non-NULL arguments. *)
Theorem C08_non_nullable_result : forall orc ctx d args vs v t,
  In d function_table -> desc_modelled d = true -> has_kind K_NULL (fd_out d) = false ->
  pevals orc ctx args = Ok vs -> Forall (fun x => is_null x = false) vs ->
  peval orc ctx (PCall t d args) = Ok v -> is_null v = false.
Proof. exact table_non_nullable_result. Qed.
Print Assumptions C08_non_nullable_result.

(* The pinned tree declared int(String) : Int.  Its body returns NULL on a failed parse: with a non-NULL
   String argument the result is not allowed by Int.  (Fixed by declaring TypeSum(Int, Null); float(String)
   likewise — its body, strconv.ParseFloat, is not modelled; the engine reproduces it.) *)
Theorem C08_pinned_int_of_string_refuted :
  exists vs v, Forall2 (fun x t => has_type x t = true) vs [STSet [K_STR]] /\
               Forall (fun x => is_null x = false) vs /\
               apply_body BIntOfStr vs = Ok v /\ has_type v (STSet [K_INT]) = false.
Proof. exact pinned_int_of_string_unsound. Qed.
Print Assumptions C08_pinned_int_of_string_refuted.

(* Non-vacuity: over columns (Int | NULL, Boolean | Int | NULL) the model typechecks  c0 + 1 > 2 AND c1  into a
   locally well-typed expression (with a type assertion on c1), of type Boolean | NULL; on the conforming row
   (NULL, TRUE) it evaluates to NULL, which that type allows. *)
Local Open Scope string_scope.
Example C08_hypotheses_satisfiable :
  let env := [STSet [0; 1]; STSet [0; 1; 3]] in
  let e := LAnd (LCall ">" [LCall "+" [LVar 0; LConst (VInt 1)]; LConst (VInt 2)]) (LVar 1) in
  exists pe, tc type_inter_aliasing function_table env e = TcOk pe /\ pwt env pe = true /\ pmodelled pe = true /\
             sty_eqb (ptype pe) (STSet [0; 3]) = true /\
             ctx_conforms [[VNull; VBool true]] env = true /\ peval no_oracle [[VNull; VBool true]] pe = Ok VNull.
Proof. eexists. split; [vm_compute; reflexivity|]. vm_compute. repeat split; reflexivity. Qed.
