(* Properties/C23.v — File datasources return exactly the file's rows.
   Statements only; proofs in Proofs/Sources{Scan,Queue,Stdin}Proofs.v.  Models: Model/SourcesScan.v (lines
   source: split function + bufio.Scanner driver), Model/SourcesQueue.v (JSON consumer reorder queue),
   Model/SourcesStdin.v (stdin preview replay).
   Model/SourcesCsvProj.v (CSV header handling and used-column projection, encoding/csv trusted).
   Not covered by a theorem (oracle only, see design/C23.md): parquet row reconstruction. *)
From Octo Require Import SourcesScan SourcesQueue SourcesStdin SourcesCsvProj.
From Octo Require Import SourcesScanProofs SourcesQueueProofs SourcesStdinProofs SourcesCsvProjProofs SourcesQueueBoundProofs.
From Coq Require Import Permutation.

(* ---- (1) the lines source splits exactly at the separator, under every chunking ---------------------- *)

(* bytes.Index as modelled returns the least position at which the separator occurs. *)
Theorem C23_index_of_least : forall sep d i, index_of sep d = Some i <->
  (firstn (length sep) (skipn i d) = sep /\ (i <= length d)%nat /\
   forall j, (j < i)%nat -> firstn (length sep) (skipn j d) <> sep).
Proof. exact index_of_spec. Qed.
Print Assumptions C23_index_of_least.

(* What "the separator-delimited pieces" means: cut at the first occurrence and continue behind it; the
   remainder after the last separator is a piece unless it is empty (so an empty file has no lines and a
   final separator does not add an empty line). *)
Theorem C23_split_spec_unfold : forall sep d, sep <> [] ->
  split_spec sep d =
  match d with
  | [] => []
  | _ => match index_of sep d with
         | None => [d]
         | Some i => firstn i d :: split_spec sep (skipn (i + length sep) d)
         end
  end.
Proof. exact split_spec_unfold. Qed.
Print Assumptions C23_split_spec_unfold.

(* For every non-empty separator, every file content, every way the reader hands over the bytes (any
   sequence of read sizes, EOF reported with or after the last bytes) and every buffer limit that no line
   (plus its separator) exceeds, the scanner driven by the custom split function returns exactly the
   pieces and ends without an error. *)
Theorem C23_lines_split : forall sep data rd maxtok,
  sep <> [] -> fits sep maxtok data ->
  scan (split_fn sep) maxtok rd data = (split_spec sep data, EndOk).
Proof. exact lines_split_correct. Qed.
Print Assumptions C23_lines_split.

(* The same for the default separator (bufio.ScanLines: a trailing \r of each line is dropped). *)
Theorem C23_lines_default : forall data rd maxtok,
  fits [10] maxtok data ->
  scan scan_lines maxtok rd data = (map drop_cr (split_spec [10] data), EndOk).
Proof. exact scan_lines_correct. Qed.
Print Assumptions C23_lines_default.

(* The datasource: records (number, text) with number = 0-based index of the piece, and a nil error. *)
Theorem C23_lines_run : forall sep data rd maxtok,
  sep <> [] -> fits sep maxtok data ->
  lines_run sep maxtok rd data = (lines_spec sep data, Ok tt).
Proof. exact lines_run_correct. Qed.
Print Assumptions C23_lines_run.

(* It reports nil only if the scanner ended without an error (an over-long line is not a silent end). *)
Theorem C23_lines_no_silent_error : forall sep data rd maxtok recs,
  lines_run sep maxtok rd data = (recs, Ok tt) ->
  exists toks, scan (if bytes_eqb sep [10] then scan_lines else split_fn sep) maxtok rd data = (toks, EndOk).
Proof. exact lines_run_no_silent_error. Qed.
Print Assumptions C23_lines_no_silent_error.

(* Non-vacuity: "x;;y\r;z" with separator ";" read one byte at a time fits a 8-byte buffer and has an
   empty piece and a piece ending in \r that is kept (custom separators do not drop \r). *)
Example C23_lines_hypotheses_satisfiable :
  fits [59] 8 [120;59;59;121;13;59;122] /\
  scan (split_fn [59]) 8 (mkreader [] false) [120;59;59;121;13;59;122] = ([[120]; []; [121;13]; [122]], EndOk).
Proof. split. split. simpl; lia. vm_compute. repeat constructor. vm_compute. reflexivity. Qed.

(* The pinned code advanced by i+1 instead of i+len(sep): xabyabz with sep=ab gave x, by, bz. *)
Theorem C23_lines_split_pinned_refuted :
  exists sep data rd maxtok, sep <> [] /\ fits sep maxtok data /\
    fst (scan (split_fn_pinned sep) maxtok rd data) <> split_spec sep data.
Proof. exact lines_split_pinned_refuted. Qed.
Print Assumptions C23_lines_split_pinned_refuted.

(* The pinned code returned `err` (nil) instead of sc.Err(): an over-long line ended the stream silently. *)
Theorem C23_lines_pinned_silent_error_refuted :
  exists sep data rd maxtok recs,
    lines_run_pinned sep maxtok rd data = (recs, Ok tt) /\
    snd (scan (split_fn_pinned sep) maxtok rd data) = EndTooLong.
Proof. exact lines_run_pinned_silent_error_refuted. Qed.
Print Assumptions C23_lines_pinned_silent_error_refuted.

(* ---- (2) the JSON reorder queue under every worker schedule --------------------------------------------- *)

(* For every number of lines n, every batch size, every order [sched] in which the jobs' results reach
   the consumer (any permutation of the jobs — the token window only restricts this set further) and every
   position of the reader's `done` message among them: the consumer produces record 0, 1, .., n-1, each
   once, in file order; its exit condition (fileReaderIsDone && startIndex == linesRead) becomes true
   exactly when the last message has been handled (no message is left unread, and it does not block). *)
Theorem C23_json_order : forall (A : Type) (record_of_line : nat -> A) n batch sched dpos,
  (0 < batch)%nat -> Permutation sched (seq 0 (njobs n batch)) ->
  exists st, run_consumer n cstate0 (messages record_of_line n batch sched dpos) = (st, Exited, []) /\
             produced st = map record_of_line (seq 0 n).
Proof. intros A r. exact (json_consumer_correct r). Qed.
Print Assumptions C23_json_order.

(* Non-vacuity: 5 lines in batches of 2, jobs finishing in the order 2,0,1, `done` arriving first. *)
Example C23_json_order_example :
  run_consumer 5 cstate0 (messages (fun i => i) 5 2 [2;0;1]%nat 0)
  = (mkc [] 5 true [0;1;2;3;4]%nat, Exited, []).
Proof. vm_compute. reflexivity. Qed.

(* The token window.  A job is submitted only while fewer than [cap] results are outstanding (128 tokens:
   cap(outChanAvailableTokens), the constant C29's model calls the result-channel capacity), hence the job
   received as the p-th result has index < p + cap (in_range_window).  Under every such schedule, after any k
   messages the queue spans at most (k + cap) batches. *)
Theorem C23_json_queue_window : forall (A : Type) (record_of_line : nat -> A) n batch cap sched dpos k st e rest,
  in_range_window cap sched = true ->
  run_consumer n cstate0 (firstn k (messages record_of_line n batch sched dpos)) = (st, e, rest) ->
  (length (queue st) <= (k + cap) * batch)%nat.
Proof. intros A r. exact (json_queue_window r). Qed.
Print Assumptions C23_json_queue_window.

(* The bound "never more than cap batches" (C23_json_queue_bounded as first planned) is FALSE: the tokens bound the
   results in flight, not the reorder queue.  One slow job lets the queue grow with the file: cap = 2, six
   one-line jobs, job 0 finishing last is a schedule the protocol allows, and the queue has 6 slots. *)
Theorem C23_json_queue_bounded_refuted :
  exists n batch cap sched k st e rest,
    in_range_window cap sched = true /\
    run_consumer n cstate0 (firstn k (messages (fun i => i) n batch sched 6)) = (st, e, rest) /\
    (cap * batch < length (queue st))%nat.
Proof. exact json_queue_not_bounded_by_cap. Qed.
Print Assumptions C23_json_queue_bounded_refuted.

(* ---- (3) stdin: the bytes a preview consumed are replayed ---------------------------------------------- *)

(* For every input, every number of preview opens each with every sequence of read sizes (requested and
   delivered by the OS), and every sequence of reads by the execution: nothing fails, every preview sees a
   prefix of the input, and what execution has read plus what it has not read yet is exactly the input. *)
Theorem C23_stdin : forall input previews final_reads,
  exists seens seen unread,
    run_stdin input previews final_reads = Ok (seens, seen, unread) /\
    seen ++ unread = input /\
    length seens = length previews /\ Forall (fun s => is_prefix s input) seens.
Proof. exact stdin_replay_correct. Qed.
Print Assumptions C23_stdin.

Example C23_stdin_example :
  run_stdin [1;2;3;4;5;6] [[(1,0);(3,9)]; [(0,0);(0,0);(0,0);(9,1)]]%nat [(2,2);(0,0)]%nat
  = Ok ([[1;2;3;4;5]; [1;2;3;4;5]], [1;2;3;4], [5;6]).
Proof. vm_compute. reflexivity. Qed.

(* ---- (4) CSV / TSV: one record per CSV record, values[i] is the cell of the column named fields[i] ------- *)

(* encoding/csv is trusted: a file is the list of records it returns.  For every file, header option, cell
   conversion [conv] (C24 models the real one), column types, and every subset [keep] of used columns handed
   to the execution node as its field list — provided the column names are pairwise different and all records
   have as many cells as there are names (csv.Reader enforces it): the run is exactly
   spec_rows: for each data record in file order, the kept cells, each converted at the type of its own
   column; it stops at the first conversion error.  In particular fields[i], its type and values[i] all
   belong to the i-th kept column. *)
Theorem C23_csv_rows : forall (T C V : Type) (conv : T -> C -> outcome V) (cell_text : C -> bytes)
    header records names data tys keep,
  csv_names cell_text header records = Ok (names, data) ->
  NoDup names -> length tys = length names -> length keep = length names ->
  Forall (fun r => length r = length names) data ->
  csv_run conv header names (select keep (combine names tys)) records = spec_rows conv keep tys data.
Proof. intros T C V conv cell_text. exact (csv_run_spec conv cell_text). Qed.
Print Assumptions C23_csv_rows.

(* when no cell fails to convert: exactly one record per data record, in order *)
Theorem C23_csv_one_record_per_row : forall (T C V : Type) (conv : T -> C -> outcome V) keep tys rows out,
  spec_rows conv keep tys rows = (out, Ok tt) ->
  Forall2 (fun r vs => spec_values conv (select keep tys) (select keep r) = Ok vs) rows out.
Proof. intros T C V conv. exact (spec_rows_ok conv). Qed.
Print Assumptions C23_csv_one_record_per_row.

(* header=false: the generated names column_0 .. are pairwise different (by computation, up to 200 columns) *)
Theorem C23_csv_column_names_distinct : forall n, (n <= 200)%nat -> NoDup (map column_i (seq 0 n)).
Proof. exact column_names_nodup_200. Qed.
Print Assumptions C23_csv_column_names_distinct.

(* Non-vacuity: header a,b,c; SELECT a, c; the second record fails on its c cell. *)
Example C23_csv_example :
  let conv := fun (t : Z) (c : Z) => if c =? 0 then Err 7 else Ok (t * 100 + c) in
  let recs := [[1;2;3]; [4;5;6]; [7;8;0]; [1;1;1]] in
  csv_names (fun c => [c]) true recs = Ok ([[1];[2];[3]], [[4;5;6]; [7;8;0]; [1;1;1]]) /\
  csv_run conv true [[1];[2];[3]] (select [true;false;true] (combine [[1];[2];[3]] [10;20;30])) recs
  = ([[1004; 3006]], Err 7).
Proof. split; vm_compute; reflexivity. Qed.
