(* Properties/C01.v — Single-source SELECT results match relational semantics.
   Statements only; proofs are in Proofs/RelProofs.v.  Model: Model/Rel.v
     exec_top db t : the statement compiled as parser.ParseSelect / ParseNestedNode / cmd/root.go compile it
                     (plan_of_q) and run operator by operator (run_plan: Filter, Map, Distinct with its count
                     map, SimpleGroupBy with the aggregate state machines, OrderSensitiveTransform's counted
                     tree, Limit's loop);
     den_top db t  : the relational semantics (WHERE keeps TRUE only, the select list evaluated per row,
                     DISTINCT = support, one group per distinct key, ORDER BY = a sort, LIMIT = a prefix) with
                     OctoSQL's conventions: NULL sorts first, strings compare bytewise, ints wrap; ties of the
                     ORDER BY keys are broken by the row's values (what orderByItem.Less does), which makes the
                     ordered result a function of the query and the data.
   The fragment (in_fragment): the AST of Model/Rel.v — WHERE, expressions over Int/String/Boolean/NULL,
   DISTINCT, GROUP BY with count/sum/avg/min/max/array_agg (+DISTINCT), ORDER BY ASC|DESC, LIMIT n >= 0,
   subquery in FROM, WITH — with plain literals; a LIMIT without ORDER BY only over a source whose row order is
   determined (not directly over grouping output, which the real SimpleGroupBy emits in hash order).
   Value fragment: NULL, Int, Boolean, String, Float without NaN and -0 (64-bit patterns; compared through
   Value.Compare; no Float arithmetic), lists of those.
   Column names are modelled: select items may have no alias (the name of the field read, col_<i>, for grouping
   <aggregate>_<field> / <aggregate> / field / key_<i>) and names may repeat (the _<n> rule of getUniqueName and of
   logical.Map's existingFields loop); `*` and `t.*` expand in place; a subquery's fields are requalified.  The
   name rule of a plain select list (out_schema) is one definition used by both semantics; for a grouping select
   the pipeline finds its columns BY NAME in the GroupBy node's schema while den_top takes them by position —
   in_fragment asks (decidable: group_names_ok) that every generated name resolves to its own column, which fails
   only when two GroupBy fields share a name (an alias equal to an unselected key's key_<i>, a key selected twice).
   Both semantics share the expression evaluator and the name resolution (see the header of Model/Rel.v). *)
From Coq Require Import Permutation.
From Octo Require Import Values Rel RelProofs.

(* For every query of the fragment and every database of plain values, the pipeline prints exactly the rows
   the relational semantics defines: the same bag, and the same sequence when the query has an ORDER BY.
   Errors (a query the parser or type checker rejects) correspond to errors. *)
Theorem C01_select : forall t db, in_fragment t = true -> plain_db db = true ->
  result_equiv (has_order_by t) (exec_top db t) (den_top db t).
Proof. intros t db F P. exact (select_equiv db t F P). Qed.
Print Assumptions C01_select.

(* In the model the two even coincide as outcomes (same schema, same rows in the same order, same error). *)
Theorem C01_select_exact : forall t db, in_fragment t = true -> plain_db db = true -> exec_top db t = den_top db t.
Proof. intros t db F P. exact (exec_top_eq_den_top db P t F). Qed.
Print Assumptions C01_select_exact.

(* What the clauses of den_top mean.  DISTINCT is the support: every row of the result is an input row, every
   input row is represented (up to Compare = 0), no two result rows are equal. *)
Theorem C01_distinct_is_support : forall rows,
  (forall r, In r (den_distinct rows) -> In r rows) /\
  (forall r, In r rows -> row_in r (den_distinct rows) = true) /\
  pairwise_distinct row_eqb (den_distinct rows).
Proof. exact den_distinct_spec. Qed.
Print Assumptions C01_distinct_is_support.

(* ORDER BY returns a permutation of its input that ascends under the keys taken with their directions
   (then the row): NULL first (smallest type id), strings bytewise, DESC reverses a key. *)
Theorem C01_order_by_is_a_sort : forall its,
  Permutation its (isort oitem_cmp its) /\ sorted oitem_cmp (isort oitem_cmp its).
Proof. exact den_order_textbook. Qed.
Print Assumptions C01_order_by_is_a_sort.

(* The operators of the pipeline, one by one, against the clauses (for all inputs, no plainness needed). *)
Theorem C01_distinct_node : forall rows, distinct_node rows = den_distinct rows.
Proof. exact distinct_node_eq. Qed.
Print Assumptions C01_distinct_node.

Theorem C01_limit_node : forall n rows, 0 <= n -> limit_node n rows = firstn (Z.to_nat n) rows.
Proof. exact limit_node_eq. Qed.
Print Assumptions C01_limit_node.

Theorem C01_filter_node : forall s e rows, filter_node s e rows = filter_rows s (Some e) rows.
Proof. exact filter_node_eq. Qed.
Print Assumptions C01_filter_node.

(* Non-vacuity: a grouping query with ORDER BY over a table with NULLs and duplicates is in the fragment, the
   database is plain, and the result is the expected one (NULL key last under DESC, AVG truncated). *)
Example C01_hypotheses_satisfiable :
  in_fragment wit_group = true /\ plain_db wit_table = true /\
  exists r, den_top wit_table wit_group = Ok r /\ length (rrows r) = 3%nat.
Proof. destruct wit_group_result as [A [B [_ D]]]. repeat split; try assumption. eexists. split; [exact D|reflexivity]. Qed.

(* The unique-name rule: the output columns of a select list have pairwise different (qualified) names. *)
Theorem C01_unique_names : forall src items outs, out_schema false src items = Ok outs -> NoDup outs.
Proof. exact out_schema_distinct. Qed.
Print Assumptions C01_unique_names.

(* Before the `fix:` (logical/map.go advanced the counter of the suffixed name) a third column of one name repeated
   the second one's name — SELECT a AS x, b AS x, a AS x: x, x_1, x_1 (the CLI then printed an empty name). *)
Theorem C01_pinned_third_name_refuted : exists t db,
  in_fragment t = true /\ plain_db db = true /\
  (exists r, exec_top_pinned_names db t = Ok r /\ ~ NoDup (rsch r)) /\
  (exists r, exec_top db t = Ok r /\ printed_names (rsch r) = [[120]; [120; 95; 49]; [120; 95; 50]]).
Proof. exists wit_triple_map, wit_table. exact pinned_triple_map. Qed.
Print Assumptions C01_pinned_third_name_refuted.

(* Non-vacuity for the names: SELECT a, count(b), sum(b) AS count_b, count( * ) ... GROUP BY a  and
   SELECT a, t.a, a + 1, t.*, b AS a FROM t  are in the fragment; the printed names are
   a, count_b, count_b_1, count  and  t.a, a_1, col_2, a_2, b, a. *)
Example C01_names_satisfiable :
  in_fragment wit_names_group = true /\ in_fragment wit_names_map = true /\
  (exists r, den_top wit_table wit_names_group = Ok r /\
     printed_names (rsch r) = [[97]; [99; 111; 117; 110; 116; 95; 98]; [99; 111; 117; 110; 116; 95; 98; 95; 49]; [99; 111; 117; 110; 116]]) /\
  (exists r, den_top wit_table wit_names_map = Ok r /\
     printed_names (rsch r) = [[116; 46; 97]; [97; 95; 49]; [99; 111; 108; 95; 50]; [97; 95; 50]; [98]; [97]]).
Proof. exact wit_names_results. Qed.

(* stream_native: the pinned code printed a record with fmt.Fprintf(os.Stdout, record.String()+"\n"); a '%' in
   the data was taken as a verb ('%d' came out as '%!d(MISSING)').  After the `fix:` the line is the record text. *)
Theorem C01_pinned_stream_native_refuted : exists text, native_line_pinned text <> native_line text.
Proof. exists [39; 37; 100; 39]. exact pinned_native_line. Qed.
Print Assumptions C01_pinned_stream_native_refuted.

Theorem C01_stream_native_line : forall text, native_line text = text ++ [10].
Proof. exact native_line_exact. Qed.
Print Assumptions C01_stream_native_line.
