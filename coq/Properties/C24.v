(* Properties/C24.v — File datasources produce values that match their inferred schema.
   Statements only; proofs in Proofs/Sources{Csv,Json}Proofs.v.  Models: Model/SourcesCsv.v,
   Model/SourcesJson.v (both follow the code after the `fix:` commits listed in findings/C24.txt; the
   *_pinned variants follow the pinned code). *)
From Octo Require Import SourcesCsv SourcesJson SourcesCsvProofs SourcesJsonProofs.
From Octo Require Import Types SourcesJsonInfer SourcesJsonInferProofs SourcesJsonFlatProofs.

(* ---- CSV / TSV ------------------------------------------------------------------------------------------ *)

(* For every file (any number of rows, rows beyond the 100-row preview included) and whatever schema the
   inference returned for it: each row either is produced with every value of the type of its column
   (value.TypeID accepted by the column type), or is reported as an error; never a panic. *)
Theorem C24_csv : forall ncols rows tys,
  infer_csv ncols rows = Ok tys -> forall r, In r rows -> row_result_ok tys (exec_row tys r).
Proof. exact csv_values_match_schema. Qed.
Print Assumptions C24_csv.

(* The rows the schema was inferred from are never errors: inference (strconv) and execution (fastfloat with
   the strconv fall-back) agree on them.  cell_wf is the only assumption on the float/time parsers the
   model does not compute: a text strconv.ParseInt accepts is accepted by strconv.ParseFloat. *)
Theorem C24_csv_preview_rows_ok : forall ncols rows tys,
  infer_csv ncols rows = Ok tys ->
  forall r, In r (firstn 100 rows) -> Forall (fun c => cell_wf c = true) r ->
  exists vs, exec_row tys r = Ok vs /\ Forall2 (fun v t => has_ftype v t = true) vs tys.
Proof. exact csv_preview_rows_ok. Qed.
Print Assumptions C24_csv_preview_rows_ok.

(* fastfloat.ParseInt64 accepts only what strconv.ParseInt(s, 10, 64) accepts, with the same value
   (the converse fails exactly on a leading '+', see C24_parsers_disagree_on_plus5). *)
Theorem C24_parsers_agree_int : forall s v, ff_int s = Some v -> strconv_int s = Some v.
Proof. exact ff_int_sub_strconv. Qed.
Print Assumptions C24_parsers_agree_int.

Theorem C24_parsers_disagree_on_plus5 : strconv_int [43;53] = Some 5 /\ ff_int [43;53] = None.
Proof. exact parsers_disagree_on_plus5. Qed.
Print Assumptions C24_parsers_disagree_on_plus5.

(* Non-vacuity: 1, (empty), 2.5 then after the preview "abc": Int|Float|Null column, the late row is an error. *)
Example C24_csv_example :
  let c1 := mkcell [49] (Some 4607182418800017408) (Some 4607182418800017408) None in
  let c2 := mkcell [] None None None in
  let c3 := mkcell [50;46;53] (Some 4612811918334230528) (Some 4612811918334230528) None in
  let bad := mkcell [97;98;99] None None None in
  infer_csv 1 [[c1]; [c2]; [c3]] = Ok [FUnion [t_null; t_int; t_float]] /\
  exec_row [FUnion [t_null; t_int; t_float]] [c2] = Ok [VNull] /\
  exec_row [FUnion [t_null; t_int; t_float]] [bad] = Err e_no_alternative.
Proof. repeat split; vm_compute; reflexivity. Qed.

(* The pinned code: three silent conversions. *)
Theorem C24_csv_pinned_late_string_refuted :
  exists rows tys r vs, infer_csv 1 rows = Ok tys /\ In r rows /\
    exec_row_pinned tys r = Ok vs /\ all2 has_ftype vs tys = false.
Proof. exact csv_pinned_late_string_refuted. Qed.
Print Assumptions C24_csv_pinned_late_string_refuted.

Theorem C24_csv_pinned_late_null_refuted :
  exists rows tys r vs, infer_csv 1 rows = Ok tys /\ In r rows /\
    exec_row_pinned tys r = Ok vs /\ all2 has_ftype vs tys = false.
Proof. exact csv_pinned_late_null_refuted. Qed.
Print Assumptions C24_csv_pinned_late_null_refuted.

Theorem C24_csv_pinned_plus5_refuted :
  exists rows tys r vs, infer_csv 1 rows = Ok tys /\ In r (firstn 100 rows) /\ Forall (fun c => cell_wf c = true) r /\
    exec_row_pinned tys r = Ok vs /\ all2 has_ftype vs tys = false.
Proof. exact csv_pinned_plus5_refuted. Qed.
Print Assumptions C24_csv_pinned_plus5_refuted.

(* ---- JSON lines ------------------------------------------------------------------------------------------ *)

(* getOctoSQLValue, for every type (lists, objects, unions nested to any depth) and every JSON value or
   missing key: when it reports ok the value has the requested type. *)
Theorem C24_json_value : forall t ov v, get_value true t ov = Ok (v, true) -> has_jtype t v = true.
Proof. exact get_value_sound. Qed.
Print Assumptions C24_json_value.

(* It never panics and never fails otherwise (after the nil-element fix). *)
Theorem C24_json_value_total : forall t ov, exists v ok, get_value true t ov = Ok (v, ok).
Proof. exact get_value_total. Qed.
Print Assumptions C24_json_value_total.

(* The worker: for every schema and every object, the record it hands over matches the schema field by
   field, or the line is reported as an error; rows beyond the preview included (the schema is arbitrary). *)
Theorem C24_json : forall fields obj, jrow_result_ok fields (exec_json_row true fields obj).
Proof. exact exec_json_row_sound. Qed.
Print Assumptions C24_json.

(* For files whose values are scalars (null, number, boolean, string / RFC3339 time; keys may be missing, repeated,
   explicit nulls): the rows the schema was inferred from are produced, none is an error.  (infer_json returns Ok
   only for such files; nested values are the partial statement below.) *)
Theorem C24_json_flat_preview_rows_ok : forall rows fs,
  infer_json true rows = Ok fs -> forall r, In r (firstn 100 rows) ->
  exists vs, exec_json_row true (jschema fs) r = Ok vs.
Proof. exact json_flat_preview_rows_ok. Qed.
Print Assumptions C24_json_flat_preview_rows_ok.

(* Partial — the exact gap.  Nested inference is modelled (Model/SourcesJsonInfer.v: getOctoSQLType, the Creator
   loop with the missing-key NULLs, octosql.TypeSum = Model/Types.v tsum of C10) and tied differentially on
   every generated file (jnested_tie: the model's schema equals the reported one; jnested_spec: every previewed
   row is accepted by the execution model under the reported schema).  What is not proved is
     C24_json_preview_rows_ok :
       forall rows fs, infer_json_nested true rows = Ok fs ->
         preview_rows_accepted (nschema fs) rows = true.
   It needs: (a) get_value true (jty_of_ty (json_type v)) (Some v) is ok (a value fits its own type), and
   (b) acceptance is monotone under TypeSum on the types inference produces:
         get_value true (jty_of_ty a) x = Ok (_, true) -> tsum a b = Ok s -> get_value true (jty_of_ty s) x = Ok (_, true)
       and the same for b — i.e. "TypeSum is an upper bound" for the acceptance relation of getOctoSQLValue (not
       for Type.Is, which C10 proves only outside struct-shape mismatches, sum_upper_partial).  (b) is false on
       /repo main for struct types with a repeated field name (the two theorems below), which the fix c73d0f6
       (branch verif3-c23c24) removes; no other counterexample was found by the engine's search. *)
Theorem C24_json_main_duplicate_key_refuted :
  exists rows fs r, infer_json_nested false rows = Ok fs /\ In r (firstn 100 rows) /\
    exists e, exec_json_row true (nschema fs) r = Err e.
Proof. exact json_main_duplicate_key_refuted. Qed.
Print Assumptions C24_json_main_duplicate_key_refuted.

Theorem C24_json_main_duplicate_key_merge_refuted :
  exists rows fs r, infer_json_nested false rows = Ok fs /\ In r (firstn 100 rows) /\
    exists e, exec_json_row true (nschema fs) r = Err e.
Proof. exact json_main_duplicate_key_merge_refuted. Qed.
Print Assumptions C24_json_main_duplicate_key_merge_refuted.

(* after the fix: {"o":{"k":1,"k":"s"}} and {"o":{"k":1}},{"o":{"k":"s","k":2}} are read *)
Example C24_json_fixed_duplicate_keys :
  let rows1 := [[(ko, JVObj [(kk, num1); (kk, str_s)])]] in
  let rows2 := [[(ko, JVObj [(kk, num1)])]; [(ko, JVObj [(kk, str_s); (kk, num1)])]] in
  (exists fs, infer_json_nested true rows1 = Ok fs /\ preview_rows_accepted (nschema fs) rows1 = true) /\
  (exists fs, infer_json_nested true rows2 = Ok fs /\ preview_rows_accepted (nschema fs) rows2 = true).
Proof. exact json_fixed_duplicate_keys. Qed.

Example C24_json_fixed_missing_key :
  let rows := [[(k_a, JVNum one_bits)]; [(k_b, JVNum one_bits)]] in
  infer_json true rows = Ok [(k_a, FUnion [t_null; t_float]); (k_b, FUnion [t_null; t_float])] /\
  exec_json_row true (jschema [(k_a, FUnion [t_null; t_float]); (k_b, FUnion [t_null; t_float])]) [(k_a, JVNum one_bits)]
    = Ok [VFloat one_bits; VNull].
Proof. exact json_fixed_missing_key. Qed.

(* The pinned code. *)
Theorem C24_json_pinned_ok_dropped_refuted :
  exists fields obj vs, exec_json_row false fields obj = Ok vs /\
    all2 (fun v f => has_jtype (snd f) v) vs fields = false.
Proof. exact json_pinned_ok_dropped_refuted. Qed.
Print Assumptions C24_json_pinned_ok_dropped_refuted.

Theorem C24_json_pinned_nil_element_refuted :
  exists fields obj p, exec_json_row false fields obj = Panic p.
Proof. exact json_pinned_nil_element_refuted. Qed.
Print Assumptions C24_json_pinned_nil_element_refuted.

Theorem C24_json_pinned_missing_key_refuted :
  exists rows fs r vs, infer_json false rows = Ok fs /\ In r (firstn 100 rows) /\
    exec_json_row false (jschema fs) r = Ok vs /\
    all2 (fun v f => has_jtype (snd f) v) vs (jschema fs) = false.
Proof. exact json_pinned_missing_key_refuted. Qed.
Print Assumptions C24_json_pinned_missing_key_refuted.
