(* Properties/C27.v — Plugin installation survives a crash at any point.
   Statements only; proofs are in Proofs/PluginsFsProofs.v.  Model: Model/PluginsFs.v
   (fs = finite map path -> Dir names | File bytes below ~/.octosql; install_ops / add_ops = the elementary steps
   of `plugin install` / `plugin repository add` after the three `fix:` commits, *_pinned = before them;
   crash ops f0 k torn = the first k steps applied, and if step k is a write, its first [torn] bytes;
   startup_db f d = what start-up decides for the configured database d:  Err = no invocation starts (listing or
   extension-handler file unreadable), Ok None = d's plugin is not installed with the required version,
   Ok (Some v) = d runs version v;  binary_of f d v = the plugin binary GetPluginBinaryPath looks for).

   The full property:
     forall f0 cfg op k torn, consistent f0 cfg -> op is an install or a repository add ->
       start-up of (crash (ops f0 op) f0 k torn) succeeds and every configured database resolves to a version whose
       binary is complete: the one it resolved to in f0, or the installed one if k = length (ops f0 op).
   It does NOT hold, even after the fixes, when an already installed version is re-installed (the old copy is
   removed before the new one is renamed into place): finding class reinstall-window, witness below.
   Proved here (hence `_partial`): every crash point and torn length of
     - an Install of a version whose directory does not exist yet — for a plugin that already has a directory
       (C27_crash_safe_partial, upgrade_ok) and for the FIRST installation of a plugin, whose repository / plugin
       directories are created before the rename (C27_crash_safe_first_installation, first_ok; plugins/ itself may
       be missing) — stated per database and for every database configuration at once;
     - AddRepository, in full.
   Together these cover every Install into a fresh version directory; the only Install outside the theorems is the
   re-installation over an existing version directory (finding reinstall-window).
   The JSON written for the handler file / repository entry is proved to decode again (Proofs/PluginsJson.v:
   json_roundtrip), for names, extensions and URLs of printable ASCII without quote, backslash, <, >, &.
   C27_new_binary_complete_general: once renamed into place the new binary has the archive member's content, for both
   kinds of fresh installation and whatever an earlier interrupted installation left in .staging.
   C27_reinstall_safe_before_window: a re-installation is safe at every crash point up to the first removal of the
   old copy — the finding class starts exactly there. *)
From Octo Require Import Plugins PluginsFs PluginsJson PluginsFsProofs PluginsFsProofs2.

(* Install, every crash point k and every torn length: for every database d (not of the reserved repository name
   ".staging") start-up decides exactly what it decided before — or, only after the rename (k beyond the staging
   phase) and only for a database of the installed plugin, the installed version; and no binary that was complete
   before is touched. *)
Theorem C27_crash_safe_partial : forall f0 i k torn d,
  upgrade_ok f0 i -> db_repo d <> staging_name ->
  let f := crash (install_ops f0 i) f0 k torn in
  (startup_db f d = startup_db f0 d \/
   (startup_db f d = Ok (Some (i_version i)) /\ is_ok (startup_db f0 d) = true /\
    db_plugin d = i_name i /\ db_repo d = i_repo i /\ (length (phaseA f0 i) < k)%nat))
  /\ (forall v c, binary_of f0 d v = Some (File c) -> binary_of f d v = Some (File c)).
Proof. exact install_crash_safe. Qed.
Print Assumptions C27_crash_safe_partial.


(* The first installation of a plugin: its directory (and possibly the repository directory and plugins/ itself) does
   not exist; MkdirAll creates them — visible to the listing as an empty plugin entry — before the staged version is
   renamed into place.  Same conclusion, every crash point k and every torn length: every database keeps exactly the
   start-up decision it had (a database of the new plugin had none: it stays unresolved until the rename), or gets the
   installed version after the rename; no complete binary is touched.
   first_ok: the plugin directory is absent, no other directory of that repository maps to the same plugin name, the
   repository directory is absent exactly when plugins/ does not list it. *)
Theorem C27_crash_safe_first_installation : forall f0 i k torn d,
  first_ok f0 i -> db_repo d <> staging_name ->
  let f := crash (install_ops f0 i) f0 k torn in
  (startup_db f d = startup_db f0 d \/
   (startup_db f d = Ok (Some (i_version i)) /\ is_ok (startup_db f0 d) = true /\
    db_plugin d = i_name i /\ db_repo d = i_repo i /\ (length (phaseA f0 i) < k)%nat))
  /\ (forall v c, binary_of f0 d v = Some (File c) -> binary_of f d v = Some (File c)).
Proof. exact install_first_crash_safe. Qed.
Print Assumptions C27_crash_safe_first_installation.

(* Non-vacuity: core/json installed for the first time next to core/pg 1.0.0 (and on an empty ~/.octosql): the
   hypotheses hold; killed after the plugin directory was created (step 10) the pg database still runs 1.0.0; after
   the complete run a json database runs 2.0.0. *)
Example C27_first_installation_satisfiable :
  first_ok Witness2.f1 Witness.inst200 /\ first_ok [] Witness.inst200 /\
  startup_db Witness2.f1 Witness2.dbpg = Ok (Some Witness.v100) /\
  startup_db (crash (install_ops Witness2.f1 Witness.inst200) Witness2.f1 10 0) Witness2.dbpg = Ok (Some Witness.v100) /\
  startup_db (crash (install_ops Witness2.f1 Witness.inst200) Witness2.f1 (length (install_ops Witness2.f1 Witness.inst200)) 0) Witness.db
    = Ok (Some Witness.v200).
Proof. split; [exact first_ok_witness|]. split; [exact first_ok_empty|exact first_witness_result]. Qed.

(* Once the version directory has been renamed into place (k beyond the staging phase), the plugin binary of the new
   version is there with exactly the content of the archive member — at every later crash point and torn length.
   (Stated for an empty staging directory at the start, archive member names distinct and different from
   archive.tar.gz.) *)
Theorem C27_new_binary_complete : forall f0 i k torn c,
  upgrade_ok f0 i ->
  (forall q, under S q = true -> fs_get f0 q = None) ->
  NoDup (map fst (i_members i)) -> ~ In s_archive (map fst (i_members i)) ->
  In (dir_of (i_name i), c) (i_members i) ->
  (length (phaseA f0 i) < k)%nat ->
  fs_get (crash (install_ops f0 i) f0 k torn) (N i ++ [dir_of (i_name i)]) = Some (File c).
Proof. exact install_new_binary. Qed.
Print Assumptions C27_new_binary_complete.

(* The same without any assumption on what .staging held at the start (RemoveAll is proved to empty it), and for the
   first installation of a plugin as well: after the rename, at every crash point and torn length, the binary of the
   new version is the archive member, byte for byte.  archive_ok: member names distinct, none is archive.tar.gz, one is
   the plugin binary. *)
Theorem C27_new_binary_complete_general : forall f0 i k torn c,
  upgrade_ok f0 i \/ first_ok f0 i -> archive_ok i c -> (length (phaseA f0 i) < k)%nat ->
  fs_get (crash (install_ops f0 i) f0 k torn) (N i ++ [dir_of (i_name i)]) = Some (File c).
Proof. exact install_new_binary_general. Qed.
Print Assumptions C27_new_binary_complete_general.

(* Re-installation (the version directory may exist): every crash point up to and including the end of the staging
   phase (k <= window_start = the index of the first removal of the old copy) leaves start-up and every binary exactly
   as they were.  The finding class reinstall-window is the crash points after that and before the rename. *)
Theorem C27_reinstall_safe_before_window : forall f0 i k torn d,
  dirs_ok f0 i -> db_repo d <> staging_name -> (k <= window_start f0 i)%nat ->
  let f := crash (install_ops f0 i) f0 k torn in
  startup_db f d = startup_db f0 d /\ (forall v, binary_of f d v = binary_of f0 d v).
Proof. exact install_safe_before_window. Qed.
Print Assumptions C27_reinstall_safe_before_window.

(* The flat JSON that Install and AddRepository write decodes to what was encoded. *)
Theorem C27_json_roundtrip : forall m, Forall safe_pair m -> json_decode (json_encode m) = Some m.
Proof. exact json_roundtrip. Qed.
Print Assumptions C27_json_roundtrip.

(* AddRepository, every crash point and torn length: start-up and all binaries are unaffected and, if every
   repository entry decoded before, every repository entry decodes afterwards. *)
Theorem C27_repository_add_crash_safe : forall f0 a k torn d,
  (forall ns, fs_get f0 (repo_tmp a) <> Some (Dir ns)) ->
  (fs_get f0 [s_repositories] = None \/ exists ns, fs_get f0 [s_repositories] = Some (Dir ns)) ->
  (forall q, under (repo_entry a) q = true -> q <> repo_entry a -> fs_get f0 q = None) ->
  (forall ns, fs_get f0 (repo_entry a) <> Some (Dir ns)) ->
  safe_str (r_url a) = true ->
  let f := crash (add_ops a) f0 k torn in
  startup_db f d = startup_db f0 d /\ (forall v, binary_of f d v = binary_of f0 d v) /\
  (repos_ok f0 = true -> repos_ok f = true).
Proof. exact add_crash_safe. Qed.
Print Assumptions C27_repository_add_crash_safe.

(* Non-vacuity: core/json 1.0.0 installed, 2.0.0 being installed; the hypotheses hold, and the finished
   installation resolves a database of type json to 2.0.0 with the archive's binary. *)
Example C27_hypotheses_satisfiable :
  upgrade_ok Witness.f0 Witness.inst200 /\
  startup_db Witness.f0 Witness.db = Ok (Some Witness.v100) /\
  let f := crash (install_ops Witness.f0 Witness.inst200) Witness.f0 (length (install_ops Witness.f0 Witness.inst200)) 0 in
  startup_db f Witness.db = Ok (Some Witness.v200) /\ binary_of f Witness.db Witness.v200 = Some (File Witness.bin2).
Proof. split; [exact upgrade_ok_witness|]. split; [vm_compute; reflexivity|exact install_witness_result]. Qed.

(* The pinned code is not crash safe: (1) killed after MkdirAll of the new version directory, the database resolves
   to a version without a binary; (2) re-installing the only version, killed after RemoveAll, nothing is installed;
   (3) killed one byte into file_extension_handlers.json, no invocation starts; (4) killed three bytes into a
   repository entry, repositories cannot be listed. *)
Theorem C27_crash_safe_refuted :
  (exists f0 i d k torn v0 v c, startup_db f0 d = Ok (Some v0) /\ binary_of f0 d v0 = Some (File c) /\
      startup_db (crash (install_ops_pinned f0 i) f0 k torn) d = Ok (Some v) /\
      binary_of (crash (install_ops_pinned f0 i) f0 k torn) d v = None) /\
  (exists f0 i d k torn v0, startup_db f0 d = Ok (Some v0) /\
      startup_db (crash (install_ops_pinned f0 i) f0 k torn) d = Ok None) /\
  (exists f0 i d k torn v0, startup_db f0 d = Ok (Some v0) /\
      startup_db (crash (install_ops_pinned f0 i) f0 k torn) d = Err e_ext) /\
  (exists f0 a k torn, repos_ok f0 = true /\ repos_ok (crash (add_ops_pinned a) f0 k torn) = false).
Proof.
  split; [|split; [|split]].
  - exists Witness.f0, Witness.inst200, Witness.db, 4%nat, 0%nat, Witness.v100, Witness.v200, Witness.bin1.
    destruct pinned_install_half_version as (A & B & C & D). auto.
  - exists Witness.f0, Witness.inst100, Witness.db, 2%nat, 0%nat, Witness.v100. exact pinned_reinstall_loses_version.
  - exists Witness.f0, Witness.inst200, Witness.db, 10%nat, 1%nat, Witness.v100. exact pinned_torn_extension_file.
  - exists Witness.f0r, Witness.add, 2%nat, 3%nat. exact pinned_torn_repository_entry.
Qed.
Print Assumptions C27_crash_safe_refuted.

(* What stays after the fixes (finding class reinstall-window): re-installing the version a database resolves to,
   killed between the first removal of the old copy and the rename of the new one. *)
Theorem C27_reinstall_window_refuted :
  exists f0 i d k v0, startup_db f0 d = Ok (Some v0) /\ reinstall_window f0 i k = true /\
    startup_db (crash (install_ops f0 i) f0 k 0) d = Ok None.
Proof.
  exists Witness.f0, Witness.inst100, Witness.db, (window_start Witness.f0 Witness.inst100 + 2)%nat, Witness.v100.
  exact reinstall_window_loses_version.
Qed.
Print Assumptions C27_reinstall_window_refuted.
