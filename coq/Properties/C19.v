(* Properties/C19.v — Stream joins are internally consistent under every schedule.
   Statements only; proofs are in Proofs/JoinsBase.v and Proofs/JoinsProofs.v.  Model: Model/Joins.v.
   [sj_step]/[sj_run_steps] is StreamJoin.Run (after the two `fix:` commits) consuming one message of one of its
   two source channels per step; a schedule is a list of (side, message); [interleave l r sigma] says sigma
   is an order-preserving merge of the two sources' message sequences l and r.  Rows are identified by
   Value.Compare = 0 (row_eqb), bags are signed multiplicities ([consolidate]).  The key expressions kl / kr are
   arbitrary functions of the record that respect row equality ([proj cols], column references, do). *)
From Octo Require Import Joins JoinsBase JoinsProofs GenJoinProofs OuterJoinProofs OuterJoinProofs2 JoinsDoneProofs ChangelogLemmas.

(* At end of stream (the node returned nil: phase Done, reached only after both sources closed) the consolidated
   output equals the relational join (NULL keys match nothing) of the complete consolidated inputs — for ALL
   scripts (any length, duplicates, retractions, NULL keys, any event times up to WatermarkMaxValue, watermarks
   in any order) and ALL interleavings, whichever side closes first.  No well-timedness is needed here.
   [phase st = Done] also excludes the Go panic on retracting a row that is absent from the tree. *)
Theorem C19_final : forall kl kr nl, key_respects kl -> key_respects kr ->
  forall l r sigma st os,
  interleave l r sigma ->
  plain_script l = true -> plain_script r = true ->
  (forall x, In x (msg_recs l) -> length (vals x) = nl) ->
  (forall x, In x (msg_recs l ++ msg_recs r) -> et x <= max_wm) ->
  sj_run_steps kl kr jinit sigma = (st, os) -> phase st = Done ->
  forall x, consolidate (records (concat os)) x =
            bag_join kl kr nl (consolidate (msg_recs l)) (consolidate (msg_recs r)) x.
Proof.
  intros kl kr nl Hkl Hkr l r sigma st os Hil Hl Hr Ha Hm.
  exact (sj_final kl kr nl Hkl Hkr l r sigma st os Hil (conj Hl (conj Hr Ha)) Hm).
Qed.
Print Assumptions C19_final.

(* Whenever a step of the join ends by emitting watermark W (after consuming the prefix pre ++ [sm] of a schedule
   of two well-timed scripts: watermarks non-decreasing per source, no record with a non-zero event time at or
   below an earlier watermark of its source), everything emitted so far consolidates to the join of all records
   received so far that have no event time or an event time <= W. *)
Theorem C19_at_watermark : forall kl kr nl, key_respects kl -> key_respects kr ->
  forall L R pre sm post st os st' o W,
  interleave L R (pre ++ sm :: post) -> JoinsProofs.scripts_ok nl L R -> scripts_timed L R ->
  sj_run_steps kl kr jinit pre = (st, os) -> sj_step kl kr st sm = (st', o ++ [WM W]) ->
  forall x, consolidate (records (concat os ++ o ++ [WM W])) x =
            bag_join kl kr nl (consolidate (restrict_le W (received SL (pre ++ [sm]))))
                              (consolidate (restrict_le W (received SR (pre ++ [sm])))) x.
Proof. exact sj_at_watermark_prefix. Qed.
Print Assumptions C19_at_watermark.

(* The bag-level join of the two theorems is the consolidation of the pairwise join of the two changelogs
   (the list the executable oracle of the differential check computes). *)
Theorem C19_join_list_is_bag_join : forall kl kr nl, key_respects kl -> key_respects kr ->
  forall L R x, (forall a, In a L -> length (vals a) = nl) ->
  consolidate (join_list kl kr L R) x = bag_join kl kr nl (consolidate L) (consolidate R) x.
Proof. exact join_list_bag. Qed.
Print Assumptions C19_join_list_is_bag_join.

(* The schedules the differential check replays (a list of sides) are interleavings, and the key expressions it
   uses (column references) respect row equality. *)
Theorem C19_merge_is_interleaving : forall c l r sigma, merge c l r = Some sigma -> interleave l r sigma.
Proof. exact merge_interleave. Qed.
Print Assumptions C19_merge_is_interleaving.
Theorem C19_column_keys_respect_rows : forall cols, key_respects (proj cols).
Proof. exact proj_respects. Qed.
Print Assumptions C19_column_keys_respect_rows.

(* The executable bag comparison of the oracles decides the equality the theorems state. *)
Theorem C19_oracle_bag_eq : forall a b, bag_eqb a b = true <-> (forall row, consolidate a row = consolidate b row).
Proof. exact bag_eqb_spec. Qed.
Print Assumptions C19_oracle_bag_eq.

(* Non-vacuity: scripts with a retraction, a duplicate key, a NULL key, zero and non-zero event times and
   watermarks, the right side closing first; the run ends in Done and a watermark is forwarded. *)
Example C19_hypotheses_satisfiable :
  let l := [MRec (mkrec [VInt 1; VInt 10] false 5); MWM 6; MRec (mkrec [VNull; VInt 11] false zero_ns);
            MRec (mkrec [VInt 1; VInt 10] true 8); MRec (mkrec [VInt 1; VInt 12] false 9); MClose] in
  let r := [MRec (mkrec [VInt 1; VInt 20] false 4); MRec (mkrec [VInt 1; VInt 21] false zero_ns); MWM 7; MClose] in
  exists sigma st os,
    merge [false; true; true; false; false; false; true; true; true; true] l r = Some sigma /\
    JoinsProofs.scripts_ok 2 l r /\ scripts_timed l r /\
    sj_run_steps k1 k1 jinit sigma = (st, os) /\ phase st = Done /\
    In (WM 6) (concat os) /\
    consolidate (records (concat os)) [VInt 1; VInt 12; VInt 1; VInt 20] = 1 /\
    consolidate (records (concat os)) [VInt 1; VInt 10; VInt 1; VInt 20] = 0.
Proof.
  eexists _, _, _. split; [vm_compute; reflexivity|]. split.
  - split; [reflexivity|]. split; [reflexivity|]. intros x H. simpl in H.
    repeat destruct H as [H|H]; subst; try reflexivity; contradiction.
  - split; [split; reflexivity|]. split; [vm_compute; reflexivity|]. split; [reflexivity|].
    split; [vm_compute; tauto|]. split; vm_compute; reflexivity.
Qed.

(* The pinned code violates C19_final: (a) after the first side closes it flushes both buffers with
   oneStreamRemains = true, so the flushed records are not inserted into their trees and pairs are lost
   (left [l(t=5,k=1); close], right [r(t=7,k=1); WM 10; close], schedule right,right,left,left,right) ... *)
Theorem C19_final_refuted :
  interleave w19_left w19_right w19_sigma /\
  let '(st, out) := sj_run_pinned k1 k1 jinit w19_sigma in
  phase st = Done /\
  consolidate (records out) [VInt 1; VInt 100; VInt 1; VInt 200] <>
  bag_join k1 k1 2 (consolidate (msg_recs w19_left)) (consolidate (msg_recs w19_right)) [VInt 1; VInt 100; VInt 1; VInt 200].
Proof. exact pinned_switch_loses_pairs. Qed.
Print Assumptions C19_final_refuted.

(* ... (b) and it joins rows whose key is NULL on both sides (the key trees compare with CompareValueSlices). *)
Theorem C19_final_null_keys_refuted :
  interleave wnull_left wnull_right wnull_sigma /\
  let '(st, out) := sj_run_pinned k1 k1 jinit wnull_sigma in
  phase st = Done /\
  consolidate (records out) [VNull; VInt 100; VNull; VInt 200] <>
  bag_join k1 k1 2 (consolidate (msg_recs wnull_left)) (consolidate (msg_recs wnull_right)) [VNull; VInt 100; VNull; VInt 200].
Proof. exact pinned_null_keys_match. Qed.
Print Assumptions C19_final_null_keys_refuted.

(* OUTER JOIN (LEFT: ol = true, RIGHT: or = true, FULL: both).  [oj_step]/[oj_run_steps] is OuterJoin.Run after the
   NULL-key fix.  The reference [outer_list] is the pairwise join plus, for each outer side, one NULL-padded row per
   record of that side whose key has no partner among the records present on the other side (NULL keys have none).
   Invariant (Appendix A.1, outer clause; Proofs/OuterJoinProofs.v): both trees = consolidated processed NULL-free
   records; output = bilinear join of the processed sets + padded rows of every processed outer-side row whose key has
   no record in the other tree; one receiveRecord changes these sums by exactly what it emits ("retract pads, emit
   matches, re-pad"; a NULL-key record is emitted padded and never inserted). *)

(* At end of stream: for ALL scripts and ALL interleavings, whichever side closes first. *)
Theorem C19_outer_final : forall kl kr ol or nl nr, key_respects kl -> key_respects kr ->
  forall l r sigma st os,
  interleave l r sigma ->
  plain_script l = true -> plain_script r = true ->
  (forall x, In x (msg_recs l) -> length (vals x) = nl) -> (forall x, In x (msg_recs r) -> length (vals x) = nr) ->
  (forall x, In x (msg_recs l ++ msg_recs r) -> et x <= max_wm) ->
  oj_run_steps kl kr ol or nl nr jinit sigma = (st, os) -> phase st = Done ->
  forall x, consolidate (records (concat os)) x =
            consolidate (outer_list kl kr ol or nl nr (msg_recs l) (msg_recs r)) x.
Proof.
  intros kl kr ol or nl nr Hkl Hkr l r sigma st os Hil Hl Hr Ha Ha' Hm.
  exact (oj_final kl kr ol or nl nr Hkl Hkr l r sigma st os Hil (conj Hl (conj Hr (conj Ha Ha'))) Hm).
Qed.
Print Assumptions C19_outer_final.

(* Whenever a step ends by emitting watermark W (well-timed scripts), the consolidated output so far is the outer join
   of the records received so far with no event time or event time <= W. *)
Theorem C19_outer_at_watermark : forall kl kr ol or nl nr, key_respects kl -> key_respects kr ->
  forall L R pre sm post st os st' o W,
  interleave L R (pre ++ sm :: post) -> GenJoinProofs.scripts_ok (arO nl nr) L R -> scripts_timed L R ->
  oj_run_steps kl kr ol or nl nr jinit pre = (st, os) -> oj_step kl kr ol or nl nr st sm = (st', o ++ [WM W]) ->
  forall x, consolidate (records (concat os ++ o ++ [WM W])) x =
            consolidate (outer_list kl kr ol or nl nr (restrict_le W (received SL (pre ++ [sm])))
                                                      (restrict_le W (received SR (pre ++ [sm])))) x.
Proof. exact oj_at_watermark_prefix. Qed.
Print Assumptions C19_outer_at_watermark.

(* The reference on consolidated bags ("bag_outer_join"): bilinear join + padded rows [pad_l] of each outer side. *)
Theorem C19_outer_list_is_bag_outer_join : forall kl kr ol or nl nr, key_respects kl -> key_respects kr ->
  forall L R x, (forall r, In r L -> length (vals r) = nl) -> (forall r, In r R -> length (vals r) = nr) ->
  consolidate (outer_list kl kr ol or nl nr L R) x =
  bag_join kl kr nl (consolidate L) (consolidate R) x +
  (if ol then pad_l kl kr nl nr SL L R x else 0) + (if or then pad_l kl kr nl nr SR R L x else 0).
Proof. intros kl kr ol or nl nr Hkl Hkr L R x. exact (outer_list_cons kl kr ol or nl nr Hkl Hkr L R x). Qed.
Print Assumptions C19_outer_list_is_bag_outer_join.

(* The pinned outer join pairs NULL keys instead of padding both rows: *)
Theorem C19_outer_final_pinned_refuted :
  let '(st, out) := oj_run_pinned k1 k1 true true 2 2 jinit wnull_sigma in
  phase st = Done /\
  ~ (forall x, consolidate (records out) x =
               consolidate (outer_list k1 k1 true true 2 2 (msg_recs wnull_left) (msg_recs wnull_right)) x).
Proof. exact pinned_outer_null_keys_match. Qed.
Print Assumptions C19_outer_final_pinned_refuted.

(* instances on the witnesses (kept from the first round; subsumed by C19_final / C19_outer_final) *)
Theorem C19_outer_final_partial :
  (let '(st, out) := sj_run k1 k1 jinit w19_sigma in
   phase st = Done /\ bag_eqb (records out) (join_list k1 k1 (msg_recs w19_left) (msg_recs w19_right)) = true) /\
  (let '(st, out) := sj_run k1 k1 jinit wnull_sigma in
   phase st = Done /\ bag_eqb (records out) (join_list k1 k1 (msg_recs wnull_left) (msg_recs wnull_right)) = true) /\
  (let '(st, out) := oj_run k1 k1 true true 2 2 jinit wnull_sigma in
   phase st = Done /\ bag_eqb (records out) (outer_list k1 k1 true true 2 2 (msg_recs wnull_left) (msg_recs wnull_right)) = true).
Proof. exact fixed_on_witnesses. Qed.
Print Assumptions C19_outer_final_partial.

(* REACHING Done.  The theorems above assume the node returned nil ([phase st = Done]).  For insert-only scripts
   ([good_script]: records without retractions and watermarks in any order, then the close — in particular batch
   inputs) EVERY interleaving ends in Done: no step of either join can hit the panic of `EventTimes[1:]` or an error. *)
Theorem C19_reaches_done : forall kl kr l r sigma,
  interleave l r sigma -> good_script l = true -> good_script r = true ->
  phase (fst (sj_run_steps kl kr jinit sigma)) = Done.
Proof.
  intros kl kr l r sigma. exact (reaches_done (recv_stream kl kr true) true (recv_stream_ins_ok kl kr true) l r sigma).
Qed.
Print Assumptions C19_reaches_done.

Theorem C19_outer_reaches_done : forall kl kr ol or nl nr l r sigma,
  interleave l r sigma -> good_script l = true -> good_script r = true ->
  phase (fst (oj_run_steps kl kr ol or nl nr jinit sigma)) = Done.
Proof.
  intros kl kr ol or nl nr l r sigma.
  exact (reaches_done (recv_outer kl kr ol or nl nr true) false (recv_outer_ins_ok kl kr ol or nl nr true) l r sigma).
Qed.
Print Assumptions C19_outer_reaches_done.

(* With retractions it is false for merely valid (never retracting an absent row, in arrival order) and well-timed
   scripts: a retraction that is processed before the insertion it retracts — one without event time while the
   insertion waits in the event-time buffer (witness below), or one with an earlier event time — reaches the panic in
   both joins.  Recorded as the finding class `retraction-overtakes-insertion` (findings/C19.txt); the exact safe class
   beyond insert-only scripts (every retraction has an own earlier insertion that is zero-time, or not later in event
   time when both are timed) is NOT proved. *)
Theorem C19_reaches_done_refuted :
  interleave wpanic_left [MClose] wpanic_sigma /\
  valid_changelog (msg_recs wpanic_left) = true /\ well_timed_from zero_ns wpanic_left = true /\
  panicked (fst (sj_run k1 k1 jinit wpanic_sigma)) = true /\
  panicked (fst (oj_run k1 k1 true true 1 1 jinit wpanic_sigma)) = true.
Proof. exact overtaking_retraction_panics. Qed.
Print Assumptions C19_reaches_done_refuted.
