(* Properties/C18.v — watermarks never go backwards and operators do not create late data.
   Statements only; proofs in Proofs/BufferProofs.v.  Models: Model/Buffer.v (RecordEventTimeBuffer as a
   sorted association list instant -> FIFO list, EventTimeBuffer.Run = etb_run / etb_run_finish incl. the
   final Emit(WatermarkMaxValue); Filter, Map, Unnest as per-record nodes handing metaSend through),
   Model/TVF.v (max_diff_watermark, tumble, poll).
     well_timed es : watermarks of es never decrease and no record with a non-zero event time is at or
                     below a watermark that precedes it
     monotone es   : watermarks of es never decrease
   The watermark handling of StreamJoin/OuterJoin and of the group-by (which wraps its source in an
   EventTimeBuffer and forwards the trigger's watermark) is modelled and proved with C19 and C16/C17. *)
From Octo Require Import Buffer TVF BufferProofs TVFProofs.
From Octo Require Joins GroupBy C18JoinProofs C18JoinProofs2 C18GroupByProofs Operators.
From Coq Require Import Sorted Permutation.

(* ---- the event-time buffer ---- *)

(* Every record is released exactly once and unchanged (any input, late records included, as long as no
   event time exceeds WatermarkMaxValue = year 2262 — later ones would never be flushed). *)
Theorem C18_buffer_releases_every_record_once : forall inp,
  c18_input_ok inp = true -> Permutation (records (etb_run_finish inp)) (records inp).
Proof. exact buffer_perm. Qed.
Print Assumptions C18_buffer_releases_every_record_once.

(* With no late input, the records that have an event time leave in event-time order and records with
   equal event times in arrival order: the output restricted to them IS the stable sort of the input
   restricted to them ... *)
Theorem C18_buffer_event_time_order : forall inp,
  well_timed inp = true -> c18_input_ok inp = true ->
  filter nonzero_time (records (etb_run_finish inp)) = et_sort (filter nonzero_time (records inp)).
Proof. exact buffer_sorted_stable. Qed.
Print Assumptions C18_buffer_event_time_order.

(* ... where et_sort l is a permutation of l, non-decreasing in event time, and keeps the relative order
   of the records of every single instant. *)
Theorem C18_et_sort_is_the_stable_sort : forall l,
  Permutation (et_sort l) l /\ StronglySorted (fun a b => et a <= et b) (et_sort l) /\
  forall t, filter (fun r => et r =? t) (et_sort l) = filter (fun r => et r =? t) l.
Proof. exact et_sort_spec. Qed.
Print Assumptions C18_et_sort_is_the_stable_sort.

(* Records without an event time are not buffered: each is handed on when it arrives, so they keep their
   order (any input). *)
Theorem C18_buffer_zero_time_straight_through : forall inp,
  (forall b r, et r = zero_ns -> etb_step b (Rec r) = (b, [Rec r])) /\
  filter (fun r => negb (nonzero_time r)) (records (etb_run_finish inp)) =
  filter (fun r => negb (nonzero_time r)) (records inp).
Proof. intro inp. split; [exact etb_step_zero_time | apply buffer_zero_time_order]. Qed.
Print Assumptions C18_buffer_zero_time_straight_through.

(* Before the first watermark at or above its event time: when the buffer forwards watermark W (any input
   prefix pre with non-decreasing watermarks), the output so far ends in WM W and the records emitted before
   it are exactly the records received so far that have no event time or an event time <= W; what is
   emitted up to there is a prefix of the whole output; everything else follows by end of stream
   (C18_buffer_releases_every_record_once). *)
Theorem C18_buffer_at_watermark : forall pre W,
  monotone (pre ++ [WM W]) = true ->
  exists o, etb_run (pre ++ [WM W]) = o ++ [WM W] /\
            Permutation (records o) (filter (released_by W) (records pre)).
Proof. exact buffer_at_watermark. Qed.
Print Assumptions C18_buffer_at_watermark.

Theorem C18_buffer_output_prefix : forall pre W post,
  exists rest, etb_run_finish (pre ++ WM W :: post) = etb_run (pre ++ [WM W]) ++ rest.
Proof. exact buffer_output_prefix. Qed.
Print Assumptions C18_buffer_output_prefix.

(* Watermarks are forwarded unchanged (any input). *)
Theorem C18_buffer_watermarks_unchanged : forall inp, watermarks (etb_run_finish inp) = watermarks inp.
Proof. exact buffer_watermarks. Qed.
Print Assumptions C18_buffer_watermarks_unchanged.

(* ---- every modelled node: monotone watermarks, no late data created ---- *)
(* nodes: EventTimeBuffer, Filter, Map, Unnest, tumble, max_diff_watermark, Limit, Distinct,
   OrderSensitiveTransform (run_node in Model/Buffer.v; the last three are the models of Model/Operators.v) *)
Theorem C18_node_monotone : forall n inp out,
  run_node n inp = Ok out -> monotone inp = true -> monotone out = true.
Proof. exact run_node_monotone. Qed.
Print Assumptions C18_node_monotone.

Theorem C18_node_no_late : forall n inp out,
  run_node n inp = Ok out -> well_timed inp = true -> well_timed out = true.
Proof. exact run_node_wt. Qed.
Print Assumptions C18_node_no_late.

(* Limit forwards its input — records and watermarks — unchanged up to and including its n-th record and
   nothing after (nothing at all for n = 0): its output is a prefix of its input. *)
Theorem C18_limit_forwards_a_prefix : forall n inp, exists rest, inp = Operators.run_limit n inp ++ rest.
Proof. exact run_limit_prefix. Qed.
Print Assumptions C18_limit_forwards_a_prefix.

(* Distinct swallows every watermark (its metaSend returns nil): "monotone" holds vacuously and downstream
   never learns about progress; the records it emits are input records, event times untouched. *)
Theorem C18_distinct_swallows_watermarks : forall inp,
  watermarks (Operators.run_distinct inp) = [] /\
  forall r, In r (records (Operators.run_distinct inp)) -> In r (records inp).
Proof. intro inp. split; [apply distinct_from_no_watermarks | intros r H; exact (distinct_from_records inp [] r H)]. Qed.
Print Assumptions C18_distinct_swallows_watermarks.

(* OrderSensitiveTransform emits only after its source ended: insertions without event time, no watermark
   (the input's are swallowed) — nothing it emits can be late. *)
Theorem C18_order_by_emits_untimed_rows : forall ks limit noretr inp out,
  Operators.run_ost ks limit noretr inp = Ok out ->
  watermarks out = [] /\ Forall (fun r => et r = zero_ns /\ retr r = false) (records out).
Proof. exact run_ost_shape. Qed.
Print Assumptions C18_order_by_emits_untimed_rows.

(* max_diff_watermark makes any stream well timed (it drops what is at or below its own watermark). *)
Theorem C18_mdw_output_well_timed : forall md res idx inp out,
  mdw_run md res idx inp = Ok out -> well_timed out = true.
Proof. exact mdw_run_wt. Qed.
Print Assumptions C18_mdw_output_well_timed.

(* poll, over a strictly increasing clock and a source without watermarks of its own, emits a well-timed
   stream (hence monotone watermarks). *)
Theorem C18_poll_well_timed : forall now loc srcs,
  (forall k, now k < now (S k)) -> zero_ns < now O -> forallb no_wms srcs = true ->
  well_timed (poll_run now loc srcs) = true.
Proof. exact poll_run_wt. Qed.
Print Assumptions C18_poll_well_timed.

(* Composition: a pipeline (source -> n1 -> n2 -> ...) of modelled nodes preserves both properties;
   more generally whatever every node preserves, every pipeline preserves. *)
Theorem C18_pipeline_no_late : forall ns inp out,
  run_pipeline ns inp = Ok out -> well_timed inp = true -> well_timed out = true.
Proof. exact run_pipeline_wt. Qed.
Print Assumptions C18_pipeline_no_late.

Theorem C18_pipeline_monotone : forall ns inp out,
  run_pipeline ns inp = Ok out -> monotone inp = true -> monotone out = true.
Proof. exact run_pipeline_monotone. Qed.
Print Assumptions C18_pipeline_monotone.

Theorem C18_composition : forall (P : list event -> Prop),
  (forall n inp out, run_node n inp = Ok out -> P inp -> P out) ->
  forall ns inp out, run_pipeline ns inp = Ok out -> P inp -> P out.
Proof. exact run_pipeline_preserves. Qed.
Print Assumptions C18_composition.

(* ---- the joins and the group-by, on the models of C19 (Model/Joins.v) and C16/C17 (Model/GroupBy.v) ---- *)

(* StreamJoin and OuterJoin (any receiveRecord, any key expressions, pinned or fixed phase switch), every
   schedule sigma of the two inputs' messages: if each input's own watermarks never decrease, the watermarks
   the join forwards never decrease. *)
Theorem C18_join_monotone : forall recv switch_flag use_mark sigma,
  C18JoinProofs.wm_mono_from zero_ns (Joins.proj_side Joins.SL sigma) = true ->
  C18JoinProofs.wm_mono_from zero_ns (Joins.proj_side Joins.SR sigma) = true ->
  monotone (snd (Joins.jrun recv switch_flag use_mark Joins.jinit sigma)) = true.
Proof. exact C18JoinProofs.join_monotone. Qed.
Print Assumptions C18_join_monotone.

(* ... and while both inputs are open each forwarded watermark is the minimum of the two inputs' latest
   watermarks, strictly above the one forwarded before ("the successive minima"). *)
Theorem C18_join_forwards_minimum : forall recv switch_flag use_mark st s w st' o,
  Joins.phase st = Joins.Both -> Joins.jstep recv switch_flag use_mark st (s, Joins.MWM w) = (st', o) ->
  watermarks o = [] \/
  (watermarks o = [Z.min (Joins.lwm st') (Joins.rwm st')] /\ Joins.minwm st < Z.min (Joins.lwm st') (Joins.rwm st') /\
   Joins.minwm st' = Z.min (Joins.lwm st') (Joins.rwm st')).
Proof. exact C18JoinProofs.join_forwards_minimum. Qed.
Print Assumptions C18_join_forwards_minimum.

(* the hypothesis of C19's theorems (each script well timed) gives the hypothesis above *)
Theorem C18_join_scripts_well_timed_suffice : forall l w,
  Joins.well_timed_from w l = true -> C18JoinProofs.wm_mono_from w l = true.
Proof. exact C18JoinProofs.well_timed_wm_mono. Qed.
Print Assumptions C18_join_scripts_well_timed_suffice.

(* No late data, inner join (StreamJoin: any key expressions, with or without the NULL-key fix, any phase-switch
   flags), every schedule: if each input is well timed and every input record carries an event time, the
   join's output is well timed — every emitted row is above the last watermark the join forwarded.
   PARTIAL with respect to the property's "every operator": (a) inner joins whose inputs contain records
   without event time are covered only when they lie outside finding class 1 by the engine's oracle (the
   hypothesis here is stronger than the complement of class_zero_time: C18_all_timed_outside_zero_time_class);
   (b) OuterJoin's record clause (outside class 2) is oracle-only: its padded rows carry stored times. *)
Theorem C18_join_no_late_partial : forall kl kr null_fix switch_flag use_mark sigma,
  Joins.well_timed_from zero_ns (Joins.proj_side Joins.SL sigma) = true ->
  Joins.well_timed_from zero_ns (Joins.proj_side Joins.SR sigma) = true ->
  C18JoinProofs2.timed (Joins.proj_side Joins.SL sigma) = true ->
  C18JoinProofs2.timed (Joins.proj_side Joins.SR sigma) = true ->
  well_timed (snd (Joins.jrun (Joins.recv_stream kl kr null_fix) switch_flag use_mark Joins.jinit sigma)) = true.
Proof. exact C18JoinProofs2.inner_join_no_late. Qed.
Print Assumptions C18_join_no_late_partial.

(* ... and each row the inner join emits for a record r carries the later of r's and its partner's event
   time, so it is never earlier than r's. *)
Theorem C18_join_row_time : forall kl kr null_fix s r flag my theirs t' out x,
  Joins.recv_stream kl kr null_fix s r flag my theirs = Ok (t', out) -> In x out ->
  exists t, et x = Joins.later (et r) t /\ et r <= et x.
Proof. exact C18JoinProofs2.inner_join_row_time. Qed.
Print Assumptions C18_join_row_time.

(* Both group-by nodes (SimpleGroupBy, CustomTriggerGroupBy behind its EventTimeBuffer), every aggregate
   vector, trigger set and key layout: exactly the input's watermarks are forwarded, in order; hence
   monotone whenever the input is. *)
Theorem C18_group_by_watermarks : forall ST rinit radd rout wl nk kti trigs es,
  watermarks (GroupBy.gb_run ST rinit radd rout wl nk kti trigs es) = watermarks es.
Proof. exact C18GroupByProofs.group_by_watermarks. Qed.
Print Assumptions C18_group_by_watermarks.

Theorem C18_group_by_monotone : forall c es out,
  GroupBy.run_group_by c es = Ok out -> monotone es = true -> monotone out = true.
Proof. exact C18GroupByProofs.run_group_by_monotone. Qed.
Print Assumptions C18_group_by_monotone.

(* The three finding classes of findings/C18.txt are the Coq predicates class_zero_time, class_padded_row,
   class_eos_key of Model/Buffer.v (c18_class); the engine's tag of every oracle-only case is compared with
   them in c18_tie.  Inputs whose records all carry an event time lie outside class 1. *)
Theorem C18_all_timed_outside_zero_time_class : forall L R,
  forallb (fun r => negb (no_event_time r)) L = true -> forallb (fun r => negb (no_event_time r)) R = true ->
  class_zero_time L R = false.
Proof. exact C18JoinProofs.all_timed_not_class_zero_time. Qed.
Print Assumptions C18_all_timed_outside_zero_time_class.

(* well_timed implies monotone *)
Theorem C18_well_timed_monotone : forall es, well_timed es = true -> monotone es = true.
Proof. intros es H. apply (wt_monotone es None H). Qed.
Print Assumptions C18_well_timed_monotone.

(* Non-vacuity: a well-timed stream with zero-time records, equal instants, out-of-order arrival. *)
Example C18_hypotheses_satisfiable :
  let r v t := Rec (mkrec [VInt v] false t) in
  let inp := [r 1 5; r 2 3; r 3 zero_ns; r 4 5; WM 4; r 5 5; r 6 9; WM 5; r 7 7] in
  well_timed inp = true /\ c18_input_ok inp = true /\
  etb_run_finish inp = [r 3 zero_ns; r 2 3; WM 4; r 1 5; r 4 5; r 5 5; WM 5; r 7 7; r 6 9].
Proof. repeat split; vm_compute; reflexivity. Qed.

(* The pinned poll stamped its retractions with the previous round's instant, after having sent that very
   instant as a watermark: late data, for every clock. *)
Theorem C18_pinned_poll_refuted :
  exists now srcs, (forall k, now k < now (S k)) /\ zero_ns < now O /\ forallb no_wms srcs = true /\
                   well_timed (poll_run_pinned now 0 srcs) = false.
Proof. exact poll_pinned_not_well_timed. Qed.
Print Assumptions C18_pinned_poll_refuted.
