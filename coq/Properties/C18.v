(* Properties/C18.v — watermarks never go backwards and operators do not create late data.
   Statements only; proofs in Proofs/BufferProofs.v.  Models: Model/Buffer.v (RecordEventTimeBuffer as a
   sorted association list instant -> FIFO list, EventTimeBuffer.Run = etb_run / etb_run_finish incl. the
   final Emit(WatermarkMaxValue); Filter, Map, Unnest as per-record nodes handing metaSend through),
   Model/TVF.v (max_diff_watermark, tumble, poll).
     well_timed es : watermarks of es never decrease and no record with a non-zero event time is at or
                     below a watermark that precedes it
     monotone es   : watermarks of es never decrease
   The watermark handling of StreamJoin/OuterJoin and of the group-by (which wraps its source in an
   EventTimeBuffer and forwards the trigger's watermark) is modelled and proved with C19 and C16/C17. *)
From Octo Require Import Buffer TVF BufferProofs TVFProofs.
From Coq Require Import Sorted Permutation.

(* ---- the event-time buffer ---- *)

(* Every record is released exactly once and unchanged (any input, late records included, as long as no
   event time exceeds WatermarkMaxValue = year 2262 — later ones would never be flushed). *)
Theorem C18_buffer_releases_every_record_once : forall inp,
  c18_input_ok inp = true -> Permutation (records (etb_run_finish inp)) (records inp).
Proof. exact buffer_perm. Qed.
Print Assumptions C18_buffer_releases_every_record_once.

(* With no late input, the records that have an event time leave in event-time order and records with
   equal event times in arrival order: the output restricted to them IS the stable sort of the input
   restricted to them ... *)
Theorem C18_buffer_event_time_order : forall inp,
  well_timed inp = true -> c18_input_ok inp = true ->
  filter nonzero_time (records (etb_run_finish inp)) = et_sort (filter nonzero_time (records inp)).
Proof. exact buffer_sorted_stable. Qed.
Print Assumptions C18_buffer_event_time_order.

(* ... where et_sort l is a permutation of l, non-decreasing in event time, and keeps the relative order
   of the records of every single instant. *)
Theorem C18_et_sort_is_the_stable_sort : forall l,
  Permutation (et_sort l) l /\ StronglySorted (fun a b => et a <= et b) (et_sort l) /\
  forall t, filter (fun r => et r =? t) (et_sort l) = filter (fun r => et r =? t) l.
Proof. exact et_sort_spec. Qed.
Print Assumptions C18_et_sort_is_the_stable_sort.

(* Records without an event time are not buffered: each is handed on when it arrives, so they keep their
   order (any input). *)
Theorem C18_buffer_zero_time_straight_through : forall inp,
  (forall b r, et r = zero_ns -> etb_step b (Rec r) = (b, [Rec r])) /\
  filter (fun r => negb (nonzero_time r)) (records (etb_run_finish inp)) =
  filter (fun r => negb (nonzero_time r)) (records inp).
Proof. intro inp. split; [exact etb_step_zero_time | apply buffer_zero_time_order]. Qed.
Print Assumptions C18_buffer_zero_time_straight_through.

(* Before the first watermark at or above its event time: when the buffer forwards watermark W (any input
   prefix pre with non-decreasing watermarks), the output so far ends in WM W and the records emitted before
   it are exactly the records received so far that have no event time or an event time <= W; what is
   emitted up to there is a prefix of the whole output; everything else follows by end of stream
   (C18_buffer_releases_every_record_once). *)
Theorem C18_buffer_at_watermark : forall pre W,
  monotone (pre ++ [WM W]) = true ->
  exists o, etb_run (pre ++ [WM W]) = o ++ [WM W] /\
            Permutation (records o) (filter (released_by W) (records pre)).
Proof. exact buffer_at_watermark. Qed.
Print Assumptions C18_buffer_at_watermark.

Theorem C18_buffer_output_prefix : forall pre W post,
  exists rest, etb_run_finish (pre ++ WM W :: post) = etb_run (pre ++ [WM W]) ++ rest.
Proof. exact buffer_output_prefix. Qed.
Print Assumptions C18_buffer_output_prefix.

(* Watermarks are forwarded unchanged (any input). *)
Theorem C18_buffer_watermarks_unchanged : forall inp, watermarks (etb_run_finish inp) = watermarks inp.
Proof. exact buffer_watermarks. Qed.
Print Assumptions C18_buffer_watermarks_unchanged.

(* ---- every modelled node: monotone watermarks, no late data created ---- *)
(* nodes: EventTimeBuffer, Filter, Map, Unnest, tumble, max_diff_watermark (run_node in Model/Buffer.v) *)
Theorem C18_node_monotone : forall n inp out,
  run_node n inp = Ok out -> monotone inp = true -> monotone out = true.
Proof. exact run_node_monotone. Qed.
Print Assumptions C18_node_monotone.

Theorem C18_node_no_late : forall n inp out,
  run_node n inp = Ok out -> well_timed inp = true -> well_timed out = true.
Proof. exact run_node_wt. Qed.
Print Assumptions C18_node_no_late.

(* max_diff_watermark makes any stream well timed (it drops what is at or below its own watermark). *)
Theorem C18_mdw_output_well_timed : forall md res idx inp out,
  mdw_run md res idx inp = Ok out -> well_timed out = true.
Proof. exact mdw_run_wt. Qed.
Print Assumptions C18_mdw_output_well_timed.

(* poll, over a strictly increasing clock and a source without watermarks of its own, emits a well-timed
   stream (hence monotone watermarks). *)
Theorem C18_poll_well_timed : forall now loc srcs,
  (forall k, now k < now (S k)) -> zero_ns < now O -> forallb no_wms srcs = true ->
  well_timed (poll_run now loc srcs) = true.
Proof. exact poll_run_wt. Qed.
Print Assumptions C18_poll_well_timed.

(* Composition: a pipeline (source -> n1 -> n2 -> ...) of modelled nodes preserves both properties;
   more generally whatever every node preserves, every pipeline preserves. *)
Theorem C18_pipeline_no_late : forall ns inp out,
  run_pipeline ns inp = Ok out -> well_timed inp = true -> well_timed out = true.
Proof. exact run_pipeline_wt. Qed.
Print Assumptions C18_pipeline_no_late.

Theorem C18_pipeline_monotone : forall ns inp out,
  run_pipeline ns inp = Ok out -> monotone inp = true -> monotone out = true.
Proof. exact run_pipeline_monotone. Qed.
Print Assumptions C18_pipeline_monotone.

Theorem C18_composition : forall (P : list event -> Prop),
  (forall n inp out, run_node n inp = Ok out -> P inp -> P out) ->
  forall ns inp out, run_pipeline ns inp = Ok out -> P inp -> P out.
Proof. exact run_pipeline_preserves. Qed.
Print Assumptions C18_composition.

(* well_timed implies monotone *)
Theorem C18_well_timed_monotone : forall es, well_timed es = true -> monotone es = true.
Proof. intros es H. apply (wt_monotone es None H). Qed.
Print Assumptions C18_well_timed_monotone.

(* Non-vacuity: a well-timed stream with zero-time records, equal instants, out-of-order arrival. *)
Example C18_hypotheses_satisfiable :
  let r v t := Rec (mkrec [VInt v] false t) in
  let inp := [r 1 5; r 2 3; r 3 zero_ns; r 4 5; WM 4; r 5 5; r 6 9; WM 5; r 7 7] in
  well_timed inp = true /\ c18_input_ok inp = true /\
  etb_run_finish inp = [r 3 zero_ns; r 2 3; WM 4; r 1 5; r 4 5; r 5 5; WM 5; r 7 7; r 6 9].
Proof. repeat split; vm_compute; reflexivity. Qed.

(* The pinned poll stamped its retractions with the previous round's instant, after having sent that very
   instant as a watermark: late data, for every clock. *)
Theorem C18_pinned_poll_refuted :
  exists now srcs, (forall k, now k < now (S k)) /\ zero_ns < now O /\ forallb no_wms srcs = true /\
                   well_timed (poll_run_pinned now 0 srcs) = false.
Proof. exact poll_pinned_not_well_timed. Qed.
Print Assumptions C18_pinned_poll_refuted.
