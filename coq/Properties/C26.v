(* Properties/C26.v — The plugin protocol carries data and predicates without change.
   Statements only; proofs are in Proofs/WireProofs.v (all tables) and Proofs/WireGenProofs.v (the generated table).
   Model: Model/Wire.v.  [to_proto]/[to_native] etc. are NativeValueToProto/ToNativeValue etc. of
   plugins/internal/plugins/plugins.go; [repopulate] is RepopulatePhysicalExpressionFunctions after the fix,
   [repopulate_pinned] the pinned one; [gen_wire_functions] is functions.FunctionMap() as regenerated on every run.
   protobuf's, encoding/json's and gRPC's own byte encodings are trusted libraries: the theorems are about what octosql
   puts into the messages and takes out of them. *)
From Octo Require Import Wire WireProofs GenWireFunctions WireGenProofs.

(* Every value (any nesting, any size; durations are int64 as in Go) comes out of ToNativeValue(NativeValueToProto(v))
   without a panic and equal to v except that every time.Time now carries the location UTC: the instant is kept. *)
Theorem C26_value_rt : forall v, value_int_ok v = true -> to_native (to_proto v) = Ok (normalise v).
Proof. exact value_roundtrip. Qed.
Print Assumptions C26_value_rt.

(* ... and that difference is invisible to Value.Compare / Equal / the hash, which only read the instant:
   the structural comparison that ignores locations calls the two equal. *)
Theorem C26_value_rt_same_instant : forall v, value_eqb (normalise v) v = true.
Proof. exact normalise_value_eqb. Qed.
Print Assumptions C26_value_rt_same_instant.

(* Every type (nested lists with or without element type, structs, tuples, unions, Any) round-trips exactly. *)
Theorem C26_type_rt : forall t, type_to_native (type_to_proto t) = Ok t.
Proof. exact type_roundtrip. Qed.
Print Assumptions C26_type_rt.

(* Schemas: fields, time field (-1 = none; it travels as int32) and the no-retractions flag. *)
Theorem C26_schema_rt : forall s, in_int32 (s_time_field s) -> schema_to_native (schema_to_proto s) = Ok s.
Proof. exact schema_roundtrip. Qed.
Print Assumptions C26_schema_rt.

(* Records: values as above, the retraction flag, the event time as an instant (Go's zero time = "no event time"
   included: it comes back as the zero time); its location becomes UTC. *)
Theorem C26_record_rt : forall r, forallb value_int_ok (r_values r) = true ->
  record_to_native (record_to_proto r) = Ok (record_normalise r).
Proof. exact record_roundtrip. Qed.
Print Assumptions C26_record_rt.

(* Watermarks (metadata messages): type and instant. *)
Theorem C26_meta_rt : forall m, in_int32 (m_type m) ->
  meta_to_native (meta_to_proto m) = mkwmeta (m_type m) (m_watermark m) loc_utc.
Proof. exact meta_roundtrip. Qed.
Print Assumptions C26_meta_rt.

(* Physical variable context: every frame, in order, nil context = no frame. *)
Theorem C26_pctx_rt : forall c, pctx_to_native (pctx_to_proto c) = Ok c.
Proof. exact pctx_roundtrip. Qed.
Print Assumptions C26_pctx_rt.

(* Execution variable context. *)
Theorem C26_ectx_rt : forall c, forallb (forallb value_int_ok) c = true ->
  ectx_to_native (ectx_to_proto c) = Ok (map (map normalise) c).
Proof. exact ectx_roundtrip. Qed.
Print Assumptions C26_ectx_rt.

(* The generated descriptor table satisfies, row by row, the condition under which resolution after transport is
   unambiguous (vm_compute over the table the code declares today: one obligation per descriptor). *)
Theorem C26_table_ok : table_ok gen_wire_functions = true.
Proof. exact gen_table_ok. Qed.
Print Assumptions C26_table_ok.

(* For every descriptor d of the table (index i under its name) and every list of argument types for which the host
   can have chosen d (any types when d declares ArgumentTypes; types its TypeFn accepts when it is declared through
   TypeFn): what json keeps of d (strip), repopulated on the other side, selects the SAME descriptor, outOk = true. *)
Theorem C26_repopulate : forall name ds i d ats,
  lookup_name gen_wire_functions name = Some ds -> nth_error ds i = Some d -> host_accepts d ats ->
  repopulate gen_wire_functions name (strip d) ats = Ok (Some i, true).
Proof. exact gen_repopulate. Qed.
Print Assumptions C26_repopulate.

(* The same for any table that satisfies the row condition (so the theorem survives new descriptors as long as the
   regenerated table still passes C26_table_ok). *)
Theorem C26_repopulate_any_table : forall tbl, table_ok tbl = true -> forall name ds i d ats,
  lookup_name tbl name = Some ds -> nth_error ds i = Some d -> host_accepts d ats ->
  repopulate tbl name (strip d) ats = Ok (Some i, true).
Proof. exact repopulate_finds_same. Qed.
Print Assumptions C26_repopulate_any_table.

(* Conversely a Function is only installed together with outOk = true, from a descriptor of that name that passes the
   four checks and whose TypeFn (if any) accepts the argument types ... *)
Theorem C26_repopulate_sound : forall name recv ats i ok,
  repopulate gen_wire_functions name recv ats = Ok (Some i, ok) ->
  ok = true /\ exists ds d, lookup_name gen_wire_functions name = Some ds /\ nth_error ds i = Some d /\
                            sig_match d recv = true /\ host_accepts d ats.
Proof. exact gen_sound. Qed.
Print Assumptions C26_repopulate_sound.

(* ... and a signature that belongs to no descriptor (or an unknown name) is rejected: outOk = false. *)
Theorem C26_unknown_rejected : forall tbl name recv ats,
  (forall ds, lookup_name tbl name = Some ds -> forall d, In d ds -> sig_match d recv = false) ->
  repopulate tbl name recv ats = Ok (None, false).
Proof. exact repopulate_rejects_unknown. Qed.
Print Assumptions C26_unknown_rejected.

(* Whole predicates: for every expression tree (variables, constants, calls, and/or, coalesce, tuples, assertions,
   casts, field accesses; any depth) whose calls the host resolved against the table, marshal -> unmarshal ->
   repopulate gives back the same tree with the same descriptor (hence the same Function) at every call, ok = true. *)
Theorem C26_predicate : forall e, well_resolved gen_wire_functions e ->
  repop_expr gen_wire_functions (strip_expr e) = Ok (e, true).
Proof. exact gen_predicate. Qed.
Print Assumptions C26_predicate.

(* Hence whatever is computed from the tree — in particular its evaluation in any variable context, which is a
   function of the tree, the descriptors' Functions and the context — is the same on both sides. *)
Theorem C26_predicate_eval : forall (A : Type) (eval : wexpr -> A) e e' ok,
  well_resolved gen_wire_functions e -> repop_expr gen_wire_functions (strip_expr e) = Ok (e', ok) ->
  ok = true /\ eval e' = eval e.
Proof. exact gen_predicate_eval. Qed.
Print Assumptions C26_predicate_eval.

(* Non-vacuity: x IN (1, 2, 3), resolved by the host to the tuple variant of "in", meets the hypotheses. *)
Example C26_hypotheses_satisfiable :
  well_resolved gen_wire_functions sample_in_tuple /\
  repop_expr gen_wire_functions (strip_expr sample_in_tuple) = Ok (sample_in_tuple, true).
Proof. split; [exact sample_in_tuple_well_resolved|vm_compute; reflexivity]. Qed.

(* The pinned code (before the `fix:` commit) violated the predicate clause: a call the host resolved to the second
   TypeFn descriptor of its name ("in" over a tuple) comes back resolved to the first one ("in" over a list) ... *)
Theorem C26_repopulate_refuted :
  exists name ds i d ats,
    lookup_name gen_wire_functions name = Some ds /\ nth_error ds i = Some d /\ host_accepts d ats /\
    exists j, repopulate_pinned gen_wire_functions name (strip d) = (Some j, true) /\ j <> i.
Proof. exact pinned_resolves_in_tuple_to_in_list. Qed.
Print Assumptions C26_repopulate_refuted.

(* ... so the predicate that arrives is not the predicate that was sent ... *)
Theorem C26_pinned_predicate_refuted :
  exists e, well_resolved gen_wire_functions e /\ repop_expr_pinned gen_wire_functions (strip_expr e) <> Ok (e, true).
Proof. exact pinned_predicate_changes. Qed.
Print Assumptions C26_pinned_predicate_refuted.

(* ... and a signature of no descriptor was accepted (outOk stayed true, Function stayed nil). *)
Theorem C26_pinned_unknown_accepted_refuted :
  exists name ds sg,
    lookup_name gen_wire_functions name = Some ds /\ (forall d, In d ds -> sig_match d sg = false) /\
    repopulate_pinned gen_wire_functions name sg = (None, true).
Proof. exact pinned_accepts_unknown_signature. Qed.
Print Assumptions C26_pinned_unknown_accepted_refuted.
