(* Properties/C16.v — Triggers change when results appear, never what the final result is.
   Statements only; proofs are in Proofs/TriggerProofs.v and Proofs/GroupByProofs.v.
   Model: Model/Triggers.v (the four triggers as state machines over ordered association lists with the
   comparators the Go code hands to google/btree) and Model/GroupBy.v:
     gb_run ST rinit radd rout wless nk kti trigs inp  = everything the node materialised for
       GROUP BY <nk key columns> <aggregates> TRIGGER <trigs> emits for the input script inp
       (SimpleGroupBy for no trigger / ON END OF STREAM alone, otherwise CustomTriggerGroupBy behind its
        EventTimeBuffer, incl. the final end-of-stream triggering);
     bag_group ... l row = multiplicity of row in the plain (batch) grouping of the records l: one row
       key ++ aggregate columns per group with a non-zero net row count, the aggregates folded over all
       the group ever received.
   The aggregates are an abstract vector (rinit/radd/rout) about which only net_determined is assumed:
   over argument histories of the right arity none of whose prefixes retracts an absent argument row, the
   aggregate columns depend only on the consolidated argument rows (what C14 proves of the real aggregates).
   The vector of COUNT and SUM(Int) models used by the executable tie satisfies it
   (C16_count_sum_net_determined), which gives the closed statement C16_final_count_sum_partial. *)
From Octo Require Import GroupBy TriggerProofs GroupByProofs GroupByProofs2 TriggerSpecProofs2 ChangelogLemmas.

(* For EVERY trigger configuration (any list of COUNTING n / ON WATERMARK / ON END OF STREAM, any n, in
   any order, with repetitions; the empty list), every input script of any length (records, retractions,
   watermarks in any order: watermarks need not even be monotone, records may be late), every key arity
   and every aggregate vector whose output is determined by the net multiset of its inputs: if the input
   is a valid changelog and stays one in the order the event-time buffer hands it on, the consolidated
   output at end of stream equals the plain grouping of the input.
   FULL STATEMENT (without the third hypothesis) is false of the code, see C16_final_refuted_by_reordering:
   recorded finding, class retraction-overtakes-insertion.  Hence the name _partial. *)
Theorem C16_final_partial :
  forall (ST : Type) (rinit : ST) (radd : bool -> list value -> ST -> ST) (rout : ST -> list value)
         (nk na : nat) (kti : option nat) (trigs : list tkind) (inp : list event),
  net_determined ST rinit radd rout nk na ->
  has_arity nk na (records inp) ->                 (* every record = nk key columns ++ na aggregate inputs *)
  valid_changelog (records inp) = true ->
  (is_simple trigs = false -> valid_changelog (records (etb_run_finish inp)) = true) ->
  (forall r, In r (records inp) -> et r <= max_wm) ->
  forall row, consolidate (records (gb_run ST rinit radd rout wless nk kti trigs inp)) row
              = bag_group ST rinit radd rout nk (records inp) row.
Proof.
  intros ST rinit radd rout nk na kti trigs inp HR HK V VD T.
  apply (gb_final ST rinit radd rout nk kti na HR trigs inp HK (valid_changelog_pvalid _ V)
           (fun S => valid_changelog_pvalid _ (VD S)) T).
Qed.
Print Assumptions C16_final_partial.

(* The assumption about the delivered order, discharged from the input alone: if all records of one row carry
   one event time (a retraction is stamped like the insertion it retracts; row_timed) and event times lie between
   Go's zero time and WatermarkMaxValue, the EventTimeBuffer keeps every row's records in their input order
   (C16_buffer_keeps_row_order), so what it delivers is a valid changelog and the final result is the grouping
   of the input for EVERY trigger configuration.  (The finding's inputs are exactly those violating row_timed.) *)
Theorem C16_final_row_timed :
  forall (ST : Type) (rinit : ST) (radd : bool -> list value -> ST -> ST) (rout : ST -> list value)
         (nk na : nat) (kti : option nat) (trigs : list tkind) (inp : list event),
  net_determined ST rinit radd rout nk na ->
  has_arity nk na (records inp) ->
  valid_changelog (records inp) = true ->
  row_timed (records inp) ->
  (forall r, In r (records inp) -> zero_ns <= et r <= max_wm) ->
  forall row, consolidate (records (gb_run ST rinit radd rout wless nk kti trigs inp)) row
              = bag_group ST rinit radd rout nk (records inp) row.
Proof.
  intros ST rinit radd rout nk na kti trigs inp HR HK V RT B.
  apply (gb_final ST rinit radd rout nk kti na HR trigs inp HK (valid_changelog_pvalid _ V)).
  - intros _. apply (delivered_valid_of_row_timed inp (valid_changelog_pvalid _ V) RT B).
  - intros r Hr. apply (proj2 (B r Hr)).
Qed.
Print Assumptions C16_final_row_timed.

Theorem C16_buffer_keeps_row_order : forall es x, row_timed (records es) ->
  (forall r, In r (records es) -> zero_ns <= et r <= max_wm) ->
  cls x (records (etb_run_finish es)) = cls x (records es).
Proof. exact etb_keeps_row_order. Qed.
Print Assumptions C16_buffer_keeps_row_order.

(* With no TRIGGER clause or ON END OF STREAM alone (SimpleGroupBy, no buffer) the statement is unconditional. *)
Theorem C16_final_simple :
  forall (ST : Type) (rinit : ST) (radd : bool -> list value -> ST -> ST) (rout : ST -> list value)
         (nk na : nat) (kti : option nat) (trigs : list tkind) (inp : list event),
  net_determined ST rinit radd rout nk na -> is_simple trigs = true ->
  has_arity nk na (records inp) -> valid_changelog (records inp) = true ->
  (forall r, In r (records inp) -> et r <= max_wm) ->
  forall row, consolidate (records (gb_run ST rinit radd rout wless nk kti trigs inp)) row
              = bag_group ST rinit radd rout nk (records inp) row.
Proof.
  intros ST rinit radd rout nk na kti trigs inp HR S HK V T.
  apply (gb_final ST rinit radd rout nk kti na HR trigs inp HK (valid_changelog_pvalid _ V)); [|exact T].
  intro S'. congruence.
Qed.
Print Assumptions C16_final_simple.

(* "the plain batch grouping of the input" is a function of the consolidated input: two valid changelogs
   with the same consolidation (e.g. the input and its insert-only expansion) have the same grouping. *)
Theorem C16_grouping_of_consolidated_input :
  forall (ST : Type) (rinit : ST) (radd : bool -> list value -> ST -> ST) (rout : ST -> list value) (nk na : nat)
         (l1 l2 : list rec),
  net_determined ST rinit radd rout nk na ->
  args_arity nk na l1 -> args_arity nk na l2 ->
  valid_changelog l1 = true -> valid_changelog l2 = true ->
  (forall row, consolidate l1 row = consolidate l2 row) ->
  forall row, bag_group ST rinit radd rout nk l1 row = bag_group ST rinit radd rout nk l2 row.
Proof.
  intros ST rinit radd rout nk na l1 l2 HR A1 A2 V1 V2 H.
  apply (bag_group_consolidated ST rinit radd rout nk na HR l1 l2 A1 A2 (valid_changelog_pvalid _ V1) (valid_changelog_pvalid _ V2) H).
Qed.
Print Assumptions C16_grouping_of_consolidated_input.

(* Whatever the input (valid or not, any delivery order) the consolidated output of the custom-trigger
   node is exactly one row per group whose running item exists: invariants G1-G4. *)
Theorem C16_output_is_current_rows :
  forall (ST : Type) (rinit : ST) (radd : bool -> list value -> ST -> ST) (rout : ST -> list value)
         (nk : nat) (kti : option nat) (trigs : list tkind) (delivered : list event),
  trigs <> [] -> has_keys nk (records delivered) ->
  forall row, consolidate (records (ctg_run ST rinit radd rout wless nk kti trigs delivered)) row
              = bag_inc ST rinit radd rout nk (records delivered) row.
Proof. exact ctg_final. Qed.
Print Assumptions C16_output_is_current_rows.

(* The two implementations agree.  On one and the same delivered stream SimpleGroupBy and
   CustomTriggerGroupBy (with ANY non-empty trigger configuration, in particular [ON END OF STREAM]) have the
   same consolidated output, for every input whatsoever (valid or not): both are one row per running group. *)
Theorem C16_two_impls_same_stream :
  forall (ST : Type) (rinit : ST) (radd : bool -> list value -> ST -> ST) (rout : ST -> list value)
         (nk : nat) (kti : option nat) (trigs : list tkind) (es : list event),
  trigs <> [] -> has_keys nk (records es) ->
  forall row, consolidate (records (ctg_run ST rinit radd rout wless nk kti trigs es)) row
              = consolidate (records (sgb_run ST rinit radd rout nk es)) row.
Proof. exact two_impls_same_stream. Qed.
Print Assumptions C16_two_impls_same_stream.

(* ... and as the planner wires them (CustomTriggerGroupBy behind its EventTimeBuffer, SimpleGroupBy without),
   under the hypotheses of C16_final_partial. *)
Theorem C16_two_impls :
  forall (ST : Type) (rinit : ST) (radd : bool -> list value -> ST -> ST) (rout : ST -> list value)
         (nk na : nat) (kti : option nat) (trigs : list tkind) (inp : list event),
  net_determined ST rinit radd rout nk na -> trigs <> [] ->
  has_arity nk na (records inp) -> valid_changelog (records inp) = true ->
  valid_changelog (records (etb_run_finish inp)) = true ->
  (forall r, In r (records inp) -> et r <= max_wm) ->
  forall row, consolidate (records (ctg_run ST rinit radd rout wless nk kti trigs (etb_run_finish inp))) row
              = consolidate (records (sgb_run ST rinit radd rout nk inp)) row.
Proof.
  intros ST rinit radd rout nk na kti trigs inp HR NE HA V VD T.
  apply (two_impls ST rinit radd rout nk kti na trigs inp HR NE HA (valid_changelog_pvalid _ V) (valid_changelog_pvalid _ VD) T).
Qed.
Print Assumptions C16_two_impls.

(* The event-time buffer in front of the node hands on exactly the records it received. *)
Theorem C16_buffer_keeps_the_bag : forall es, (forall r, In r (records es) -> et r <= max_wm) ->
  forall row, consolidate (records (etb_run_finish es)) row = consolidate (records es) row.
Proof. exact etb_consolidate. Qed.
Print Assumptions C16_buffer_keeps_the_bag.

(* The vector the group-by code builds from COUNT and SUM(Int) (NULL inputs skipped, NULL output while no
   non-NULL input is present, int64 wrap-around) is net-multiset determined, for every list of them. *)
Theorem C16_count_sum_net_determined : forall ks nk,
  net_determined (vec_state Z) (vec_init cagg Z cinit ks) (vec_add cagg Z cadd ks) (vec_out cagg Z ctrig ks) nk (length ks).
Proof. exact count_sum_net_determined. Qed.
Print Assumptions C16_count_sum_net_determined.

(* Closed form for the executable instance, on the executable hypotheses the oracle uses: for every
   configuration the planner can build (cfg_ok), every script of records of the right arity that is a valid
   changelog with event times in range, whose buffered order is valid too (delivered_valid; always true for
   SimpleGroupBy): the model runs without panic and its consolidated output is the grouping of the input. *)
Theorem C16_final_count_sum_partial : forall c inp,
  gb_input_ok (g_nk c, g_aggs c, g_kti c, g_trigs c, inp, []) = true ->
  delivered_valid (g_nk c, g_aggs c, g_kti c, g_trigs c, inp, []) = true ->
  exists out, run_group_by c inp = Ok out /\
              forall row, consolidate (records out) row = c_bag_group c (records inp) row.
Proof. exact count_sum_final. Qed.
Print Assumptions C16_final_count_sum_partial.

(* The pinned tree (before fix commit 10d331e): watermarkTriggerKey.Less used == on time.Time. *)
Theorem C16_final_refuted :
  exists c inp out row, run_group_by_pinned c inp = Ok out /\
    gb_input_ok (g_nk c, g_aggs c, g_kti c, g_trigs c, inp, out) = true /\
    valid_changelog (records (etb_run_finish inp)) = true /\
    consolidate (records out) row <> c_bag_group c (records inp) row.
Proof. exact pinned_loses_a_group. Qed.
Print Assumptions C16_final_refuted.

(* The recorded finding (class retraction-overtakes-insertion), on the fixed tree. *)
Theorem C16_final_refuted_by_reordering :
  exists c inp out row, run_group_by c inp = Ok out /\
    gb_input_ok (g_nk c, g_aggs c, g_kti c, g_trigs c, inp, out) = true /\
    valid_changelog (records (etb_run_finish inp)) = false /\
    consolidate (records out) row <> c_bag_group c (records inp) row.
Proof. exact reordered_retraction_loses_state. Qed.
Print Assumptions C16_final_refuted_by_reordering.

(* Non-vacuity: the hypotheses hold of a script with two groups whose time keys are one instant in two
   locations, a retraction, a watermark; and the fixed model groups it correctly. *)
Example C16_hypotheses_satisfiable :
  exists out, run_group_by w_cfg w_inp = Ok out /\ c_out_is_group_of w_cfg (records w_inp) (records out) = true.
Proof. exact fixed_keeps_the_group. Qed.
