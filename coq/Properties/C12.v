(* Properties/C12.v — String and pattern functions meet their specification.  Statements only; proofs are in
   Proofs/StringFnsProofs.v.  Model: Model/Strings.v (bytes, UTF-8 as Go's range loop sees it, strings.Index /
   Replace) and Model/StringFns.v (functions/functions.go "like" "~" "~*" upper lower reverse substr replace
   position len; `*_pinned` = the code before the five `fix:` commits).  Gen/GenLike.v holds the needsEscaping
   rune set read out of the source on every run.  Strings are byte lists of any length and content. *)
From Octo Require Import StringFns StringFnsProofs GenLike.
Open Scope Z_scope.

(* LIKE.  For every subject and every pattern (any bytes: regexp metacharacters, newlines, NUL, multibyte and
   invalid UTF-8), the code's result — translate the pattern rune by rune to a regexp source, compile it, match —
   equals the specification: like_parse reads `_`, `%`, `\_` `\%` `\\` and literals (any other escape: Err 1,
   trailing backslash: Err 2, the first one from the left), like_match gives `_` exactly one character, `%` any
   run of characters including newlines, a literal itself, anchored at both ends.  The regexp engine is the
   Gallina matcher of StringFns.v for the fragment the translation emits; that it agrees with Go's regexp
   package is checked differentially on every run (tie). *)
Theorem C12_like : forall s p, like_impl s p = like_spec s p.
Proof. exact like_impl_is_spec. Qed.
Print Assumptions C12_like.

(* like_match is the usual declarative relation: `%` is replaced by an arbitrary run. *)
Theorem C12_like_spec_declarative : forall l s, like_match l s = true <-> LikeMatches l s.
Proof. exact like_match_iff. Qed.
Print Assumptions C12_like_spec_declarative.

(* On the needsEscaping set as it is in the source now: every Go regexp metacharacter other than the
   backslash (which the escape state machine handles) is escaped, and everything in the set may legally be
   escaped (backslash + ASCII non-alphanumeric is that character; `\d`, `\pL` … would be classes). *)
Theorem C12_like_escapes : forall c, In c go_regexp_meta -> c <> 92 -> In c needs_escaping_set.
Proof. exact like_escapes. Qed.
Print Assumptions C12_like_escapes.
Theorem C12_like_escapes_legal : forall c, In c needs_escaping_set -> escapable c = true.
Proof. exact like_escapes_legal. Qed.
Print Assumptions C12_like_escapes_legal.

(* reverse: the characters (runes as Go decodes them; an invalid byte is one U+FFFD) in opposite order, for
   every string; the index arithmetic of the loop never leaves the slice (no Panic).  Stronger than planned
   (DESIGN.md asked for valid UTF-8 only). *)
Theorem C12_reverse : forall s, reverse_impl s = Ok (encode (rev (decode s))).
Proof. exact reverse_impl_is_spec. Qed.
Print Assumptions C12_reverse.

(* Reversal only reorders: decoding the result gives the reversed rune list (any input). *)
Theorem C12_reverse_runes : forall s out, reverse_impl s = Ok out -> decode out = rev (decode s).
Proof. exact reverse_runes. Qed.
Print Assumptions C12_reverse_runes.

(* The UTF-8 model is a codec: encoding Unicode scalar values and decoding gives them back, and the decoder
   only ever yields scalar values (U+FFFD for every malformed byte). *)
Theorem C12_utf8_roundtrip :
  (forall rs, forallb valid_rune rs = true -> decode (encode rs) = rs) /\
  (forall s, forallb valid_rune (decode s) = true).
Proof. split; [exact decode_encode|exact decode_valid]. Qed.
Print Assumptions C12_utf8_roundtrip.

(* substr never panics, and for non-negative arguments returns the bytes from offset i (at most n of them).
   The hypotheses say the arguments are int64 values and the string length fits int64 (true of every Go string). *)
Theorem C12_substr3 : forall s i n, blen s <= max_int64 -> in_int64 i -> in_int64 n ->
  (forall x, substr3_impl s i n <> Panic x) /\
  (0 <= i -> 0 <= n -> substr3_impl s i n = Ok (firstn (Z.to_nat n) (skipn (Z.to_nat i) s))).
Proof. intros s i n Hs Hi Hn. split; [intros x; apply substr3_no_panic; assumption|intros; apply substr3_ok; assumption]. Qed.
Print Assumptions C12_substr3.
Theorem C12_substr2 : forall s i,
  (forall x, substr2_impl s i <> Panic x) /\ (0 <= i -> substr2_impl s i = Ok (skipn (Z.to_nat i) s)).
Proof. intros s i. split; [intros x; apply substr2_no_panic|apply substr2_ok]. Qed.
Print Assumptions C12_substr2.
(* the oracle's Z-indexed take/drop are firstn/skipn *)
Theorem C12_substr_oracle : forall l n, ztake n l = firstn (Z.to_nat n) l /\ zdrop n l = skipn (Z.to_nat n) l.
Proof. intros l n. split; [apply ztake_firstn|apply zdrop_skipn]. Qed.
Print Assumptions C12_substr_oracle.

(* position: the byte offset of the first occurrence (s = pre ++ t ++ post with |pre| minimal), NULL exactly
   when there is none. *)
Theorem C12_position : forall s t,
  (exists i, position_impl s t = Ok (Some (Z.of_nat i)) /\ occurs_at t s i /\ forall j, occurs_at t s j -> (i <= j)%nat) \/
  (position_impl s t = Ok None /\ forall j, ~ occurs_at t s j).
Proof. exact position_spec. Qed.
Print Assumptions C12_position.

(* replace with a non-empty search string: the Index-based loop of strings.Replace (never out of fuel) equals
   the left-to-right scan replace_spec, which is characterised by the second theorem. *)
Theorem C12_replace : forall s old new, old <> [] -> replace_impl s old new = Ok (replace_spec s old new).
Proof. intros s old new H. apply replace_impl_scan. exact H. Qed.
Print Assumptions C12_replace.
Theorem C12_replace_spec : forall s old new, old <> [] ->
  (index_of old s = None -> replace_spec s old new = s) /\
  (forall i, index_of old s = Some i ->
     replace_spec s old new = firstn i s ++ new ++ replace_spec (skipn (i + length old) s) old new).
Proof. exact replace_spec_unfold. Qed.
Print Assumptions C12_replace_spec.

(* upper / lower on ASCII strings: a-z <-> A-Z, every other byte unchanged.  Beyond ASCII the reference is
   unicode.ToUpper / ToLower, compared rune by rune in the engine (differential, not a theorem). *)
Theorem C12_case_ascii_partial : forall s, forallb is_ascii s = true ->
  upper_impl s = Some (map ascii_upper s) /\ lower_impl s = Some (map ascii_lower s).
Proof. exact case_ascii. Qed.
Print Assumptions C12_case_ascii_partial.
Theorem C12_case_maps : forall b,
  (97 <= b <= 122 -> ascii_upper b = b - 32) /\ (~ 97 <= b <= 122 -> ascii_upper b = b) /\
  (65 <= b <= 90 -> ascii_lower b = b + 32) /\ (~ 65 <= b <= 90 -> ascii_lower b = b).
Proof. intros b. destruct (ascii_upper_spec b), (ascii_lower_spec b). repeat split; assumption. Qed.
Print Assumptions C12_case_maps.

(* ~* : whatever Go's matcher is, the code is the call go_match ("(?i)" ++ pattern) subject.  The matcher is a
   parameter: that ~ and ~* agree with regexp.Compile/MatchString is the engine's differential check. *)
Theorem C12_tilde_ci_partial : forall (go_match : list Z -> list Z -> outcome bool) s p,
  tilde_ci_impl go_match s p = go_match (flag_i ++ p) s.
Proof. exact tilde_ci_refines. Qed.
Print Assumptions C12_tilde_ci_partial.

(* Non-vacuity: a pattern with both wildcards, an escape, a regexp metacharacter and a multibyte subject. *)
Example C12_like_example :
  (* 'é.x%' LIKE '_.%\%' *)
  like_impl [195; 169; 46; 120; 37] [95; 46; 37; 92; 37] = Ok true /\
  like_impl [195; 169; 97; 120; 37] [95; 46; 37; 92; 37] = Ok false /\
  like_impl [97] [92; 97] = Err e_like_escape /\
  substr3_impl [97; 98; 99] 1 max_int64 = Ok [98; 99] /\
  reverse_impl [97; 195; 169] = Ok [195; 169; 97].
Proof. vm_compute. repeat split. Qed.

(* ---- the pinned code (before the `fix:` commits) violated the property ---- *)
(* 'ax' LIKE 'a|b' was true, 'a*b' LIKE 'a*b' false, '\n' LIKE '_' false; `*` was not in needsEscaping *)
Theorem C12_like_pinned_refuted :
  (exists s p, like_impl_pinned s p <> like_spec s p /\ p = [97; 124; 98]) /\
  (exists s p, like_impl_pinned s p <> like_spec s p /\ p = [97; 42; 98]) /\
  (exists s p, like_impl_pinned s p <> like_spec s p /\ p = [95]).
Proof.
  split; [exists [97; 120], [97; 124; 98]; split; [exact like_pinned_bar|reflexivity]|].
  split; [exists [97; 42; 98], [97; 42; 98]; split; [exact like_pinned_star|reflexivity]|].
  exists [10], [95]. split; [exact like_pinned_newline|reflexivity].
Qed.
Print Assumptions C12_like_pinned_refuted.
Theorem C12_like_escapes_pinned_refuted :
  exists c, In c go_regexp_meta /\ c <> 92 /\ ~ In c needs_escaping_set_pinned.
Proof. exists 42. exact like_pinned_set. Qed.
Print Assumptions C12_like_escapes_pinned_refuted.
(* reverse('aé') was "\x00éa" *)
Theorem C12_reverse_pinned_refuted : exists s, reverse_pinned s <> Ok (encode (rev (decode s))).
Proof. exists [97; 195; 169]. exact reverse_pinned_wrong. Qed.
Print Assumptions C12_reverse_pinned_refuted.
(* substr('abc', -1), substr('abc', 1, -2), substr('abc', 1, MaxInt64) panicked *)
Theorem C12_substr_pinned_refuted :
  (exists s i, is_panic (substr2_pinned s i) = true) /\
  (exists s i n, in_int64 i /\ in_int64 n /\ 0 <= i /\ 0 <= n /\ is_panic (substr3_pinned s i n) = true).
Proof.
  split; [exists [97; 98; 99], (-1); reflexivity|].
  exists [97; 98; 99], 1, max_int64. unfold in_int64, max_int64, two63. repeat split; try lia.
Qed.
Print Assumptions C12_substr_pinned_refuted.
(* 'A' ~* '\S' was false: lower-casing the pattern turns \S into \s (evaluated with the fragment matcher) *)
Theorem C12_tilde_ci_pinned_refuted :
  exists s p, tilde_ci_pinned frag_go_match s p <> frag_go_match (flag_i ++ p) s.
Proof. exists [65], [92; 83]. exact tilde_ci_pinned_wrong. Qed.
Print Assumptions C12_tilde_ci_pinned_refuted.
