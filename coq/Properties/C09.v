(* Properties/C09.v — Value ordering, equality and hashing agree.
   Statements only; proofs are in Proofs/CompareLaws.v (shared) and Proofs/C09Proofs.v.
   Model: Model/Values.v (vcompare = Value.Compare, vequal = Value.Equal, enc = the items Value.hash feeds to
   fnv1a, vhash/vhash_many = Value.Hash / HashManyValues, slices_less = execution.CompareValueSlices,
   slices_eq = the equality closure of the group-by / distinct hashmaps) and Model/C09Spec.v (the key
   equalities of the containers: eq_tree, eq_hashmap, eq_count_distinct, eq_orderby).
   All statements range over every value: any nesting depth, every float bit pattern (all NaN payloads,
   both zeros, infinities), every byte string, every instant and location. *)
From Octo Require Import Values CompareLaws C09Spec C09Proofs.

(* Compare answers -1, 0 or 1. *)
Theorem C09_range : forall a b, vcompare a b = -1 \/ vcompare a b = 0 \/ vcompare a b = 1.
Proof. exact vcompare_range. Qed.
Print Assumptions C09_range.

(* Reflexive: every value, NaN included, compares equal to itself. *)
Theorem C09_refl : forall a, vcompare a a = 0.
Proof. exact vcompare_refl. Qed.
Print Assumptions C09_refl.

(* Antisymmetric: swapping the operands negates the answer (hence a <= b and b <= a iff Compare = 0). *)
Theorem C09_antisym : forall a b, vcompare b a = - vcompare a b.
Proof. exact vcompare_antisym. Qed.
Print Assumptions C09_antisym.

(* Transitive. *)
Theorem C09_trans : forall a b c, vcompare a b <= 0 -> vcompare b c <= 0 -> vcompare a c <= 0.
Proof. exact vcompare_trans. Qed.
Print Assumptions C09_trans.

(* Total. *)
Theorem C09_total : forall a b, vcompare a b <= 0 \/ vcompare b a <= 0.
Proof. exact vcompare_total. Qed.
Print Assumptions C09_total.

(* Values that compare equal are indistinguishable to Compare (so "Compare = 0" is an equivalence and the
   order is an order on its classes). *)
Theorem C09_eq_cong : forall a b c, vcompare a b = 0 -> vcompare a c = vcompare b c.
Proof. exact vcompare_eq_cong. Qed.
Print Assumptions C09_eq_cong.

(* Values that compare equal hand the same items to the hasher — so they hash equally under any hash function. *)
Theorem C09_hash : forall a b, vcompare a b = 0 -> enc a = enc b.
Proof. exact vcompare_enc. Qed.
Print Assumptions C09_hash.

(* ... in particular under fnv1a: Value.Hash and HashManyValues. *)
Theorem C09_hash_value : forall a b, vcompare a b = 0 -> vhash a = vhash b.
Proof. exact vhash_eq. Qed.
Print Assumptions C09_hash_value.

Theorem C09_hash_many : forall ka kb, lex_cmp vcompare ka kb = 0 -> vhash_many ka = vhash_many kb.
Proof. exact vhash_many_eq. Qed.
Print Assumptions C09_hash_many.

(* The = operator (Value.Equal) is Compare = 0 except that NULL = NULL is false. *)
Theorem C09_equal : forall a b, a <> VNull \/ b <> VNull -> (vequal a b = true <-> vcompare a b = 0).
Proof. exact vequal_spec. Qed.
Print Assumptions C09_equal.

(* The hashmap equality closure and the tree comparator (CompareValueSlices) agree on keys of one length. *)
Theorem C09_slices : forall k1 k2, length k1 = length k2 ->
  (slices_eq k1 k2 = true <-> (slices_less k1 k2 = false /\ slices_less k2 k1 = false)).
Proof. exact slices_eq_iff. Qed.
Print Assumptions C09_slices.

(* Agreement: for keys of one length, "same item" in a btree under GroupKey.Less (CustomTriggerGroupBy, trigger
   and join key trees), "same key" in the SimpleGroupBy / Distinct hashmap (hash AND equality closure) and
   "same item" in the ORDER BY tree (any ASC/DESC directions) are all the relation
   row_eqb = "same length and Compare = 0 column by column". *)
Theorem C09_agree : forall k1 k2, length k1 = length k2 ->
  eq_tree k1 k2 = row_eqb k1 k2 /\
  eq_hashmap k1 k2 = row_eqb k1 k2 /\
  (forall mults, length mults = length k1 -> Forall (fun m => m = 1 \/ m = -1) mults ->
     eq_orderby mults k1 k1 k2 k2 = row_eqb k1 k2).
Proof. exact c09_agree. Qed.
Print Assumptions C09_agree.

(* ... and on single values COUNT(DISTINCT)'s map (Value.Hash AND Compare = 0), one-column keys and the
   = operator on non-NULL operands are all Compare = 0. *)
Theorem C09_agree_single : forall a b,
  eq_count_distinct a b = (vcompare a b =? 0) /\
  row_eqb [a] [b] = (vcompare a b =? 0) /\
  (a <> VNull \/ b <> VNull -> vequal a b = (vcompare a b =? 0)).
Proof. exact c09_agree_single. Qed.
Print Assumptions C09_agree_single.

(* That common relation is an equivalence. *)
Theorem C09_row_eq_refl : forall r, row_eqb r r = true.
Proof. exact row_eqb_refl. Qed.
Print Assumptions C09_row_eq_refl.
Theorem C09_row_eq_sym : forall a b, row_eqb a b = row_eqb b a.
Proof. exact row_eqb_sym. Qed.
Print Assumptions C09_row_eq_sym.
Theorem C09_row_eq_trans : forall a b c, row_eqb a b = true -> row_eqb b c = true -> row_eqb a c = true.
Proof. exact row_eqb_trans. Qed.
Print Assumptions C09_row_eq_trans.

(* Through the operators (model level): DISTINCT — and the key columns of the hashmap GROUP BY, which are the same
   list — holds exactly one representative, taken from the input, of every class of rows that are Compare-equal
   column by column; for batches of any size, rows of one arity. *)
Theorem C09_distinct_classes : forall n rows, Forall (fun r => length r = n) rows ->
  (forall r, In r rows -> exists o, In o (op_distinct rows) /\ row_eqb o r = true) /\
  (forall o, In o (op_distinct rows) -> In o rows) /\
  ForallOrdPairs (fun a b => row_eqb a b = false) (op_distinct rows).
Proof. exact op_distinct_classes. Qed.
Print Assumptions C09_distinct_classes.

Theorem C09_group_by_keys : forall rows,
  map (fun r => firstn (length r - 1) r) (op_simple_group_by rows) = op_distinct rows.
Proof. exact op_sgb_keys. Qed.
Print Assumptions C09_group_by_keys.

(* Non-vacuity: two different NaN payloads nested in a tuple next to zeros of both signs and one instant in two
   locations compare equal and hash equally, while Equal on two NULLs is false although Compare is 0. *)
Example C09_nontrivial :
  let a := VTuple [VFloat 9221120237041090561; VList [VFloat 0; VTime 1600000000000000000 1]] in
  let b := VTuple [VFloat 18444492273895866369; VList [VFloat 9223372036854775808; VTime 1600000000000000000 2]] in
  a <> b /\ vcompare a b = 0 /\ enc a = enc b /\ vequal a b = true /\
  vcompare VNull VNull = 0 /\ vequal VNull VNull = false /\
  eq_orderby [1; -1] [a; VInt 1] [a; VInt 1] [b; VInt 1] [b; VInt 1] = true.
Proof. vm_compute. repeat split; congruence. Qed.

(* The pinned code (before commit "fix: Value.Compare orders NaN consistently and equal floats hash equally")
   violated transitivity (2.0 <= NaN <= 1.0 but not 2.0 <= 1.0) and hashed +0.0 and -0.0 apart. *)
Theorem C09_pinned_trans_refuted :
  exists a b c, vcompare_pinned a b <= 0 /\ vcompare_pinned b c <= 0 /\ ~ vcompare_pinned a c <= 0.
Proof. exact pinned_compare_not_transitive. Qed.
Print Assumptions C09_pinned_trans_refuted.

Theorem C09_pinned_hash_refuted :
  exists a b, vcompare_pinned a b = 0 /\ enc_pinned a <> enc_pinned b.
Proof. exact pinned_hash_disagrees. Qed.
Print Assumptions C09_pinned_hash_refuted.
