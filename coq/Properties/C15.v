(* Properties/C15.v — Operators keep a valid changelog and compute incrementally what batch computes.
   Statements only; proofs in Proofs/OperatorsProofs.v, LookupJoinProofs.v, LimitPruneProofs.v (instance lemmas in
   Proofs/LimitOrderProofs.v).
   Model: Model/Operators.v.  run_N inp = everything node N emits when its source replays inp and ends.
   A bag is given as a list of rows [rows] with  represents rows l := forall x, count_rows rows x = consolidate l x
   (every valid changelog has one: C15_expand_represents); the batch meaning B_N is a function of [rows] only.
   Expressions are arbitrary total functions; they must not tell apart rows that Value.Compare calls equal
   (pred_congruent / map_congruent / joined_congruent / key_congruent — met by the shapes the tie uses:
   C15_tie_expressions_congruent).
   The group-by clauses of the property are carried by C16_final (Properties/C16.v) and the stream / outer join
   clauses by C19_final (Properties/C19.v); those nodes are not modelled here. *)
From Octo Require Import Operators LimitOrder OperatorsProofs LimitOrderProofs LimitPruneProofs LookupJoinProofs ChangelogLemmas.

(* the bool validity check of Model/Changelog.v means: no prefix has a negative multiplicity *)
Theorem C15_valid_meaning : forall l, valid_changelog l = true <-> (forall n x, 0 <= consolidate (firstn n l) x).
Proof. exact valid_iff. Qed.
Print Assumptions C15_valid_meaning.

Theorem C15_expand_represents : forall l, valid_changelog l = true -> represents (expand l) l.
Proof. intros l V. apply expand_represents. apply Valid_nonneg. apply valid_iff. exact V. Qed.
Print Assumptions C15_expand_represents.

(* Filter *)
Theorem C15_filter_valid : forall p inp, pred_congruent p ->
  valid_changelog (records inp) = true -> valid_changelog (records (run_filter p inp)) = true.
Proof. exact filter_valid. Qed.
Print Assumptions C15_filter_valid.
Theorem C15_filter_batch : forall p inp rows, pred_congruent p -> represents rows (records inp) ->
  forall x, consolidate (records (run_filter p inp)) x = consolidate (bag_filter p rows) x.
Proof. exact filter_batch. Qed.
Print Assumptions C15_filter_batch.

(* Map *)
Theorem C15_map_valid : forall fs inp, map_congruent fs ->
  valid_changelog (records inp) = true -> valid_changelog (records (run_map fs inp)) = true.
Proof. exact map_valid. Qed.
Print Assumptions C15_map_valid.
Theorem C15_map_batch : forall fs inp rows, map_congruent fs -> represents rows (records inp) ->
  forall x, consolidate (records (run_map fs inp)) x = consolidate (bag_map fs rows) x.
Proof. exact map_batch. Qed.
Print Assumptions C15_map_batch.

(* Unnest *)
Theorem C15_unnest_valid : forall i inp,
  valid_changelog (records inp) = true -> valid_changelog (records (run_unnest i inp)) = true.
Proof. exact unnest_valid. Qed.
Print Assumptions C15_unnest_valid.
Theorem C15_unnest_batch : forall i inp rows, represents rows (records inp) ->
  forall x, consolidate (records (run_unnest i inp)) x = consolidate (bag_unnest i rows) x.
Proof. exact unnest_batch. Qed.
Print Assumptions C15_unnest_batch.

(* LookupJoin: the joined side is a deterministic function of the source record.  The output is a valid
   changelog when the joined side only inserts (a joined side that retracts makes the node emit
   retractions before insertions for a retracted source record: C15_lookup_retracting_joined_invalid). *)
Theorem C15_lookup_join_valid : forall joined inp, joined_congruent joined -> joined_inserts joined ->
  valid_changelog (records inp) = true -> valid_changelog (records (run_lookup joined inp)) = true.
Proof. exact lookup_valid. Qed.
Print Assumptions C15_lookup_join_valid.
Theorem C15_lookup_join_batch : forall joined inp rows, joined_congruent joined -> represents rows (records inp) ->
  forall x, consolidate (records (run_lookup joined inp)) x = consolidate (bag_lookup joined rows) x.
Proof. exact lookup_batch. Qed.
Print Assumptions C15_lookup_join_batch.
Theorem C15_lookup_retracting_joined_invalid : exists joined inp, joined_congruent joined /\
  valid_changelog (records inp) = true /\ (forall x, valid_changelog (records (joined x)) = true) /\
  valid_changelog (records (run_lookup joined inp)) = false.
Proof.
  exists (fun _ => [Rec (mkrec [VInt 7] false zero_ns); Rec (mkrec [VInt 7] true zero_ns)]),
         [Rec (mkrec [VInt 1] false zero_ns); Rec (mkrec [VInt 1] true zero_ns)].
  split; [intros x y o _; reflexivity|]. split; [reflexivity|]. split; [intro; reflexivity | reflexivity].
Qed.
Print Assumptions C15_lookup_retracting_joined_invalid.

(* the exact condition on the joined side: for every source row, every prefix of what the joined side emits
   consolidates between the empty bag and the joined side's total (an insert-only joined side is the common case:
   joined_inserts_bounded).  It is sufficient, and it is necessary: the output is a valid changelog for every
   valid input if and only if it holds. *)
Theorem C15_lookup_join_valid_exact : forall joined, joined_congruent joined ->
  ((forall inp, valid_changelog (records inp) = true -> valid_changelog (records (run_lookup joined inp)) = true)
   <-> joined_bounded joined).
Proof. exact lookup_valid_exact. Qed.
Print Assumptions C15_lookup_join_valid_exact.

(* Distinct: stored count = consolidated multiplicity of the prefix, emitted bag = its support *)
Theorem C15_distinct_valid : forall n inp, arity_is n (records inp) ->
  valid_changelog (records inp) = true -> valid_changelog (records (run_distinct inp)) = true.
Proof. exact distinct_valid. Qed.
Print Assumptions C15_distinct_valid.
Theorem C15_distinct_batch : forall n inp rows, arity_is n (records inp) -> valid_changelog (records inp) = true ->
  represents rows (records inp) ->
  forall x, consolidate (records (run_distinct inp)) x = consolidate (bag_support rows) x.
Proof. exact distinct_batch. Qed.
Print Assumptions C15_distinct_batch.

(* Limit forwards a prefix of its input, so its output is a valid changelog (what it selects: C05) *)
Theorem C15_limit_valid : forall n inp,
  valid_changelog (records inp) = true -> valid_changelog (records (run_limit n inp)) = true.
Proof. exact limit_valid. Qed.
Print Assumptions C15_limit_valid.

(* LIMIT as a batch operator (no retraction possible, which is when the planner uses the Limit node):
   a sub-bag of the input with min(n, #rows) rows *)
Theorem C15_limit_batch : forall n inp rows, 0 <= n -> insert_only (records inp) = true ->
  represents rows (records inp) -> is_limit_of n rows (rows_of (run_limit n inp)).
Proof. exact limit_node_is_limit_of. Qed.
Print Assumptions C15_limit_batch.

(* ORDER BY ... LIMIT n (OrderSensitiveTransform with a limit) on a changelog with retractions
   (noRetractionsPossible = false), and on an insert-only one with the pruning (noRetractionsPossible = true):
   the output is insert-only, hence valid, and it is the first n rows of the sorted consolidated input *)
Theorem C15_order_by_limit : forall n0 ks n inp rows noretr, key_congruent ks -> 0 <= n ->
  arity_is n0 (records inp) -> valid_changelog (records inp) = true -> represents rows (records inp) ->
  (noretr = true -> insert_only (records inp) = true) ->
  exists out, run_ost ks (Some n) noretr inp = Ok out /\ insert_only (records out) = true /\ is_top_n ks n rows (rows_of out).
Proof. intros n0 ks n inp rows noretr Hk Hn Ha V R Hi. exact (ost_top_n_full n0 ks n inp rows noretr Hk Hn Ha V R Hi). Qed.
Print Assumptions C15_order_by_limit.

(* ORDER BY (OrderSensitiveTransform without limit): insert-only output, sorted by the keys, same bag as the
   consolidated input — with or without the noRetractionsPossible flag *)
Theorem C15_order_by : forall n ks noretr inp rows, key_congruent ks -> arity_is n (records inp) ->
  valid_changelog (records inp) = true -> represents rows (records inp) ->
  exists out, run_ost ks None noretr inp = Ok out /\ insert_only (records out) = true /\
              sorted_by ks (map vals (records out)) = true /\
              forall x, consolidate (records out) x = consolidate (map ins rows) x.
Proof. intros n ks noretr inp rows Hk. exact (ost_order_by n ks Hk noretr inp rows). Qed.
Print Assumptions C15_order_by.

(* the batch printer never reaches panic("received retraction before value") on a valid changelog and prints
   the consolidated input in key order.  (With a limit and noRetractionsPossible the DeleteMax pruning is active:
   C05.) *)
Theorem C15_printer_no_panic : forall n ks noretr inp rows, key_congruent ks -> arity_is n (records inp) ->
  valid_changelog (records inp) = true -> represents rows (records inp) ->
  exists out, run_printer ks None noretr inp = Ok out /\ sorted_by ks out = true /\
              forall x, count_rows out x = count_rows rows x.
Proof. intros n ks noretr inp rows Hk. exact (printer_all n ks Hk noretr inp rows). Qed.
Print Assumptions C15_printer_no_panic.
(* and it does panic on a retraction of an absent row *)
Theorem C15_printer_panics_on_invalid : run_printer [] None false [Rec (mkrec [VInt 1] true zero_ns)] = Panic 1.
Proof. reflexivity. Qed.
Print Assumptions C15_printer_panics_on_invalid.

(* the expression shapes the differential run uses satisfy the hypotheses above *)
Theorem C15_tie_expressions_congruent :
  (forall e, pred_congruent (eval e)) /\ (forall es, map_congruent (map eval es)) /\
  (forall ks, key_congruent (okeys_of ks)) /\ (forall table a b, joined_congruent (table_joined table a b)).
Proof. repeat split; [exact eval_pred_congruent | exact eval_map_congruent | exact eval_key_congruent | exact table_joined_congruent]. Qed.
Print Assumptions C15_tie_expressions_congruent.

(* Non-vacuity: a changelog with a duplicate, a retraction and a NULL is valid, has arity 2, and Distinct maps it to its support. *)
Example C15_hypotheses_satisfiable :
  let inp := [Rec (mkrec [VInt 1; VNull] false 3); Rec (mkrec [VInt 1; VNull] false zero_ns); WM 5;
              Rec (mkrec [VInt 2; VStr [97]] false 4); Rec (mkrec [VInt 1; VNull] true 6)] in
  valid_changelog (records inp) = true /\ arity_is 2 (records inp) /\
  consolidate (records inp) [VInt 1; VNull] = 1 /\ consolidate (records (run_distinct inp)) [VInt 1; VNull] = 1 /\
  represents (expand (records inp)) (records inp).
Proof.
  cbv zeta. split; [reflexivity|]. split; [intros r H; simpl in H; repeat destruct H as [H|H]; subst; try reflexivity; contradiction|].
  split; [reflexivity|]. split; [reflexivity|]. apply C15_expand_represents. reflexivity.
Qed.
