(* Properties/C04.v — Query optimization never changes results.  Statements only; proofs in Proofs/PlanLemmas.v and
   Proofs/OptimizerProofs.v.  Model: Model/Plan.v (plans with named variables, den_plan), Model/Optimizer.v (the eight
   rules and the Optimize loop, following optimizer/*.go and physical/transform.go), Gen/GenOptimizer.v (the rule
   order, regenerated from optimizer/optimize.go on every run).

   den_plan is a sequential relational semantics (a LIST of rows); equal lists are equal bags, so every statement
   below is stronger than the bag equality the property asks for.  It is quantified over: the database, the
   meaning of every function except "=" (any total function), type assertions, casts, tuples/coalesce/field access,
   every aggregate, group-key equality, which rows DISTINCT and ORDER BY+LIMIT select (any choice by position),
   table valued functions, and the enclosing record environment.
   Assumptions (see meta/C04.json): expression evaluation is total (no run-time errors: a predicate that can fail,
   e.g. an integer division, may be evaluated on more rows after a push-down); a stream join matches no NULL key
   (true after the join builder's repair; on the pinned tree see C04_pinned_join_null_key_refuted); the datasources
   reject predicate push-down (every datasource in the tree does; shape_ok requires it). *)
From Octo Require Import Plan Optimizer GenOptimizer PlanLemmas OptimizerProofs PruneProofs PruneGroupBy.

(* what "the rule r changes no result" means *)
Definition preserves (r : rule) : Prop :=
  forall db fn_sem assert_sem cast_sem other_sem agg_sem key_eqb distinct_sel ost_sel tvf_sem p p' changed,
    shape_ok p -> r p = Ok (p', changed) ->
    shape_ok p' /\ schema_of p' = schema_of p /\
    forall env, den_plan db fn_sem assert_sem cast_sem other_sem agg_sem key_eqb distinct_sel ost_sel tvf_sem p' env =
                den_plan db fn_sem assert_sem cast_sem other_sem agg_sem key_eqb distinct_sel ost_sel tvf_sem p env.

(* The plans the typechecker builds (wf_plan: checked on every generated case by the engine) are well-shaped. *)
Theorem C04_wf_shape : forall p, wf_plan p -> shape_ok p.
Proof. exact (wf_shape []). Qed.
Print Assumptions C04_wf_shape.

(* MergeFilters: sigma_p (sigma_q R) = sigma_{q AND p} R — Kleene AND is TRUE exactly when both are TRUE.
   Holds for either order of the conjuncts (c ranges over the pinned and the repaired configuration). *)
Theorem C04_merge_filters : forall c, preserves (apply_rule c "MergeFilters").
Proof. intros c db f a ca o ag k d os t. exact (filter_rule_sound db f a ca o ag k d os t c "MergeFilters" eq_refl). Qed.
Print Assumptions C04_merge_filters.

(* PushDownFilterPredicatesToDatasource, for datasources that reject push-down (all of /repo's): nothing changes. *)
Theorem C04_datasource_pushdown : forall c, preserves (apply_rule c "PushDownFilterPredicatesToDatasource").
Proof. intros c db f a ca o ag k d os t. exact (filter_rule_sound db f a ca o ag k d os t c "PushDownFilterPredicatesToDatasource" eq_refl). Qed.
Print Assumptions C04_datasource_pushdown.

(* PushDownFilterPredicatesIntoStreamJoinBranch: a conjunct none of whose variables is a field of the right branch
   filters the left branch (and symmetrically; into both when it uses neither); the others stay above. *)
Theorem C04_stream_join_branch : forall c, preserves (apply_rule c "PushDownFilterPredicatesIntoStreamJoinBranch").
Proof. intros c db f a ca o ag k d os t. exact (filter_rule_sound db f a ca o ag k d os t c "PushDownFilterPredicatesIntoStreamJoinBranch" eq_refl). Qed.
Print Assumptions C04_stream_join_branch.

(* PushDownFilterPredicatesIntoLookupJoinBranch: conjuncts not using the joined side filter the source; all others
   filter the joined side, where the source record is visible one level up (field names of the two sides disjoint). *)
Theorem C04_lookup_join_branch : forall c, preserves (apply_rule c "PushDownFilterPredicatesIntoLookupJoinBranch").
Proof. intros c db f a ca o ag k d os t. exact (filter_rule_sound db f a ca o ag k d os t c "PushDownFilterPredicatesIntoLookupJoinBranch" eq_refl). Qed.
Print Assumptions C04_lookup_join_branch.

(* PushDownFilterPredicatesIntoStreamJoinKey: a conjunct  a = b  with a on one branch and b on the other becomes a
   join key.  Depends on den_plan's stream join matching no NULL key component (key_match1): "=" is never TRUE
   on NULL.  With the pinned join (NULL key = NULL key) the statement is false: C04_pinned_join_null_key_refuted. *)
Theorem C04_join_key : forall c, preserves (apply_rule c "PushDownFilterPredicatesIntoStreamJoinKey").
Proof. intros c db f a ca o ag k d os t. exact (filter_rule_sound db f a ca o ag k d os t c "PushDownFilterPredicatesIntoStreamJoinKey" eq_refl). Qed.
Print Assumptions C04_join_key.

(* The Optimize loop over any list of the five filter rules, in any order, for EVERY fuel (= every number of
   rounds after which the Go loop stops): the result is the input's denotation.  Out of fuel is an error value,
   never a plan; termination of the Go loop is not proved.
   FULL STATEMENT (not proved):  forall c fuel p p', shape_ok p -> optimize c fuel p = Ok p' -> <same conclusion>,
   i.e. for Gen/GenOptimizer.default_optimization_rules, which also lists RemoveUnusedMapFields,
   RemoveUnusedGroupByNonKeyFields and RemoveUnusedDatasourceFields.  Missing: the lifting of the column-pruning
   laws below through the whole-plan traversals of those three rules (invariant: binder field names are unique
   across the plan, and its preservation by all eight rules).  Those rules are covered by the three ties only. *)
Theorem C04_optimize_partial : forall c rules fuel,
  Forall (fun nm => filter_rule_name nm = true) rules -> preserves (fun p => obind (optimize_with c rules fuel p) (fun q => Ok (q, true))).
Proof.
  intros c rules fuel HF db f a ca o ag k d os t p p' ch Hs H.
  destruct (optimize_with c rules fuel p) as [q| |] eqn:E; simpl in H; try discriminate. inversion H; subst.
  refine (optimize_with_sound db f a ca o ag k d os t c rules _ fuel p p' Hs E).
  eapply Forall_impl; [|exact HF]. intros nm Hn. apply filter_rule_sound. exact Hn.
Qed.
Print Assumptions C04_optimize_partial.

(* Column pruning, the local laws (the parts of the remove-unused rules that are proved):
   removing the i-th expression of a Map removes the i-th column of its output; *)
Theorem C04_map_prune_partial :
  forall db fn_sem assert_sem cast_sem other_sem agg_sem key_eqb distinct_sel ost_sel tvf_sem s es src i env,
    den_plan db fn_sem assert_sem cast_sem other_sem agg_sem key_eqb distinct_sel ost_sel tvf_sem
             (PMap (schema_remove i s) (remove_nth i es) src) env =
    map (remove_nth i) (den_plan db fn_sem assert_sem cast_sem other_sem agg_sem key_eqb distinct_sel ost_sel tvf_sem (PMap s es src) env).
Proof. exact map_prune. Qed.
Print Assumptions C04_map_prune_partial.

(* removing a field from a Datasource's schema removes that column of its rows and nothing else, provided no
   pushed-down predicate mentions it (isUsed counts those) and the field names are distinct. *)
Theorem C04_datasource_prune_partial :
  forall db fn_sem assert_sem cast_sem other_sem agg_sem key_eqb distinct_sel ost_sel tvf_sem s n al mp pol preds i f env,
    NoDup (sf s) -> last_index f (sf s) = Some i -> (forall e, In e preds -> ~ In f (expr_vars e)) ->
    den_plan db fn_sem assert_sem cast_sem other_sem agg_sem key_eqb distinct_sel ost_sel tvf_sem
             (PDatasource (schema_remove i s) n al mp pol preds) env =
    map (remove_nth i) (den_plan db fn_sem assert_sem cast_sem other_sem agg_sem key_eqb distinct_sel ost_sel tvf_sem
                                 (PDatasource s n al mp pol preds) env).
Proof. exact datasource_prune. Qed.
Print Assumptions C04_datasource_prune_partial.


(* ---- the remove-unused rules: one removal step, through the whole plan ----
   Each of the three rules is  fold over the candidate fields:  if not isUsed(f) then  step k f  (removeXField f, then
   removeFieldFromPassers f; PruneProofs.step, k = KMap / KDs / KGb).  "Same result" when a column disappears below:
   every node of the rewritten plan yields the rows of the original node with exactly that column dropped
   (PruneProofs.claim: den (step..q) env' = map (prune_row f (fields_of q)) (den q env) for environments that agree
   off f), hence at the root — whose schema does not have f, since isUsed counts the output fields — schema and rows
   are unchanged.  Hypotheses (okb k f p, decidable, node by node): the field names of every record are distinct;
   no node reads f (isUsed's test: variables of every expression, DISTINCT schemas, TVF descriptors, unnested
   fields); f is not a field of a producer of another kind (a consequence of the unique names Typecheck generates);
   no table valued function over a table below (tumble/max_diff_watermark: an arbitrary tvf_sem does not commute
   with dropping a column).
   FULL for one step of each of the three rules. *)
Theorem C04_remove_unused_map_field_step :
  forall db fn_sem assert_sem cast_sem other_sem agg_sem key_eqb distinct_sel ost_sel tvf_sem f p,
    shape_ok p -> okb KMap f p = true -> ~ In f (fields_of p) ->
    shape_ok (step KMap f p) /\ schema_of (step KMap f p) = schema_of p /\
    forall env, den_plan db fn_sem assert_sem cast_sem other_sem agg_sem key_eqb distinct_sel ost_sel tvf_sem (step KMap f p) env =
                den_plan db fn_sem assert_sem cast_sem other_sem agg_sem key_eqb distinct_sel ost_sel tvf_sem p env.
Proof. intros db f a ca o ag k d os t fd p. apply (remove_step_sound db f a ca o ag k d os t KMap fd p). discriminate. Qed.
Print Assumptions C04_remove_unused_map_field_step.

Theorem C04_remove_unused_datasource_field_step :
  forall db fn_sem assert_sem cast_sem other_sem agg_sem key_eqb distinct_sel ost_sel tvf_sem f p,
    shape_ok p -> okb KDs f p = true -> ~ In f (fields_of p) ->
    shape_ok (step KDs f p) /\ schema_of (step KDs f p) = schema_of p /\
    forall env, den_plan db fn_sem assert_sem cast_sem other_sem agg_sem key_eqb distinct_sel ost_sel tvf_sem (step KDs f p) env =
                den_plan db fn_sem assert_sem cast_sem other_sem agg_sem key_eqb distinct_sel ost_sel tvf_sem p env.
Proof. intros db f a ca o ag k d os t fd p. apply (remove_step_sound db f a ca o ag k d os t KDs fd p). discriminate. Qed.
Print Assumptions C04_remove_unused_datasource_field_step.

(* RemoveUnusedGroupByNonKeyFields: dropping an unused aggregate (never a key: okb KGb) drops exactly its column. *)
Theorem C04_remove_unused_groupby_field_step :
  forall db fn_sem assert_sem cast_sem other_sem agg_sem key_eqb distinct_sel ost_sel tvf_sem f p,
    shape_ok p -> okb KGb f p = true -> ~ In f (fields_of p) ->
    shape_ok (step KGb f p) /\ schema_of (step KGb f p) = schema_of p /\
    forall env, den_plan db fn_sem assert_sem cast_sem other_sem agg_sem key_eqb distinct_sel ost_sel tvf_sem (step KGb f p) env =
                den_plan db fn_sem assert_sem cast_sem other_sem agg_sem key_eqb distinct_sel ost_sel tvf_sem p env.
Proof. exact remove_step_sound_gb. Qed.
Print Assumptions C04_remove_unused_groupby_field_step.

(* the rules really are folds of that step *)
Theorem C04_remove_unused_is_fold_of_steps : forall c p,
  remove_unused c map_fields remove_map_field1 p =
    fold_left (fun acc f => if is_used c f (fst acc) then acc else (step KMap f (fst acc), true)) (map_fields p) (p, false) /\
  remove_unused c datasource_fields remove_datasource_field1 p =
    fold_left (fun acc f => if is_used c f (fst acc) then acc else (step KDs f (fst acc), true)) (datasource_fields p) (p, false) /\
  remove_unused c groupby_fields remove_groupby_field1 p =
    fold_left (fun acc f => if is_used c f (fst acc) then acc else (step KGb f (fst acc), true)) (groupby_fields p) (p, false).
Proof. intros c p. repeat split; reflexivity. Qed.
Print Assumptions C04_remove_unused_is_fold_of_steps.

(* Non-vacuity: a subquery's unused column (b_0 is computed by the inner map, passed through a filter, never read). *)
Local Open Scope string_scope.
Example C04_prune_hypotheses_satisfiable :
  let ds := PDatasource (mkS ["t.a_0"; "t.b_0"] (-1)) "t.csv" "t" [("t.a", "t.a_0"); ("t.b", "t.b_0")] 0 [] in
  let p := PMap (mkS ["x.a_0"] (-1)) [EVar "a_0" true]
             (PFilter (mkS ["a_0"; "b_0"] (-1)) (ECall ">" [EVar "a_0" true; EConst (VInt 1)])
                (PMap (mkS ["a_0"; "b_0"] (-1)) [EVar "t.a_0" true; EVar "t.b_0" true] ds)) in
  wf_plan p /\ okb KMap "b_0" p = true /\ ~ In "b_0" (fields_of p) /\ plan_eqb (step KMap "b_0" p) p = false /\
  apply_rule fixed_cfg "RemoveUnusedMapFields" p = Ok (step KMap "b_0" p, true).
Proof.
  repeat split; try (vm_compute; reflexivity). intros [H|[]]. discriminate.
Qed.
Local Close Scope string_scope.

(* REMAINING GAPS (stated exactly):
   (1) C04_remove_unused_map_fields / _datasource_fields / _groupby_fields as whole rules: okb k f cur must hold for every unused
       candidate f at every intermediate plan cur of the fold.  It follows from  shape_ok + "binder field names are
       unique across the plan" (+ no PTvfT), which the typechecker establishes (c04_wf checks wf_planb on every case)
       and every rule preserves; that derivation and the preservation lemmas are not proved.
   (2) (closed: C04_remove_unused_groupby_field_step.)
   (3) plans with PTvfT: needs an assumption on tvf_sem (output rows = source row ++ columns computed from the time
       field and the arguments), true of tumble and max_diff_watermark.
   (4) hence C04_optimize for the default list and C04_terminates remain open; see C04_optimize_partial. *)

(* The rule order of optimizer/optimize.go (generated) only names rules the model has. *)
Theorem C04_rule_order_modelled : forallb known_rule default_optimization_rules = true.
Proof. exact default_rules_are_modelled. Qed.
Print Assumptions C04_rule_order_modelled.

(* Non-vacuity: a typechecked join plan satisfies the hypotheses, and the key rule really rewrites it. *)
Example C04_hypotheses_satisfiable :
  wf_plan w_join_eq /\ shape_ok w_join_eq /\
  exists p', apply_rule fixed_cfg "PushDownFilterPredicatesIntoStreamJoinKey" w_join_eq = Ok (p', true) /\ shape_ok p'.
Proof. split; [|split]; try (vm_compute; reflexivity). eexists. split; vm_compute; reflexivity. Qed.

(* ---- the pinned tree ---- *)
(* (b) JOIN ... ON t.a IN (1, 2): VariablesUsed panics on the tuple, so the optimizer crashes where the
   unoptimized query runs; after the repair the same plan optimizes. *)
Theorem C04_pinned_variables_used_refuted :
  wf_plan w_in_tuple /\
  apply_rule pinned_cfg "PushDownFilterPredicatesIntoStreamJoinBranch" w_in_tuple = Panic panic_unexhaustive_expression /\
  (exists fuel, optimize pinned_cfg fuel w_in_tuple = Panic panic_unexhaustive_expression) /\
  is_ok (optimize fixed_cfg 8 w_in_tuple) = true.
Proof. exact pinned_variables_used_panics. Qed.
Print Assumptions C04_pinned_variables_used_refuted.

(* (c) SELECT x.a FROM (SELECT 1 AS a, unnest(l) AS u ...) x: the pinned RemoveUnusedMapFields deletes the field the
   Unnest consumes (Go: panic "unnest field 'u_0' not found" at Materialize); the rows differ; repaired: unchanged. *)
Theorem C04_pinned_unnest_refuted :
  wf_plan w_unnest /\
  exists p', apply_rule pinned_cfg "RemoveUnusedMapFields" w_unnest = Ok (p', true) /\
             shapeb p' = false /\
             w_den false [VList [VInt 7; VInt 8]] p' <> w_den false [VList [VInt 7; VInt 8]] w_unnest /\
             apply_rule fixed_cfg "RemoveUnusedMapFields" w_unnest = Ok (w_unnest, false).
Proof. exact pinned_unnest_field_pruned. Qed.
Print Assumptions C04_pinned_unnest_refuted.

(* (a) under the pinned stream join (NULL key matches NULL key) key extraction adds the row (NULL, NULL). *)
Theorem C04_pinned_join_null_key_refuted :
  wf_plan w_join_eq /\
  exists p', apply_rule fixed_cfg "PushDownFilterPredicatesIntoStreamJoinKey" w_join_eq = Ok (p', true) /\
             w_den true [VNull] w_join_eq = [] /\ w_den true [VNull] p' = [[VNull; VNull]] /\
             w_den false [VNull] p' = [].
Proof. exact pinned_join_null_keys_match. Qed.
Print Assumptions C04_pinned_join_null_key_refuted.
