(* Properties/C30.v — SQL formatting round-trips through the parser.  Statements only; proofs in Proofs/SqlProofs.v.
   Model: Model/Sql.v.  [print] interprets the Format templates that the translator extracts from
   parser/sqlparser/ast.go on every run (Gen/GenAstFormat.v: one template per node type, the string constants the %s
   verbs print, the %left/%right lines of sql.y); [parse] is the reference recursive-descent parser of the fragment's
   concrete syntax; [parser_image] is the inductive characterisation, level by level, of the trees the parser returns
   (an operand of lower precedence only under EParen; '-' folded into integer literals; a one-element IN list is a tuple,
   a one-element parenthesis is EParen; an inner join's right side is a table factor; …).

   Full property (properties.jsonl): for EVERY statement sqlparser.Parse accepts, Parse(String(Parse(s))) is an equivalent tree.
   What is proved below is that statement for the model fragment (widened in the deepening round):
     select_statement := SELECT [DISTINCT] items FROM table-expressions [WHERE] [GROUP BY] [HAVING] [TRIGGER …] [ORDER BY]
                         [LIMIT [offset,] n]  |  WITH name AS (select_statement), … select_statement   (nested, also in every subquery);
     items: *, t.*, expr [AS alias], expr->* ; tables: [db.]name [AS a], (subquery) AS a, (table list),
     f(arg => expr | TABLE(table-ref) | DESCRIPTOR([t.]col), …) AS a, [LOOKUP|STREAM] [INNER|CROSS] JOIN … [ON e],
     LEFT|RIGHT|OUTER JOIN factor ON e; triggers COUNTING e, ON WATERMARK, ON END OF STREAM, AFTER DELAY e;
     expressions: OR AND NOT, = < > <= >= != <=> [NOT] LIKE, [NOT] REGEXP, ~ ~* !~ !~*, [NOT] IN (list | subquery),
     [NOT] BETWEEN a AND b, EXISTS (subquery), IS [NOT] NULL|TRUE|FALSE, + - * /, unary minus,
     literals (string, integer, float incl. exponents, x'..', b'..', 0x.., bind variables, TRUE FALSE NULL), [t.]column,
     f(args) f(DISTINCT args) f( * ), CASE [e] WHEN c THEN v … [ELSE e] END, INTERVAL e unit, e::type / convert(e, type)
     with types name, [] and {}, e->field, e[i], tuples, parentheses, subqueries.
   Not covered by the theorem (only by the implementation oracle of the engine): UNION, ESCAPE, bit operators, DIV/MOD/%,
   db.t.c column names, USING, NATURAL/STRAIGHT joins, an outer join whose right side is itself an unparenthesised join,
   CAST(… AS …) as written (it prints as convert), MATCH/GROUP_CONCAT/SUBSTR forms, comments, keywords used as identifiers,
   type names or interval units, unary + ~ !, @variables, other statement kinds. *)
From Octo Require Import Sql SqlProofs.

(* For every tree of the fragment that the parser can return, parsing what the printer prints gives back exactly that tree
   (ast_equiv is Leibniz equality; no fuel appears: [parse] passes the token count, which the proof shows is enough). *)
Theorem C30_roundtrip : forall s : select, parser_image s -> parse (print s) = Ok s.
Proof. exact roundtrip. Qed.
Print Assumptions C30_roundtrip.

(* The reference parser's precedence levels agree with the %left/%right lines extracted from sql.y, and the early-return
   guards of the Format methods are the ones the printer model relies on. *)
Theorem C30_grammar_tables_match : prec_ok = true /\ guards_ok = true.
Proof. exact (conj prec_holds guards_hold). Qed.
Print Assumptions C30_grammar_tables_match.

(* Non-vacuity: a statement with DISTINCT, ->, ->*, ::, LOOKUP JOIN, a table valued function with the three argument kinds and
   an alias, LEFT JOIN on a subquery, IS NOT NULL, NOT IN, all four triggers, ORDER BY … DESC / NULL, LIMIT o, n is in the image. *)
Example C30_hypotheses_satisfiable : parser_image example_stmt /\ parse (print example_stmt) = Ok example_stmt.
Proof. exact (conj example_in_image example_roundtrips). Qed.
(* … and one with nested WITH, HAVING, CASE (both forms), NOT BETWEEN, NOT EXISTS, e->f[i], ~, NOT REGEXP, INNER-style join,
   hex / bit / 0x / bind-variable literals. *)
Example C30_hypotheses_satisfiable_2 : parser_image example_stmt2 /\ parse (print example_stmt2) = Ok example_stmt2.
Proof. exact (conj example2_in_image example2_roundtrips). Qed.

(* The pinned tree (before the fix: commits) violates the property; one witness per defective template. *)
(* Select.Format had no verb for node.Trigger: the TRIGGER clause was dropped. *)
Theorem C30_pinned_select_trigger_refuted :
  exists s, parser_image s /\ parse (print_select templates_pinned_select s) <> Ok s.
Proof. exact pinned_drops_trigger. Qed.
Print Assumptions C30_pinned_select_trigger_refuted.
(* TableValuedFunction.Format omitted the (mandatory) alias. *)
Theorem C30_pinned_tvf_alias_refuted :
  exists s, parser_image s /\ parse (print_select templates_pinned_tvf s) <> Ok s.
Proof. exact pinned_drops_tvf_alias. Qed.
Print Assumptions C30_pinned_tvf_alias_refuted.
(* JoinTableExpr.Format omitted Strategy: LOOKUP JOIN printed as JOIN. *)
Theorem C30_pinned_join_strategy_refuted :
  exists s, parser_image s /\ parse (print_select templates_pinned_join s) <> Ok s.
Proof. exact pinned_drops_lookup. Qed.
Print Assumptions C30_pinned_join_strategy_refuted.
(* EndOfStreamTrigger.Format printed ON WATERMARK: the statement re-parses, to a different tree. *)
Theorem C30_pinned_end_of_stream_refuted :
  exists s, parser_image s /\
    parse (print_select templates_pinned_eos s) = Ok (sel_of [TName [] id_t []] [TrWatermark]) /\
    s <> sel_of [TName [] id_t []] [TrWatermark].
Proof. exact pinned_eos_prints_watermark. Qed.
Print Assumptions C30_pinned_end_of_stream_refuted.
(* DelayTrigger.Format printed DELAY e; the grammar reads AFTER DELAY e: the printed statement does not parse. *)
Theorem C30_pinned_delay_refuted :
  exists s, parser_image s /\ parse (print_select templates_pinned_delay s) = Err E_syntax.
Proof. exact pinned_delay_unparsable. Qed.
Print Assumptions C30_pinned_delay_refuted.
