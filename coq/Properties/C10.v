(* Properties/C10.v — Type algebra laws.
   Statements only; proofs are in Proofs/Types{Is,Sound,SumFuel,Trans,Sum,Value}Proofs.v.
   Model: Model/Types.v — is_rel = Type.Is (Isnt / Maybe / Is), ty_equals = Type.Equals, tsum = TypeSum (at the
   fuel C10_sum_fuel shows sufficient), type_inter = TypeIntersection, non_nullable = NonNullable,
   type_of_value = Value.Type, has_type v t = "value v inhabits type t" (what a static type promises about a
   runtime value).  All statements range over every type: any nesting, any field names, unions in or out of
   normal form (nested unions, repeated TypeIDs, Any as an alternative, empty unions) unless a hypothesis says so. *)
From Octo Require Import Types TypesIsProofs TypesSoundProofs TypesSumFuel TypesTransProofs TypesSumProofs TypesValueProofs.

(* The subtype relation is reflexive — for every type, not only normal forms. *)
Theorem C10_is_refl : forall t, is_rel t t = Is.
Proof. exact is_refl. Qed.
Print Assumptions C10_is_refl.

(* ... and transitive. *)
Theorem C10_is_trans : forall a b c, is_rel a b = Is -> is_rel b c = Is -> is_rel a c = Is.
Proof. exact is_trans. Qed.
Print Assumptions C10_is_trans.

(* a Is b means what it says: every value of type a is a value of type b. *)
Theorem C10_is_sound : forall a b v, is_rel a b = Is -> has_type v a = true -> has_type v b = true.
Proof. exact is_sound. Qed.
Print Assumptions C10_is_sound.

(* The fuel of the model's TypeSum (1 + the larger container-nesting depth) always suffices: the model never
   answers "out of fuel", never reaches the "name in neither field map" panic, and the sum nests no deeper
   than its operands. *)
Theorem C10_sum_fuel : forall a b, exists r, tsum a b = Ok r /\ (tdepth r <= Nat.max (tdepth a) (tdepth b))%nat.
Proof. exact sum_fuel_enough. Qed.
Print Assumptions C10_sum_fuel.

(* TypeSum is idempotent: TypeSum(a, a) is a itself (hence Equals a). *)
Theorem C10_sum_idem : forall a, exists s, tsum a a = Ok s /\ ty_equals s a = true.
Proof. exact sum_idem_equals. Qed.
Print Assumptions C10_sum_idem.

(* TypeSum(a,b) is an upper bound of a and of b.
   FULL STATEMENT (false, see C10_sum_upper_refuted and C10_sum_upper_refuted_tuple):
     forall a b, wf_ty a = true -> wf_ty b = true -> exists s, tsum a b = Ok s /\ is_rel a s = Is /\ is_rel b s = Is.
   PROVED: for all types without struct and tuple components (st_free), normal form or not.
   NOT PROVED: types with struct / tuple components outside the finding's class (same field-name lists, strictly
   ascending, same arities at corresponding positions); there the law is only checked by the oracle on the
   generated pairs (all pairs of the small-type universe in the thorough tier). *)
Theorem C10_sum_upper_partial : forall a b, st_free a = true -> st_free b = true ->
  exists s, tsum a b = Ok s /\ is_rel a s = Is /\ is_rel b s = Is.
Proof. exact sum_upper_partial. Qed.
Print Assumptions C10_sum_upper_partial.

(* the known finding: structs with different field-name sets, tuples of different arity *)
Theorem C10_sum_upper_refuted : exists a b s, wf_ty a = true /\ wf_ty b = true /\ tsum a b = Ok s /\ is_rel a s <> Is.
Proof. exact sum_upper_refuted_struct. Qed.
Print Assumptions C10_sum_upper_refuted.
Theorem C10_sum_upper_refuted_tuple : exists a b s, wf_ty a = true /\ wf_ty b = true /\ tsum a b = Ok s /\ is_rel a s <> Is.
Proof. exact sum_upper_refuted_tuple. Qed.
Print Assumptions C10_sum_upper_refuted_tuple.

(* TypeSum is commutative up to Equals.
   FULL STATEMENT: forall a b, wf_ty a = true -> wf_ty b = true ->
                     exists s1 s2, tsum a b = Ok s1 /\ tsum b a = Ok s2 /\ ty_equals s1 s2 = true.
   PROVED: when one operand Is the other (the case in which TypeSum returns an operand).
   NOT PROVED: unrelated operands (two folds over the alternatives in different orders); checked by the oracle on
   every generated pair of normal-form types.  It is false for unions that repeat a TypeID. *)
Theorem C10_sum_comm_partial : forall a b, is_rel a b = Is \/ is_rel b a = Is ->
  exists s1 s2, tsum a b = Ok s1 /\ tsum b a = Ok s2 /\ ty_equals s1 s2 = true.
Proof. exact sum_comm_related. Qed.
Print Assumptions C10_sum_comm_partial.

(* NonNullable removes exactly the NULL alternative: a value inhabits NonNullable(t) iff it inhabits t and is not
   NULL — for every t that is not NULL itself, not Any, and whose alternatives (if it is a union) are neither
   unions nor Any (nn_shape; every normal-form type other than NULL and Any). *)
Theorem C10_nonnull : forall t v, nn_shape t = true ->
  has_type v (non_nullable t) = has_type v t && not_null v.
Proof. exact non_nullable_spec. Qed.
Print Assumptions C10_nonnull.

(* Every value matches the type it reports for itself.
   FULL STATEMENT (false, see C10_value_type_refuted): forall v, exists t, type_of_value v = Ok t /\ has_type v t = true.
   PROVED: for values whose lists hold no structs and no tuples (structs and tuples may hold anything that
   qualifies, lists may hold scalars and lists).  The rest is the TypeSum finding seen through Value.Type. *)
Theorem C10_value_type_partial : forall v, lists_flat v = true ->
  exists t, type_of_value v = Ok t /\ has_type v t = true.
Proof. exact value_type_partial. Qed.
Print Assumptions C10_value_type_partial.

Theorem C10_value_type_refuted : exists v t, type_of_value v = Ok t /\ has_type v t = false.
Proof. exact value_type_refuted_list_of_structs. Qed.
Print Assumptions C10_value_type_refuted.

(* TypeIntersection(a,b) is contained in both.
   FULL STATEMENT: forall a b i, wf_ty a = true -> wf_ty b = true -> type_inter a b = Ok (Some i) ->
                     is_rel i a = Is /\ is_rel i b = Is.
   NOT PROVED; checked by the oracle on every generated pair (outside the TypeSum finding's class). *)

(* Non-vacuity: a nested, nullable type; its non-nullable version; a value of it; the sum with a related list type. *)
Example C10_nontrivial :
  let t := TUnion [TNull; TList (Some (TUnion [TInt; TStr]))] in
  let v := VList [VInt 1; VStr [97]] in
  wf_ty t = true /\ nn_shape t = true /\ st_free t = true /\ has_type v t = true /\ has_type VNull t = true /\
  non_nullable t = TList (Some (TUnion [TInt; TStr])) /\ has_type VNull (non_nullable t) = false /\
  tsum t (TList (Some TFloat)) = Ok (TUnion [TNull; TList (Some (TUnion [TInt; TFloat; TStr]))]) /\
  type_of_value v = Ok (TList (Some (TUnion [TInt; TStr]))) /\ lists_flat v = true /\
  is_rel (TList (Some TInt)) t = Is /\ is_rel t (TUnion [TNull; TInt]) = Maybe.
Proof. vm_compute. repeat split; reflexivity. Qed.

(* The pinned code (before the two `fix:` commits): Value.Type of a struct ranged over value.Tuple, so a struct
   reported NULL for every field; TypeIntersection kept the address of the loop variable, so the result was not
   contained in the second operand. *)
Theorem C10_pinned_value_type_refuted : exists v t, type_of_value_pinned v = Ok t /\ has_type v t = false.
Proof. exact value_type_pinned_refuted. Qed.
Print Assumptions C10_pinned_value_type_refuted.

Theorem C10_pinned_inter_lower_refuted : exists a b i, type_inter_pinned a b = Ok (Some i) /\ is_rel i b <> Is.
Proof. exact inter_pinned_refuted. Qed.
Print Assumptions C10_pinned_inter_lower_refuted.
