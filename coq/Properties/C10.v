(* Properties/C10.v — Type algebra laws.
   Statements only; proofs are in Proofs/Types{Is,Sound,SumFuel,Trans,Sum,Value}Proofs.v.
   Model: Model/Types.v — is_rel = Type.Is (Isnt / Maybe / Is), ty_equals = Type.Equals, tsum = TypeSum (at the
   fuel C10_sum_fuel shows sufficient), type_inter = TypeIntersection, non_nullable = NonNullable,
   type_of_value = Value.Type, has_type v t = "value v inhabits type t" (what a static type promises about a
   runtime value).  All statements range over every type: any nesting, any field names, unions in or out of
   normal form (nested unions, repeated TypeIDs, Any as an alternative, empty unions) unless a hypothesis says so. *)
From Octo Require Import Types TypesClash TypesIsProofs TypesSoundProofs TypesSumFuel TypesTransProofs TypesSumProofs TypesValueProofs
  TypesSumProofs2 TypesInterProofs TypesWfProofs TypesValueProofs2.

(* The subtype relation is reflexive — for every type, not only normal forms. *)
Theorem C10_is_refl : forall t, is_rel t t = Is.
Proof. exact is_refl. Qed.
Print Assumptions C10_is_refl.

(* ... and transitive. *)
Theorem C10_is_trans : forall a b c, is_rel a b = Is -> is_rel b c = Is -> is_rel a c = Is.
Proof. exact is_trans. Qed.
Print Assumptions C10_is_trans.

(* a Is b means what it says: every value of type a is a value of type b. *)
Theorem C10_is_sound : forall a b v, is_rel a b = Is -> has_type v a = true -> has_type v b = true.
Proof. exact is_sound. Qed.
Print Assumptions C10_is_sound.

(* The fuel of the model's TypeSum (1 + the larger container-nesting depth) always suffices: the model never
   answers "out of fuel", never reaches the "name in neither field map" panic, and the sum nests no deeper
   than its operands. *)
Theorem C10_sum_fuel : forall a b, exists r, tsum a b = Ok r /\ (tdepth r <= Nat.max (tdepth a) (tdepth b))%nat.
Proof. exact sum_fuel_enough. Qed.
Print Assumptions C10_sum_fuel.

(* TypeSum is idempotent: TypeSum(a, a) is a itself (hence Equals a). *)
Theorem C10_sum_idem : forall a, exists s, tsum a a = Ok s /\ ty_equals s a = true.
Proof. exact sum_idem_equals. Qed.
Print Assumptions C10_sum_idem.

(* TypeSum(a,b) is an upper bound of a and of b.
   FULL STATEMENT (false, see C10_sum_upper_refuted and C10_sum_upper_refuted_tuple):
     forall a b, exists s, tsum a b = Ok s /\ is_rel a s = Is /\ is_rel b s = Is.
   PROVED on exactly the complement of the finding's class, for all types (normal form or not): *)
Theorem C10_sum_upper : forall a b, sum_clash a b = false ->
  exists s, tsum a b = Ok s /\ is_rel a s = Is /\ is_rel b s = Is.
Proof. exact sum_upper. Qed.
Print Assumptions C10_sum_upper.

(* (earlier, independent result kept: every pair of types without struct and tuple components) *)
Theorem C10_sum_upper_partial : forall a b, st_free a = true -> st_free b = true ->
  exists s, tsum a b = Ok s /\ is_rel a s = Is /\ is_rel b s = Is.
Proof. exact sum_upper_partial. Qed.
Print Assumptions C10_sum_upper_partial.

(* ... and it is the least one among normal-form types: whatever normal-form c both operands are, the sum is. *)
Theorem C10_sum_least : forall a b c s, wf_ty c = true -> sum_clash a b = false -> tsum a b = Ok s ->
  is_rel a c = Is -> is_rel b c = Is -> is_rel s c = Is.
Proof. exact sum_least. Qed.
Print Assumptions C10_sum_least.

(* TypeSum keeps the normal form (>= 2 alternatives, none a union or Any, one per TypeID, ascending; recursively). *)
Theorem C10_sum_wf : forall a b s, wf_ty a = true -> wf_ty b = true -> tsum a b = Ok s -> wf_ty s = true.
Proof. exact tsum_wf. Qed.
Print Assumptions C10_sum_wf.

(* the known finding: structs with different field-name sets, tuples of different arity *)
Theorem C10_sum_upper_refuted : exists a b s, wf_ty a = true /\ wf_ty b = true /\ tsum a b = Ok s /\ is_rel a s <> Is.
Proof. exact sum_upper_refuted_struct. Qed.
Print Assumptions C10_sum_upper_refuted.
Theorem C10_sum_upper_refuted_tuple : exists a b s, wf_ty a = true /\ wf_ty b = true /\ tsum a b = Ok s /\ is_rel a s <> Is.
Proof. exact sum_upper_refuted_tuple. Qed.
Print Assumptions C10_sum_upper_refuted_tuple.

(* the refutation witnesses lie in the class, same-shape structs / tuples do not *)
Example C10_class_examples :
  sum_clash (TStruct [([97], TInt)]) (TStruct [([98], TInt)]) = true /\
  sum_clash (TTuple [TInt]) (TTuple [TStr; TInt]) = true /\
  sum_clash (TStruct [([98], TInt); ([97], TInt)]) (TStruct [([98], TStr); ([97], TInt)]) = true /\   (* names not ascending *)
  sum_clash (TStruct [([97], TInt); ([98], TList (Some TInt))]) (TStruct [([97], TStr); ([98], TList (Some TNull))]) = false /\
  sum_clash (TTuple [TInt; TStruct [([97], TInt)]]) (TTuple [TStr; TStruct [([97], TFloat)]]) = false /\
  sum_clash (TUnion [TNull; TTuple [TInt]]) (TUnion [TInt; TTuple [TStr]]) = false.
Proof. vm_compute. repeat split; reflexivity. Qed.

(* TypeSum is commutative up to Equals.
   FULL STATEMENT: forall a b, wf_ty a = true -> wf_ty b = true ->
                     exists s1 s2, tsum a b = Ok s1 /\ tsum b a = Ok s2 /\ ty_equals s1 s2 = true.
   PROVED for all normal-form types outside the finding's class (both sums are least upper bounds and stay in
   normal form).  It is false for unions that repeat a TypeID (not normal forms). *)
Theorem C10_sum_comm : forall a b, wf_ty a = true -> wf_ty b = true -> sum_clash a b = false -> sum_clash b a = false ->
  exists s1 s2, tsum a b = Ok s1 /\ tsum b a = Ok s2 /\ ty_equals s1 s2 = true.
Proof. exact sum_comm. Qed.
Print Assumptions C10_sum_comm.

(* (earlier result kept: any types, normal form or not, one of which Is the other) *)
Theorem C10_sum_comm_partial : forall a b, is_rel a b = Is \/ is_rel b a = Is ->
  exists s1 s2, tsum a b = Ok s1 /\ tsum b a = Ok s2 /\ ty_equals s1 s2 = true.
Proof. exact sum_comm_related. Qed.
Print Assumptions C10_sum_comm_partial.

(* NonNullable removes exactly the NULL alternative: a value inhabits NonNullable(t) iff it inhabits t and is not
   NULL — for every t that is not NULL itself, not Any, and whose alternatives (if it is a union) are neither
   unions nor Any (nn_shape; every normal-form type other than NULL and Any). *)
Theorem C10_nonnull : forall t v, nn_shape t = true ->
  has_type v (non_nullable t) = has_type v t && not_null v.
Proof. exact non_nullable_spec. Qed.
Print Assumptions C10_nonnull.

(* Every value matches the type it reports for itself.
   FULL STATEMENT (false, see C10_value_type_refuted): forall v, exists t, type_of_value v = Ok t /\ has_type v t = true.
   PROVED on exactly the complement of the finding's class: values for which Value.Type sums no types of different
   shapes — lists may hold structs and tuples of equal shape, any nesting. *)
Theorem C10_value_type : forall v, value_clash v = false ->
  exists t, type_of_value v = Ok t /\ has_type v t = true.
Proof. exact value_type_noclash. Qed.
Print Assumptions C10_value_type.

(* (earlier result kept: values whose lists hold no structs and no tuples) *)
Theorem C10_value_type_partial : forall v, lists_flat v = true ->
  exists t, type_of_value v = Ok t /\ has_type v t = true.
Proof. exact value_type_partial. Qed.
Print Assumptions C10_value_type_partial.

Theorem C10_value_type_refuted : exists v t, type_of_value v = Ok t /\ has_type v t = false.
Proof. exact value_type_refuted_list_of_structs. Qed.
Print Assumptions C10_value_type_refuted.

(* TypeIntersection(a,b) is contained in both (after the fix of the loop-variable aliasing), for normal-form
   operands outside the finding's class (the intersection accumulates its result with TypeSum).
   For operands that are not normal forms (a union with two list alternatives ...) it can fail; not claimed. *)
Theorem C10_inter_lower : forall a b t, wf_ty a = true -> wf_ty b = true -> inter_clash a b = false ->
  type_inter a b = Ok (Some t) -> is_rel t a = Is /\ is_rel t b = Is.
Proof. exact inter_lower. Qed.
Print Assumptions C10_inter_lower.

Example C10_inter_nontrivial :
  let a := TUnion [TNull; TInt; TList (Some (TUnion [TInt; TStr]))] in
  let b := TUnion [TInt; TStr; TList (Some TAny)] in
  wf_ty a = true /\ wf_ty b = true /\ inter_clash a b = false /\
  type_inter a b = Ok (Some (TUnion [TInt; TList (Some (TUnion [TInt; TStr]))])).
Proof. vm_compute. repeat split; reflexivity. Qed.

(* Non-vacuity: a nested, nullable type; its non-nullable version; a value of it; the sum with a related list type. *)
Example C10_nontrivial :
  let t := TUnion [TNull; TList (Some (TUnion [TInt; TStr]))] in
  let v := VList [VInt 1; VStr [97]] in
  wf_ty t = true /\ nn_shape t = true /\ st_free t = true /\ has_type v t = true /\ has_type VNull t = true /\
  non_nullable t = TList (Some (TUnion [TInt; TStr])) /\ has_type VNull (non_nullable t) = false /\
  tsum t (TList (Some TFloat)) = Ok (TUnion [TNull; TList (Some (TUnion [TInt; TFloat; TStr]))]) /\
  type_of_value v = Ok (TList (Some (TUnion [TInt; TStr]))) /\ lists_flat v = true /\
  is_rel (TList (Some TInt)) t = Is /\ is_rel t (TUnion [TNull; TInt]) = Maybe.
Proof. vm_compute. repeat split; reflexivity. Qed.

(* The pinned code (before the two `fix:` commits): Value.Type of a struct ranged over value.Tuple, so a struct
   reported NULL for every field; TypeIntersection kept the address of the loop variable, so the result was not
   contained in the second operand. *)
Theorem C10_pinned_value_type_refuted : exists v t, type_of_value_pinned v = Ok t /\ has_type v t = false.
Proof. exact value_type_pinned_refuted. Qed.
Print Assumptions C10_pinned_value_type_refuted.

Theorem C10_pinned_inter_lower_refuted : exists a b i, type_inter_pinned a b = Ok (Some i) /\ is_rel i b <> Is.
Proof. exact inter_pinned_refuted. Qed.
Print Assumptions C10_pinned_inter_lower_refuted.
