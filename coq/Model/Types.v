(* Model/Types.v — octosql/types.go: Type, Is, Equals, TypeSum, TypeIntersection, NonNullable;
   Value.Type of octosql/values.go; and the semantic judgement "value v inhabits type t".
   Executable definitions only.  Follows the code of /repo construct by construct. *)
From Octo Require Export Values.

Inductive ty : Type :=
| TNull | TInt | TFloat | TBool | TStr | TTime | TDur
| TList (e : option ty)                     (* List.Element is a *Type; nil = "[]", the type of the empty list *)
| TStruct (fs : list (list Z * ty))         (* field name (bytes), field type — in layout order *)
| TTuple (es : list ty)
| TUnion (alts : list ty)
| TAny.

(* TypeID constants, in the order of the iota block *)
Definition tyid (t : ty) : Z :=
  match t with
  | TNull => 0 | TInt => 1 | TFloat => 2 | TBool => 3 | TStr => 4 | TTime => 5 | TDur => 6
  | TList _ => 7 | TStruct _ => 8 | TTuple _ => 9 | TUnion _ => 10 | TAny => 11
  end.

Inductive rel : Type := Isnt | Maybe | Is.      (* TypeRelationIsnt < TypeRelationMaybe < TypeRelationIs *)
Definition rel_rank (r : rel) : Z := match r with Isnt => 0 | Maybe => 1 | Is => 2 end.
Definition rel_max (a b : rel) : rel := if rel_rank a <? rel_rank b then b else a.
Definition is_Is (r : rel) : bool := match r with Is => true | _ => false end.
Definition rel_eqb (a b : rel) : bool := rel_rank a =? rel_rank b.

Definition bytes_eqb (a b : list Z) : bool := list_eqb Z.eqb a b.

(* the loop of Is over a union's alternatives: allFit -> Is, anyFits -> Maybe, else Isnt *)
Definition union_rel (rs : list rel) : rel :=
  if forallb is_Is rs then Is
  else if existsb (fun r => match r with Isnt => false | _ => true end) rs then Maybe
  else Isnt.

(* Type.Is, in the order of the Go cases: other = Any; t a union; other a union; List; Struct; Tuple; same TypeID.
   (Written with the test on [other] repeated inside each case of [t] so that the term stays small.) *)
Definition is_any (t : ty) : bool := match t with TAny => true | _ => false end.
Fixpoint is_rel (t : ty) : ty -> rel :=
  fix inner (other : ty) : rel :=
    if is_any other then Is else
    match t with
    | TUnion alts => union_rel (map (fun a => is_rel a other) alts)
    | TList e =>
        match other with
        | TUnion oalts => fold_left rel_max (map inner oalts) Isnt
        | TList oe =>
            match e, oe with
            | None, _ => Is
            | Some _, None => Isnt
            | Some x, Some y => if is_Is (is_rel x y) then Is else Isnt
            end
        | _ => Isnt
        end
    | TStruct fs =>
        match other with
        | TUnion oalts => fold_left rel_max (map inner oalts) Isnt
        | TStruct ofs =>
            (fix go (fs ofs : list (list Z * ty)) : rel :=
               match fs, ofs with
               | [], [] => Is
               | (n, ft) :: fs', (m, oft) :: ofs' =>
                   if negb (bytes_eqb n m) then Isnt
                   else if is_Is (is_rel ft oft) then go fs' ofs' else Isnt
               | _, _ => Isnt                     (* different number of fields *)
               end) fs ofs
        | _ => Isnt
        end
    | TTuple es =>
        match other with
        | TUnion oalts => fold_left rel_max (map inner oalts) Isnt
        | TTuple oes =>
            (fix go (es oes : list ty) : rel :=
               match es, oes with
               | [], [] => Is
               | x :: es', y :: oes' => if is_Is (is_rel x y) then go es' oes' else Isnt
               | _, _ => Isnt
               end) es oes
        | _ => Isnt
        end
    | _ =>
        match other with
        | TUnion oalts => fold_left rel_max (map inner oalts) Isnt
        | _ => if tyid t =? tyid other then Is else Isnt
        end
    end.

Definition ty_equals (a b : ty) : bool := is_Is (is_rel a b) && is_Is (is_rel b a).

(* ---- TypeSum ------------------------------------------------------------------------------------ *)

(* sort.Slice(alternatives, TypeID <): insertion sort (what Go runs below 12 elements), stable *)
Fixpoint insert_by_tid (x : ty) (l : list ty) : list ty :=
  match l with
  | [] => [x]
  | y :: ys => if tyid x <? tyid y then x :: l else y :: insert_by_tid x ys
  end.
Definition sort_by_tid (l : list ty) : list ty := fold_left (fun acc x => insert_by_tid x acc) l [].

(* the field maps of the struct merge: a later field of the same name overwrites an earlier one *)
Fixpoint lookup_last (n : list Z) (fs : list (list Z * ty)) : option ty :=
  match fs with
  | [] => None
  | (m, t) :: rest =>
      match lookup_last n rest with
      | Some x => Some x
      | None => if bytes_eqb m n then Some t else None
      end
  end.
(* the output field names: the key set of both maps, sorted ascending (bytewise) *)
Fixpoint insert_name (n : list Z) (l : list (list Z)) : list (list Z) :=
  match l with
  | [] => [n]
  | m :: ms => let c := bytes_cmp n m in
               if c =? 0 then l else if c =? -1 then n :: l else m :: insert_name n ms
  end.
Definition merged_names (f1 f2 : list (list Z * ty)) : list (list Z) :=
  fold_left (fun acc n => insert_name n acc) (map fst f1 ++ map fst f2) [].

Fixpoint outcome_all {A} (l : list (outcome A)) : outcome (list A) :=
  match l with
  | [] => Ok []
  | o :: rest => obind o (fun x => obind (outcome_all rest) (fun xs => Ok (x :: xs)))
  end.

Definition is_union (t : ty) : bool := match t with TUnion _ => true | _ => false end.

Section SumLevel.
  (* [rec] is TypeSum on the components of containers (one level of nesting further down) *)
  Variable rec : ty -> ty -> outcome ty.

  Definition struct_merge (f1 f2 : list (list Z * ty)) : outcome ty :=
    obind (outcome_all (map (fun n =>
             match lookup_last n f1, lookup_last n f2 with
             | Some x, Some y => obind (rec x y) (fun s => Ok (n, s))
             | Some x, None => obind (rec x TNull) (fun s => Ok (n, s))
             | None, Some y => obind (rec y TNull) (fun s => Ok (n, s))
             | None, None => Panic 1        (* a key of neither map: cannot happen *)
             end) (merged_names f1 f2)))
          (fun fs => Ok (TStruct fs)).

  (* elements[i] = TypeSum(longer[i], shorter[i]), then TypeSum(longer[i], Null) *)
  Fixpoint tuple_merge (longer shorter : list ty) : outcome (list ty) :=
    match longer with
    | [] => Ok []
    | x :: xs =>
        match shorter with
        | y :: ys => obind (rec x y) (fun s => obind (tuple_merge xs ys) (fun r => Ok (s :: r)))
        | [] => obind (rec x TNull) (fun s => obind (tuple_merge xs []) (fun r => Ok (s :: r)))
        end
    end.

  (* TypeSum on two operands neither of which is a union *)
  Definition sum_flat (a b : ty) : outcome ty :=
    if is_Is (is_rel a b) then Ok b
    else if is_Is (is_rel b a) then Ok a
    else match a, b with
         | TStruct f1, TStruct f2 => struct_merge f1 f2
         | TList e1, TList e2 =>
             match e1, e2 with
             | None, _ => Ok b
             | _, None => Ok a
             | Some x, Some y => obind (rec x y) (fun s => Ok (TList (Some s)))
             end
         | TTuple l1, TTuple l2 =>
             obind (if (length l2 <? length l1)%nat then tuple_merge l1 l2 else tuple_merge l2 l1)
                   (fun es => Ok (TTuple es))
         | _, _ => Ok (TUnion (sort_by_tid [a; b]))
         end.

  (* "t1 is a union, t2 is not": merge t2 into the first alternative of its TypeID, else append and sort *)
  Fixpoint replace_first_tid (alts : list ty) (b : ty) : option (outcome (list ty)) :=
    match alts with
    | [] => None
    | a :: rest =>
        if tyid a =? tyid b then Some (obind (sum_flat a b) (fun s => Ok (s :: rest)))
        else match replace_first_tid rest b with
             | Some o => Some (obind o (fun r => Ok (a :: r)))
             | None => None
             end
    end.
  Definition sum_union_single (alts : list ty) (b : ty) : outcome ty :=
    match replace_first_tid alts b with
    | Some o => obind o (fun l => Ok (TUnion l))
    | None => Ok (TUnion (sort_by_tid (alts ++ [b])))
    end.

  (* TypeSum itself.  The Go function recurses on (out, alternative) while folding the second union; that
     recursion is structural in the second operand, everything else goes one container level down ([rec]). *)
  Definition type_sum_level : ty -> ty -> outcome ty :=
    fix go (a b : ty) {struct b} : outcome ty :=
      if is_Is (is_rel a b) then Ok b
      else if is_Is (is_rel b a) then Ok a
      else match b with
           | TUnion alts2 =>
               match a with
               | TUnion alts1 =>
                   (fix fold (l : list ty) (out : outcome ty) : outcome ty :=
                      match l with
                      | [] => out
                      | bk :: rest => fold rest (obind out (fun o => go o bk))
                      end) alts2 (Ok (TUnion alts1))
               | _ => sum_union_single alts2 a       (* "if only one is a union, t1 shall be": TypeSum(t2, t1) *)
               end
           | _ =>
               match a with
               | TUnion alts1 => sum_union_single alts1 b
               | _ => sum_flat a b
               end
           end.
End SumLevel.

(* fuel = how many container levels may still be entered; running out is an error, never a type *)
Definition err_out_of_fuel : Z := 1.
Fixpoint type_sum (fuel : nat) : ty -> ty -> outcome ty :=
  match fuel with
  | O => fun _ _ => Err err_out_of_fuel
  | S f => type_sum_level (type_sum f)
  end.

(* nesting depth of containers; unions do not count *)
Fixpoint tdepth (t : ty) : nat :=
  match t with
  | TList (Some e) => S (tdepth e)
  | TStruct fs => S (list_max (map (fun f => tdepth (snd f)) fs))
  | TTuple es => S (list_max (map tdepth es))
  | TUnion alts => list_max (map tdepth alts)
  | _ => O
  end.
Definition sum_fuel (a b : ty) : nat := S (Nat.max (tdepth a) (tdepth b)).
(* TypeSum with the fuel that Proofs/TypesProofs.v (sum_fuel_enough) shows to be sufficient *)
Definition tsum (a b : ty) : outcome ty := type_sum (sum_fuel a b) a b.

(* ---- TypeIntersection, NonNullable ---------------------------------------------------------------- *)

Fixpoint prims (t : ty) : list ty :=       (* possiblePrimitiveTypes *)
  match t with
  | TUnion alts => flat_map prims alts
  | _ => [t]
  end.

Definition inter_step (other : ty) (acc : outcome (option ty)) (t : ty) : outcome (option ty) :=
  obind acc (fun o =>
    if is_Is (is_rel t other) then
      match o with
      | None => Ok (Some t)
      | Some out => obind (tsum out t) (fun s => Ok (Some s))
      end
    else Ok o).
(* after the fix "TypeIntersection copies the loop variable" *)
Definition type_inter (a b : ty) : outcome (option ty) :=
  fold_left (inter_step a) (prims b) (fold_left (inter_step b) (prims a) (Ok None)).

(* the pinned code: `outputType = &t` takes the address of the loop variable (go 1.18 semantics: one variable
   per loop), so after the first hit of a loop the accumulator IS the loop variable: it ends up holding the
   last element the loop visited, and the accumulating TypeSum is TypeSum(t, t) = t. *)
Definition inter_loop_pinned (other : ty) (acc : outcome (option ty)) (l : list ty) : outcome (option ty) :=
  obind acc (fun o =>
    match o with
    | Some _ => fold_left (inter_step other) l acc
    | None => if existsb (fun t => is_Is (is_rel t other)) l then Ok (Some (last l TNull)) else Ok None
    end).
Definition type_inter_pinned (a b : ty) : outcome (option ty) :=
  inter_loop_pinned a (inter_loop_pinned b (Ok None) (prims a)) (prims b).

Definition non_nullable (t : ty) : ty :=
  match t with
  | TUnion alts =>
      match filter (fun a => negb (tyid a =? 0)) alts with
      | [x] => x
      | out => TUnion out
      end
  | _ => t
  end.

(* ---- Value.Type ----------------------------------------------------------------------------------- *)

Definition empty_name : list Z := [].

Fixpoint type_of_value (v : value) : outcome ty :=
  match v with
  | VNull => Ok TNull | VInt _ => Ok TInt | VFloat _ => Ok TFloat | VBool _ => Ok TBool
  | VStr _ => Ok TStr | VTime _ _ => Ok TTime | VDur _ => Ok TDur
  | VList l =>
      obind (fold_left (fun acc x =>
               obind acc (fun o => obind (type_of_value x) (fun t =>
                 match o with
                 | None => Ok (Some t)
                 | Some e => obind (tsum e t) (fun s => Ok (Some s))
                 end))) l (Ok None))
            (fun e => Ok (TList e))
  | VStruct l => obind (outcome_all (map type_of_value l)) (fun ts => Ok (TStruct (map (fun t => (empty_name, t)) ts)))
  | VTuple l => obind (outcome_all (map type_of_value l)) (fun ts => Ok (TTuple ts))
  end.

(* the pinned code: `for i := range value.Tuple` in the struct case — a struct's Tuple slice is empty, so every
   field keeps the zero Type, whose TypeID is TypeIDNull *)
Fixpoint type_of_value_pinned (v : value) : outcome ty :=
  match v with
  | VNull => Ok TNull | VInt _ => Ok TInt | VFloat _ => Ok TFloat | VBool _ => Ok TBool
  | VStr _ => Ok TStr | VTime _ _ => Ok TTime | VDur _ => Ok TDur
  | VList l =>
      obind (fold_left (fun acc x =>
               obind acc (fun o => obind (type_of_value_pinned x) (fun t =>
                 match o with
                 | None => Ok (Some t)
                 | Some e => obind (tsum e t) (fun s => Ok (Some s))
                 end))) l (Ok None))
            (fun e => Ok (TList e))
  | VStruct l => Ok (TStruct (map (fun _ => (empty_name, TNull)) l))
  | VTuple l => obind (outcome_all (map type_of_value_pinned l)) (fun ts => Ok (TTuple ts))
  end.

(* ---- what a type means: the values that inhabit it -------------------------------------------------
   (what TypeAssertion, the JSON datasource and the output formatters rely on) *)
Fixpoint has_type (v : value) (t : ty) {struct t} : bool :=
  match t with
  | TAny => true
  | TNull => match v with VNull => true | _ => false end
  | TInt => match v with VInt _ => true | _ => false end
  | TFloat => match v with VFloat _ => true | _ => false end
  | TBool => match v with VBool _ => true | _ => false end
  | TStr => match v with VStr _ => true | _ => false end
  | TTime => match v with VTime _ _ => true | _ => false end
  | TDur => match v with VDur _ => true | _ => false end
  | TList None => match v with VList [] => true | _ => false end
  | TList (Some e) => match v with VList l => forallb (fun x => has_type x e) l | _ => false end
  | TStruct fs =>
      match v with
      | VStruct l =>
          (fix go (fs : list (list Z * ty)) (l : list value) : bool :=
             match fs, l with
             | [], [] => true
             | (_, ft) :: fs', x :: l' => has_type x ft && go fs' l'
             | _, _ => false
             end) fs l
      | _ => false
      end
  | TTuple es =>
      match v with
      | VTuple l =>
          (fix go (es : list ty) (l : list value) : bool :=
             match es, l with
             | [], [] => true
             | et :: es', x :: l' => has_type x et && go es' l'
             | _, _ => false
             end) es l
      | _ => false
      end
  | TUnion alts => existsb (fun a => has_type v a) alts
  end.

Definition not_null (v : value) : bool := match v with VNull => false | _ => true end.

(* ---- classes of types used by the statements ------------------------------------------------------- *)

(* no struct and no tuple type anywhere inside *)
Fixpoint st_free (t : ty) : bool :=
  match t with
  | TList (Some e) => st_free e
  | TStruct _ | TTuple _ => false
  | TUnion alts => forallb st_free alts
  | _ => true
  end.

(* the normal form TypeSum keeps unions in: at least two alternatives, none of them a union or Any, TypeIDs
   strictly ascending; recursively *)
Fixpoint ascending (l : list Z) : bool :=
  match l with
  | x :: ((y :: _) as rest) => (x <? y) && ascending rest
  | _ => true
  end.
Fixpoint wf_ty (t : ty) : bool :=
  match t with
  | TList (Some e) => wf_ty e
  | TStruct fs => forallb (fun f => wf_ty (snd f)) fs
  | TTuple es => forallb wf_ty es
  | TUnion alts =>
      (2 <=? Z.of_nat (length alts)) && forallb wf_ty alts
      && forallb (fun a => negb (is_union a) && negb (tyid a =? 11)) alts
      && ascending (map tyid alts)
  | _ => true
  end.

(* nullable-union shape NonNullable is meant for: not NULL itself, not Any, alternatives neither unions nor Any *)
Definition nn_shape (t : ty) : bool :=
  match t with
  | TNull | TAny => false
  | TUnion alts => forallb (fun a => negb (is_union a) && negb (tyid a =? 11)) alts
  | _ => true
  end.

(* structural equality, for the differential comparison *)
Fixpoint ty_eqb (a b : ty) {struct a} : bool :=
  match a, b with
  | TNull, TNull | TInt, TInt | TFloat, TFloat | TBool, TBool | TStr, TStr | TTime, TTime | TDur, TDur | TAny, TAny => true
  | TList None, TList None => true
  | TList (Some x), TList (Some y) => ty_eqb x y
  | TStruct f1, TStruct f2 =>
      (fix go (f1 f2 : list (list Z * ty)) : bool :=
         match f1, f2 with
         | [], [] => true
         | (n, x) :: r1, (m, y) :: r2 => bytes_eqb n m && ty_eqb x y && go r1 r2
         | _, _ => false
         end) f1 f2
  | TTuple l1, TTuple l2 => list_eqb ty_eqb l1 l2
  | TUnion l1, TUnion l2 => list_eqb ty_eqb l1 l2
  | _, _ => false
  end.
