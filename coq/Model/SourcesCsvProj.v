(* Model/SourcesCsvProj.v — C23 (4): the CSV/TSV datasource at record level.
   encoding/csv's record splitting is the trusted library: a file is the list of records (each a list of
   cells) the csv.Reader returns.  Modelled: header handling of datasources/csv/impl.go (header=true: the first
   record names the columns; header=false: column_0, column_1, ..), and DatasourceExecuting.Run of
   datasources/csv/execution.go: usedColumns (by name), indicesToRead (file order), values[i] = the cell at
   indicesToRead[i] converted at the type of d.fields[i], records in file order, stop at the first error.
   The cell conversion is a parameter (C24 models it: Model/SourcesCsv.v exec_cell).
   Executable definitions only. *)
From Octo Require Export Base.
From Octo Require Export SourcesScan.   (* bytes, bytes_eqb *)

(* fmt.Sprintf("column_%d", i) *)
Fixpoint dec_digits_fuel (fuel : nat) (n : nat) (acc : bytes) : bytes :=
  match fuel with
  | O => acc
  | S f => let acc' := (48 + Z.of_nat (n mod 10)) :: acc in
           if (n / 10 =? 0)%nat then acc' else dec_digits_fuel f (n / 10) acc'
  end.
Definition dec_digits (n : nat) : bytes := dec_digits_fuel (S n) n [].
Definition column_prefix : bytes := [99; 111; 108; 117; 109; 110; 95].      (* "column_" *)
Definition column_i (i : nat) : bytes := column_prefix ++ dec_digits i.

Definition p_index : Z := 1.          (* index out of range: row[columnIndex] or d.fields[i] *)
Definition e_header : Z := 30.        (* couldn't decode csv header row (no record) *)

Fixpoint mem_name (n : bytes) (l : list bytes) : bool :=
  match l with [] => false | x :: r => bytes_eqb x n || mem_name n r end.

Section CsvProj.
  Context {T C V : Type}.
  Variable conv : T -> C -> outcome V.      (* the per-cell cascade, may report an error *)
  Variable cell_text : C -> bytes.

  (* Creator: the column names and the data records *)
  Definition csv_names (header : bool) (records : list (list C)) : outcome (list bytes * list (list C)) :=
    if header then
      match records with
      | [] => Err e_header
      | h :: rest => Ok (map cell_text h, rest)
      end
    else
      match records with
      | [] => Ok ([], [])
      | r :: _ => Ok (map column_i (seq 0 (length r)), records)
      end.

  (* indicesToRead: for i := range fileFieldNames { if usedColumns[fileFieldNames[i]] { append i } } *)
  Fixpoint indices_to_read (used : list bytes) (i : nat) (names : list bytes) : list nat :=
    match names with
    | [] => []
    | n :: r => if mem_name n used then i :: indices_to_read used (S i) r else indices_to_read used (S i) r
    end.

  (* for i, columnIndex := range indicesToRead { values[i] = conv(d.fields[i].Type, row[columnIndex]) } *)
  Fixpoint row_values (fields : list (bytes * T)) (row : list C) (i : nat) (idxs : list nat) : outcome (list V) :=
    match idxs with
    | [] => Ok []
    | c :: rest =>
      match nth_error row c, nth_error fields i with
      | Some cell, Some f =>
          match conv (snd f) cell with
          | Ok v => match row_values fields row (S i) rest with
                    | Ok vs => Ok (v :: vs)
                    | Err e => Err e | Panic p => Panic p
                    end
          | Err e => Err e
          | Panic p => Panic p
          end
      | _, _ => Panic p_index
      end
    end.

  (* the read loop: records produced so far, and how it ended *)
  Fixpoint run_rows (fields : list (bytes * T)) (idxs : list nat) (rows : list (list C)) : list (list V) * outcome unit :=
    match rows with
    | [] => ([], Ok tt)
    | r :: rest =>
      match row_values fields r 0 idxs with
      | Ok vs => let '(out, e) := run_rows fields idxs rest in (vs :: out, e)
      | Err e => ([], Err e)
      | Panic p => ([], Panic p)
      end
    end.

  (* DatasourceExecuting.Run with the (possibly pruned) field list [fields] and the file's column names *)
  Definition csv_run (header : bool) (file_names : list bytes) (fields : list (bytes * T)) (records : list (list C))
    : list (list V) * outcome unit :=
    let idxs := indices_to_read (map fst fields) 0 file_names in
    if header then
      match records with
      | [] => ([], Err e_header)
      | _ :: rest => run_rows fields idxs rest
      end
    else run_rows fields idxs records.

  (* ---- specification ---- *)
  (* the columns a query uses: a mask over the file's columns *)
  Fixpoint select {X} (keep : list bool) (l : list X) : list X :=
    match keep, l with
    | true :: k, x :: r => x :: select k r
    | false :: k, _ :: r => select k r
    | _, _ => []
    end.

  (* one record: the kept cells, each converted at the type of its own column *)
  Fixpoint spec_values (tys : list T) (cells : list C) : outcome (list V) :=
    match tys, cells with
    | t :: tr, c :: cr =>
        match conv t c with
        | Ok v => match spec_values tr cr with Ok vs => Ok (v :: vs) | Err e => Err e | Panic p => Panic p end
        | Err e => Err e
        | Panic p => Panic p
        end
    | _, _ => Ok []
    end.

  Fixpoint spec_rows (keep : list bool) (tys : list T) (rows : list (list C)) : list (list V) * outcome unit :=
    match rows with
    | [] => ([], Ok tt)
    | r :: rest =>
      match spec_values (select keep tys) (select keep r) with
      | Ok vs => let '(out, e) := spec_rows keep tys rest in (vs :: out, e)
      | Err e => ([], Err e)
      | Panic p => ([], Panic p)
      end
    end.
End CsvProj.
