(* Model/Buffer.v — execution/record_event_time_buffer.go, execution/nodes/event_time_buffer.go, the
   watermark handling of the pass-through nodes (filter.go, map.go, unnest.go) and pipelines of them with
   the table valued functions of Model/TVF.v.  Executable only. *)
From Octo Require Export Changelog TVF.
(* Limit, Distinct and OrderSensitiveTransform: the exact models of Model/Operators.v (tied by engine c15 too) are
   used as they are, qualified, so that the two developments' names stay apart *)
From Octo Require Operators.

(* ---- RecordEventTimeBuffer: google/btree keyed by EventTime.Before, one item per instant holding a
   FIFO slice.  Abstractly: an association list sorted by strictly increasing instant. ---- *)
Definition buf : Type := list (Z * list rec).

(* AddRecord: tree.Get(item) finds the item that is neither Before nor After; else ReplaceOrInsert *)
Fixpoint buf_add (r : rec) (b : buf) : buf :=
  match b with
  | [] => [(et r, [r])]
  | (t, rs) :: rest =>
      if et r <? t then (et r, [r]) :: b
      else if t <? et r then (t, rs) :: buf_add r rest
      else (t, rs ++ [r]) :: rest
  end.

(* Emit: while min != nil && !min.EventTime.After(watermark) { DeleteMin; produce each record } *)
Fixpoint buf_emit (w : Z) (b : buf) : list rec * buf :=
  match b with
  | [] => ([], [])
  | (t, rs) :: rest =>
      if w <? t then ([], b)
      else let '(o, b') := buf_emit w rest in (rs ++ o, b')
  end.

Definition buf_flatten (b : buf) : list rec := flat_map snd b.

(* ---- EventTimeBuffer.Run ---- *)
Definition etb_step (b : buf) (e : event) : buf * list event :=
  match e with
  | Rec r => if et r =? zero_ns then (b, [Rec r])              (* IsZero(): not buffered *)
             else (buf_add r b, [])
  | WM w => let '(o, b') := buf_emit w b in (b', map Rec o ++ [WM w])
  end.

Fixpoint etb_run_from (b : buf) (es : list event) : buf * list event :=
  match es with
  | [] => (b, [])
  | e :: rest =>
      let '(b1, o1) := etb_step b e in
      let '(b2, o2) := etb_run_from b1 rest in (b2, o1 ++ o2)
  end.

(* output while the source runs *)
Definition etb_run (es : list event) : list event := snd (etb_run_from [] es).
(* the final records.Emit(WatermarkMaxValue) *)
Definition etb_finish (b : buf) : list event := map Rec (fst (buf_emit max_wm b)).
Definition etb_run_finish (es : list event) : list event :=
  let '(b, o) := etb_run_from [] es in o ++ etb_finish b.

(* ---- well-timedness: watermarks never go backwards, and no record with a non-zero event time at or
   below a watermark that was already sent ---- *)
Definition wm_le (last : option Z) (w : Z) : bool := match last with None => true | Some l => l <=? w end.
Definition not_late (last : option Z) (r : rec) : bool :=
  (et r =? zero_ns) || match last with None => true | Some l => l <? et r end.

Fixpoint well_timed_from (last : option Z) (es : list event) : bool :=
  match es with
  | [] => true
  | WM w :: rest => wm_le last w && well_timed_from (Some w) rest
  | Rec r :: rest => not_late last r && well_timed_from last rest
  end.
Definition well_timed (es : list event) : bool := well_timed_from None es.

Fixpoint monotone_opt (last : option Z) (es : list event) : bool :=
  match es with
  | [] => true
  | WM w :: rest => wm_le last w && monotone_opt (Some w) rest
  | Rec _ :: rest => monotone_opt last rest
  end.
Definition monotone (es : list event) : bool := monotone_opt None es.

(* ---- stable sorting by event time, the reference the buffer is compared with ---- *)
(* insert after every element whose event time is <= *)
Fixpoint et_insert (r : rec) (l : list rec) : list rec :=
  match l with
  | [] => [r]
  | x :: xs => if et r <? et x then r :: l else x :: et_insert r xs
  end.
Definition et_sort (l : list rec) : list rec := fold_left (fun acc r => et_insert r acc) l [].

Definition nonzero_time (r : rec) : bool := negb (et r =? zero_ns).
Definition released_by (w : Z) (r : rec) : bool := (et r =? zero_ns) || (et r <=? w).

(* ---- pass-through nodes; expressions are Variables of the record (level 0) ---- *)
(* Filter: kept iff the predicate evaluates to the boolean true *)
Definition filter_rec (idx : nat) (r : rec) : outcome (list rec) :=
  match nth_error (vals r) idx with
  | None => Panic panic_index
  | Some (VBool true) => Ok [r]
  | Some _ => Ok []
  end.
(* Map: NewRecord(values, record.Retraction, record.EventTime) *)
Fixpoint project (idxs : list nat) (vs : list value) : outcome (list value) :=
  match idxs with
  | [] => Ok []
  | i :: rest => match nth_error vs i with
                 | None => Panic panic_index
                 | Some v => obind (project rest vs) (fun l => Ok (v :: l))
                 end
  end.
Definition map_rec (idxs : list nat) (r : rec) : outcome (list rec) :=
  obind (project idxs (vals r)) (fun vs => Ok [mkrec vs (retr r) (et r)]).
(* Unnest: one record per element of record.Values[index].List *)
Definition unnest_rec (idx : nat) (r : rec) : outcome (list rec) :=
  match nth_error (vals r) idx with
  | None => Panic panic_index
  | Some (VList l) =>
      Ok (map (fun x => mkrec (firstn idx (vals r) ++ [x] ++ skipn (S idx) (vals r)) (retr r) (et r)) l)
  | Some _ => Ok []
  end.

(* a node that maps each record to some records and hands metaSend through *)
Fixpoint per_record (f : rec -> outcome (list rec)) (es : list event) : outcome (list event) :=
  match es with
  | [] => Ok []
  | WM w :: rest => obind (per_record f rest) (fun o => Ok (WM w :: o))
  | Rec r :: rest => obind (f r) (fun rs => obind (per_record f rest) (fun o => Ok (map Rec rs ++ o)))
  end.

Inductive c18_node :=
| NBuffer
| NFilter (idx : nat)
| NMap (idxs : list nat)
| NUnnest (idx : nat)
| NTumble (len off : Z) (idx : nat)
| NMdw (md res : Z) (idx : nat)
| NLimit (n : Z)                                                   (* forwards everything until its n-th record *)
| NDistinct                                                        (* swallows watermarks *)
| NOrderBy (ks : list (bool * nat)) (limit : option Z) (noretr : bool).   (* emits only at end of stream *)

Definition order_keys (ks : list (bool * nat)) : Operators.okeys :=
  Operators.okeys_of (map (fun k : bool * nat => (fst k, Operators.EVar (snd k))) ks).

Definition run_node (n : c18_node) (inp : list event) : outcome (list event) :=
  match n with
  | NBuffer => Ok (etb_run_finish inp)
  | NFilter idx => per_record (filter_rec idx) inp
  | NMap idxs => per_record (map_rec idxs) inp
  | NUnnest idx => per_record (unnest_rec idx) inp
  | NTumble len off idx => tumble_run len off idx inp
  | NMdw md res idx => mdw_run md res idx inp
  | NLimit n => Ok (Operators.run_limit n inp)
  | NDistinct => Ok (Operators.run_distinct inp)
  | NOrderBy ks limit noretr => Operators.run_ost (order_keys ks) limit noretr inp
  end.

(* source first, then each node wrapping the previous one *)
Fixpoint run_pipeline (ns : list c18_node) (inp : list event) : outcome (list event) :=
  match ns with
  | [] => Ok inp
  | n :: rest => obind (run_node n inp) (run_pipeline rest)
  end.

(* ---- oracles ---- *)
Definition c18_input_ok (inp : list event) : bool :=
  forallb (fun r => (et r =? zero_ns) || (et r <=? max_wm)) (records inp).

(* the buffer clauses read on (input, observed output) *)
Fixpoint at_wms (seen : list rec) (es : list event) : list (list rec * Z) :=
  match es with
  | [] => []
  | Rec r :: rest => at_wms (seen ++ [r]) rest
  | WM w :: rest => (seen, w) :: at_wms seen rest
  end.
Fixpoint count_rec (r : rec) (l : list rec) : nat :=
  match l with [] => O | x :: xs => (if rec_eqb x r then 1 else 0)%nat + count_rec r xs end.
Definition perm_recs (a b : list rec) : bool :=
  forallb (fun r => Nat.eqb (count_rec r a) (count_rec r b)) (a ++ b).

Definition buffer_spec (inp out : list event) : bool :=
  (* every record exactly once and unchanged *)
  perm_recs (records out) (records inp) &&
  (* zero-time records are not reordered *)
  recs_eqb (filter (fun r => negb (nonzero_time r)) (records out)) (filter (fun r => negb (nonzero_time r)) (records inp)) &&
  (* watermarks forwarded unchanged; at each of them exactly the records it covers have been released *)
  zlist_eqb (watermarks out) (watermarks inp) &&
  (negb (monotone inp) ||
   forallb2 (fun i o => (snd i =? snd o) && perm_recs (fst o) (filter (released_by (snd i)) (fst i)))
            (at_wms [] inp) (at_wms [] out)) &&
  (* with no late input: the timed records leave in event-time order, ties in arrival order *)
  (negb (well_timed inp) ||
   recs_eqb (filter nonzero_time (records out)) (et_sort (filter nonzero_time (records inp)))).

(* ---- the three recorded finding classes of findings/C18.txt, decided from the inputs alone ---- *)
Inductive c18_op :=
| OpJoin (kind : Z)                                 (* 0 StreamJoin, 1 left, 2 right, 3 full OuterJoin; key = column 0 *)
| OpGroupBy (time_keyed fires_at_end : bool).       (* time key = column 1; trigger set has a counting / end-of-stream trigger *)

Definition join_key (r : rec) : option value :=
  match vals r with
  | VNull :: _ => None
  | v :: _ => Some v
  | [] => None
  end.
(* equal NULL-free join keys *)
Definition same_join_key (a b : rec) : bool :=
  match join_key a, join_key b with Some x, Some y => vcompare x y =? 0 | _, _ => false end.
Definition no_event_time (r : rec) : bool := et r =? zero_ns.
Definition pairs_exist (f : rec -> rec -> bool) (L R : list rec) : bool :=
  existsb (fun a => existsb (fun b => same_join_key a b && f a b) R) L.

(* class 1, join-zero-time-record-meets-timed-record *)
Definition class_zero_time (L R : list rec) : bool :=
  pairs_exist (fun a b => xorb (no_event_time a) (no_event_time b)) L R.
(* class 2, outer-join-padded-row-retracted-or-restored-later *)
Definition outer_left (kind : Z) : bool := (kind =? 1) || (kind =? 3).
Definition outer_right (kind : Z) : bool := (kind =? 2) || (kind =? 3).
Definition class_padded_row (kind : Z) (L R : list rec) : bool :=
  pairs_exist (fun a b => (negb (et a =? et b) || retr a || retr b) &&
                          ((outer_left kind && negb (no_event_time a)) || (outer_right kind && negb (no_event_time b)))) L R.
(* class 3, group-by-time-keyed-group-fired-at-end-of-stream *)
Definition class_eos_key (time_keyed fires_at_end : bool) (inp : list event) : bool :=
  time_keyed && fires_at_end &&
  match rev (watermarks inp) with
  | [] => false
  | w :: _ => existsb (fun r => match nth_error (vals r) 1 with Some (VTime t _) => t <=? w | _ => false end) (records inp)
  end.

Definition c18_class (op : c18_op) (inputs : list (list event)) : Z :=
  match op, inputs with
  | OpJoin kind, [l; r] =>
      if class_zero_time (records l) (records r) then 1
      else if class_padded_row kind (records l) (records r) then 2 else 0
  | OpGroupBy tk fe, [inp] => if class_eos_key tk fe inp then 3 else 0
  | _, _ => 0
  end.

Inductive c18_source :=
| SScript (inp : list event)
| SPoll (nows : list Z) (srcs : list (list event))
(* oracle-only cases: the inputs of an operator that is modelled elsewhere (StreamJoin and OuterJoin: C19;
   the group-by with triggers: C16/C17); only the C18 oracle is applied to what the operator emitted *)
| SInputs (op : c18_op) (tag : Z) (inputs : list (list event)).   (* tag: the finding class the engine put the case in *)

(* source, nodes, kind, observed output *)
Definition c18_case : Type := c18_source * list c18_node * Z * list event.

Definition source_events (s : c18_source) : list event :=
  match s with
  | SScript inp => inp
  | SPoll nows srcs => poll_run (clock_of nows) 0 srcs
  | SInputs _ _ _ => []
  end.
Definition source_events_pinned (s : c18_source) : list event :=
  match s with
  | SScript inp => inp
  | SPoll nows srcs => poll_run_pinned (clock_of nows) 0 srcs
  | SInputs _ _ _ => []
  end.
(* poll ends with the source's error, which every node hands on *)
Definition source_fails (s : c18_source) : bool := match s with SPoll _ _ => true | _ => false end.

Definition c18_tie (c : c18_case) : bool :=
  let '(s, ns, kind, out) := c in
  match s with
  | SScript inp => tie_outcome (run_pipeline ns inp) kind out
  | SPoll _ _ =>
      (* only per-record nodes are put behind poll (a buffer would not run its final Emit when the
         source fails), so the output up to the error is the model's *)
      match run_pipeline ns (source_events s) with
      | Ok o => (kind =? 1) && events_eqb o out
      | Err _ => kind =? 1
      | Panic _ => kind =? 2
      end
  | SInputs op tag inputs => c18_class op inputs =? tag     (* the engine's class tag is the Coq predicate's verdict *)
  end.

Definition source_ok (s : c18_source) : bool :=
  match s with
  | SScript inp => well_timed inp
  | SPoll nows srcs => forallb no_wms srcs && strictly_increasing_from zero_ns nows
  | SInputs _ _ inputs => forallb well_timed inputs
  end.
Definition source_monotone (s : c18_source) : bool :=
  match s with
  | SInputs _ _ inputs => forallb monotone inputs
  | _ => monotone (source_events s)
  end.

Definition c18_spec (c : c18_case) : bool :=
  let '(s, ns, kind, out) := c in
  negb (kind =? 2) &&
  (* watermarks never go backwards when the input's do not *)
  (negb (source_monotone s) || monotone out) &&
  (* no late data is created *)
  (negb (source_ok s) || well_timed out) &&
  (* the buffer on its own *)
  match s, ns with
  | SScript inp, [NBuffer] => negb (c18_input_ok inp) || ((kind =? 0) && buffer_spec inp out)
  | _, _ => true
  end.
