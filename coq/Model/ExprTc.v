(* Model/ExprTc.v — the typechecker of expressions: logical/logical.go (Constant, Variable, And, Or, Coalesce,
   TypeCast . Typecheck, TypecheckExpression) and logical/function.go (FunctionExpression.Typecheck: the exact
   pass, the Maybe pass with TypeAssertion insertion and its cumulative mutation of `arguments`, "the last
   matching descriptor wins", the nullable wrap of Strict calls), over the kind-set types of ExprTypes.v.
   Fragment: one record frame; every column / constant type is a set of scalar kinds or Any ([sty_scalar]);
   anything else is TcUnsupported (never claimed).  A typecheck panic (its error channel) is TcPanic.
   Also: the local well-typedness check [pwt] of physical expressions (the invariant C08 is proved through),
   structural equality of physical expressions, case formats and oracles of the c08 engine.
   Executable definitions only. *)
From Octo Require Export Expr.

Inductive lexpr : Type :=
| LConst (v : value)
| LVar (i : nat)                                  (* column i of the record frame *)
| LAnd (a b : lexpr)
| LOr (a b : lexpr)
| LCall (name : string) (args : list lexpr)
| LCoalesce (args : list lexpr)
| LCast (a : lexpr) (target : Z).

Inductive tcres (A : Type) : Type :=
| TcOk (a : A)
| TcPanic (why : Z)
| TcUnsupported.
Arguments TcOk {A} a.
Arguments TcPanic {A} why.
Arguments TcUnsupported {A}.

Definition tbind {A B} (r : tcres A) (f : A -> tcres B) : tcres B :=
  match r with TcOk a => f a | TcPanic w => TcPanic w | TcUnsupported => TcUnsupported end.

Definition TP_VAR : Z := 1.        (* unknown variable *)
Definition TP_EXPECTED : Z := 2.   (* expected %s, got %s *)
Definition TP_NILTYPE : Z := 3.    (* nil *Type from TypeIntersection dereferenced *)
Definition TP_UNKNOWN_FN : Z := 4. (* unknown function: name(types) *)
Definition TP_COALESCE : Z := 5.   (* COALESCE without arguments *)
Definition TP_CAST : Z := 6.       (* typecast of a non-union / target not an alternative *)

Definition bool_null : sty := STSet [K_NULL; K_BOOL].      (* TypeSum(Boolean, Null) *)
Definition null_t : sty := STSet [K_NULL].

(* ---- FunctionExpression.Typecheck ---- *)

(* exact pass, one descriptor: Some output type if it matches *)
Definition exact_match (d : fdesc) (arg_types nn_types : list sty) : option sty :=
  let ats := if fd_strict d then nn_types else arg_types in
  match fd_typefn d with
  | TFEq => match ats with
            | [a; b] => if sty_eqb a b then Some (fd_out d) else None
            | _ => None
            end
  | TFNoScalar | TFOther => None          (* TFOther never reaches here: such names are TcUnsupported *)
  | TFNone =>
      if negb (Nat.eqb (length ats) (length (fd_args d))) then None
      else if forallb (fun p => trel_eqb (is_rel (fst p) (snd p)) Is) (combine ats (fd_args d))
           then Some (fd_out d) else None
  end.

(* the ArgumentTypes / OutputType a descriptor has in the second loop (it does not look at TypeFn: a TypeFn
   descriptor has no ArgumentTypes and the zero Type, which is Null, as OutputType) *)
Definition maybe_args (d : fdesc) : list sty := match fd_typefn d with TFNone => fd_args d | _ => [] end.
Definition maybe_out (d : fdesc) : sty := match fd_typefn d with TFNone => fd_out d | _ => null_t end.

(* wrap the arguments that are Maybe; None = nil *Type dereferenced *)
Fixpoint wrap_maybe (al : bool) (strict : bool) (ats decl : list sty) (args : list pexpr) : option (list pexpr) :=
  match ats, decl, args with
  | at_ :: ats', dt :: decl', a :: args' =>
      match wrap_maybe al strict ats' decl' args' with
      | None => None
      | Some rest =>
          if trel_eqb (is_rel at_ dt) Maybe then
            let target := if strict then type_sum dt null_t else dt in
            match type_inter al target (ptype a) with
            | None => None
            | Some t => Some (PAssert t target a :: rest)
            end
          else Some (a :: rest)
      end
  | _, _, _ => Some args
  end.

(* state of the second loop: current `arguments`, the descriptor found so far *)
Definition maybe_step (al : bool) (arg_types nn_types : list sty) (st : tcres (list pexpr * option fdesc)) (d : fdesc)
  : tcres (list pexpr * option fdesc) :=
  tbind st (fun '(args, found) =>
    let ats := if fd_strict d then nn_types else arg_types in
    let decl := maybe_args d in
    if negb (Nat.eqb (length ats) (length decl)) then TcOk (args, found)
    else if existsb (fun p => trel_eqb (is_rel (fst p) (snd p)) Isnt) (combine ats decl) then TcOk (args, found)
    else match wrap_maybe al (fd_strict d) ats decl args with
         | None => TcPanic TP_NILTYPE
         | Some args' => TcOk (args', Some d)
         end).

Definition descs_named (table : list fdesc) (n : string) : list fdesc :=
  filter (fun d => String.eqb (fd_name d) n) table.

Definition desc_supported (d : fdesc) : bool :=
  fd_flat d && negb (tfkind_eqb (fd_typefn d) TFOther).

Definition nullable_wrap (d : fdesc) (args : list pexpr) (t : sty) : sty :=
  if fd_strict d && existsb (fun a => allows_null (ptype a)) args then type_sum t null_t else t.

Definition tc_call (al : bool) (table : list fdesc) (n : string) (args : list pexpr) : tcres pexpr :=
  let descs := descs_named table n in
  let arg_types := map ptype args in
  let nn_types := map non_nullable arg_types in
  if negb (forallb desc_supported descs) || negb (forallb sty_scalar arg_types) then TcUnsupported
  else
    (* first loop: the last matching descriptor wins *)
    let exact := fold_left (fun acc d => match exact_match d arg_types nn_types with
                                         | Some t => Some (d, t) | None => acc end) descs None in
    match exact with
    | Some (d, t) => TcOk (PCall (nullable_wrap d args t) d args)
    | None =>
        match fold_left (maybe_step al arg_types nn_types) descs (TcOk (args, None)) with
        | TcOk (args', Some d) => TcOk (PCall (nullable_wrap d args' (maybe_out d)) d args')
        | TcOk (_, None) => TcPanic TP_UNKNOWN_FN
        | TcPanic w => TcPanic w
        | TcUnsupported => TcUnsupported
        end
    end.

(* ---- expressions ---- *)

(* TypecheckExpression(expected, e) given e's result *)
Definition expect (al : bool) (expected : sty) (r : tcres pexpr) : tcres pexpr :=
  tbind r (fun pe =>
    match is_rel (ptype pe) expected with
    | Isnt => TcPanic TP_EXPECTED
    | Maybe => match type_inter al expected (ptype pe) with
               | None => TcPanic TP_NILTYPE
               | Some t => TcOk (PAssert t expected pe)
               end
    | Is => TcOk pe
    end).

Definition and_or_type (l r : pexpr) : sty :=
  if allows_null (ptype l) || allows_null (ptype r) then bool_null else STSet [K_BOOL].

Section TcList.
  Variable tc1 : lexpr -> tcres pexpr.
  Fixpoint tc_list (l : list lexpr) : tcres (list pexpr) :=
    match l with
    | [] => TcOk []
    | x :: xs => tbind (tc1 x) (fun p => tbind (tc_list xs) (fun ps => TcOk (p :: ps)))
    end.
End TcList.

Fixpoint tc (al : bool) (table : list fdesc) (env : list sty) (e : lexpr) {struct e} : tcres pexpr :=
  match e with
  | LConst v => if value_scalar v then TcOk (PConst (type_of_scalar v) v) else TcUnsupported
  | LVar i => match nth_error env i with
              | Some t => if sty_scalar t then TcOk (PVar t 0 i) else TcUnsupported
              | None => TcPanic TP_VAR
              end
  | LAnd a b =>
      tbind (expect al bool_null (tc al table env a)) (fun l =>
      tbind (expect al bool_null (tc al table env b)) (fun r =>
      TcOk (PAnd (and_or_type l r) [l; r])))
  | LOr a b =>
      tbind (expect al bool_null (tc al table env a)) (fun l =>
      tbind (expect al bool_null (tc al table env b)) (fun r =>
      TcOk (POr (and_or_type l r) [l; r])))
  | LCall n args => tbind (tc_list (tc al table env) args) (fun ps => tc_call al table n ps)
  | LCoalesce args =>
      match args with
      | [] => TcPanic TP_COALESCE
      | _ => tbind (tc_list (tc al table env) args) (fun ps =>
               match ps with
               | [] => TcPanic TP_COALESCE
               | p :: rest => TcOk (PCoalesce (fold_left (fun t q => type_sum t (ptype q)) rest (ptype p)) ps)
               end)
      end
  | LCast a target =>
      tbind (tc al table env a) (fun p =>
        if negb (k_scalar target) then TcUnsupported
        else match ptype p with
             | STSet (k1 :: k2 :: ks) =>
                 if kmem target (k1 :: k2 :: ks)
                 then TcOk (PCast (type_sum (STSet [target]) null_t) target p)
                 else TcPanic TP_CAST
             | _ => TcPanic TP_CAST
             end)
  end.

(* ---- local well-typedness of a physical expression (a decidable sufficient condition for soundness) ---- *)

(* every kind the type allows is in [t] *)
Definition sty_sub (a t : sty) : bool := trel_eqb (is_rel a t) Is.
Definition has_kind (k : Z) (t : sty) : bool := match t with STAny => true | STSet ks => kmem k ks end.
Definition kinds_in (ks : list Z) (t : sty) : bool := forallb (fun k => has_kind k t) ks.

(* the kinds a TypeAssertion lets through are in [t] *)
Definition assert_sub (a : sty) (ids : list Z) (t : sty) : bool :=
  match a with
  | STAny => kinds_in ids t
  | STSet ks => kinds_in (kinter ks ids) t
  end.

(* the result of a call is allowed by [t] *)
Definition call_out_ok (d : fdesc) (args : list pexpr) (t : sty) : bool :=
  (if fd_strict d && existsb (fun a => allows_null (ptype a)) args then has_kind K_NULL t else true) &&
  (* fewer arguments than the body reads: it panics, nothing comes out *)
  (Nat.ltb (length args) (body_min_args (body_of no_oracle d)) ||
  match body_result_kinds (body_of no_oracle d) with
  | Some ks => kinds_in ks t
  | None => match args with
            | a :: _ => match ptype a with
                        | STAny => match t with STAny => true | _ => false end
                        | STSet ks => kinds_in (if fd_strict d then filter (fun k => negb (k =? K_NULL)) ks else ks) t
                        end
            | [] => true      (* the body panics on an empty argument list *)
            end
  end).

Fixpoint pwt (env : list sty) (e : pexpr) {struct e} : bool :=
  match e with
  | PConst t v => has_type v t
  | PVar t l i => Nat.eqb l 0 && match nth_error env i with Some t' => sty_sub t' t | None => false end
  | PAnd t args | POr t args =>
      forallb (pwt env) args && forallb (fun a => sty_sub (ptype a) bool_null) args &&
      has_kind K_BOOL t && (if existsb (fun a => allows_null (ptype a)) args then has_kind K_NULL t else true)
  | PCoalesce t args =>
      forallb (pwt env) args && forallb (fun a => sty_sub (ptype a) t) args &&
      (has_kind K_NULL t || existsb (fun a => negb (allows_null (ptype a))) args)
  | PAssert t target a => pwt env a && assert_sub (ptype a) (expected_ids target) t
  | PCast t id a => pwt env a && has_kind K_NULL t && has_kind id t
  (* a descriptor whose body is not modelled has no result kinds: the model's evaluation of such a call is
     Err E_NOT_MODELLED, never a value, so nothing is claimed about it *)
  | PCall t d args => forallb (pwt env) args && call_out_ok d args t
  end.

(* frame 0 holds values allowed by the column types *)
Fixpoint row_conforms (row : list value) (env : list sty) : bool :=
  match row, env with
  | [], [] => true
  | v :: vs, t :: ts => has_type v t && row_conforms vs ts
  | _, _ => false
  end.
Definition ctx_conforms (ctx : vctx) (env : list sty) : bool :=
  match ctx with frame :: _ => row_conforms frame env | [] => false end.

(* one obligation per row of the generated table: the kinds the modelled body can return are allowed by the
   declared OutputType (for the identity bodies: the declared argument type is) *)
Definition row_output_ok (d : fdesc) : bool :=
  match body_result_kinds (body_of no_oracle d) with
  | Some ks => kinds_in ks (fd_out d)
  | None => match fd_args d with [a] => sty_sub a (fd_out d) | _ => false end
  end.
Definition desc_claimed (d : fdesc) : bool := desc_modelled d.
(* the obligations of a table row that the typechecker theorem uses: the output obligation, and that the
   declared argument types are Any or non-empty sets of scalar TypeIDs (what the translator writes) *)
Definition row_ok2 (d : fdesc) : bool := row_output_ok d && forallb sty_scalar (fd_args d).   (* the rest is "not modelled": never claimed *)

(* ---- structural equality of physical expressions (types as sets, descriptors by name and position) ---- *)
Definition desc_same (a b : fdesc) : bool := String.eqb (fd_name a) (fd_name b) && (fd_idx a =? fd_idx b).

Fixpoint pexpr_eqb (x y : pexpr) {struct x} : bool :=
  match x, y with
  | PConst t v, PConst t' v' => sty_eqb t t' && value_eqb v v'
  | PVar t l i, PVar t' l' i' => sty_eqb t t' && Nat.eqb l l' && Nat.eqb i i'
  | PCall t d a, PCall t' d' a' => sty_eqb t t' && desc_same d d' && list_eqb pexpr_eqb a a'
  | PAnd t a, PAnd t' a' => sty_eqb t t' && list_eqb pexpr_eqb a a'
  | POr t a, POr t' a' => sty_eqb t t' && list_eqb pexpr_eqb a a'
  | PCoalesce t a, PCoalesce t' a' => sty_eqb t t' && list_eqb pexpr_eqb a a'
  | PAssert t g a, PAssert t' g' a' => sty_eqb t t' && sty_eqb g g' && pexpr_eqb a a'
  | PCast t g a, PCast t' g' a' => sty_eqb t t' && (g =? g') && pexpr_eqb a a'
  | _, _ => false
  end.

Definition tcres_eqb (m o : tcres pexpr) : bool :=
  match m, o with
  | TcOk a, TcOk b => pexpr_eqb a b
  | TcPanic _, TcPanic _ => true
  | TcUnsupported, _ => true          (* outside the fragment: not compared *)
  | _, _ => false
  end.
