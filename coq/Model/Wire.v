(* Model/Wire.v — the plugin wire protocol (C26).  Executable definitions only, no proofs.

   Mirrors, construct by construct:
     plugins/internal/plugins/plugins.go   NativeValueToProto / ToNativeValue, NativeTypeToProto / ToNativeType,
                                           schema, record, metadata message, physical / execution variable
                                           contexts, RepopulatePhysicalExpressionFunctions
     plugins/internal/plugins/plugins.proto  the messages, as records with the fields the converters fill
     timestamppb.New / AsTime, durationpb.New / AsDuration   (the arithmetic only)
     physical/expression.go + physical/physical.go           what encoding/json keeps of an Expression
     octosql/types.go                                        Type.Is / Equals, NonNullable
   Trusted (not modelled): protobuf's and encoding/json's own byte encodings, gRPC.  What protobuf is assumed to
   do with a message is written down as [pvalue_wire_ok] / [ptype_wire_ok] (proto3 refuses strings that are not
   UTF-8, everything else arrives unchanged) and tied by the differential run; encoding/json is assumed to carry a
   predicate's constants unchanged (the harness generates JSON-safe constants and re-checks that they arrive). *)
From Octo Require Export Values.

(* ------------------------------------------------------------------------------------------------ *)
(* integers *)
Definition two31 : Z := 2147483648.
Definition two32 : Z := 4294967296.
Definition wrap32 (z : Z) : Z := ((z + two31) mod two32) - two31.       (* Go's int32(x) *)
Definition in_int32 (z : Z) : Prop := - two31 <= z < two31.

(* ------------------------------------------------------------------------------------------------ *)
(* google.protobuf.Timestamp / Duration *)
Definition e9 : Z := 1000000000.

Record pb_timestamp := mkts { ts_seconds : Z; ts_nanos : Z }.
(* timestamppb.New(t) = {Seconds: t.Unix(), Nanos: t.Nanosecond()}: floor seconds, nanos in [0, 1e9) *)
Definition ts_new (ns : Z) : pb_timestamp := mkts (ns / e9) (ns mod e9).
(* Timestamp.AsTime() = time.Unix(seconds, nanos).UTC(); a nil *Timestamp reads as seconds = nanos = 0 *)
Definition ts_as_time (t : option pb_timestamp) : Z :=
  match t with Some t => ts_seconds t * e9 + ts_nanos t | None => 0 end.
(* the location every time.Time has after AsTime(): UTC.  Other locations are other numbers. *)
Definition loc_utc : Z := 0.

Record pb_duration := mkpd { pd_seconds : Z; pd_nanos : Z }.
(* durationpb.New(d): nanos := d.Nanoseconds(); secs := nanos / 1e9; nanos -= secs * 1e9   (Go's / truncates) *)
Definition pd_new (d : Z) : pb_duration := mkpd (Z.quot d e9) (d - Z.quot d e9 * e9).
(* Duration.AsDuration(), with its overflow clamps; nil reads as 0 *)
Definition pd_as_duration (p : option pb_duration) : Z :=
  match p with
  | None => 0
  | Some p =>
    let secs := pd_seconds p in
    let nanos := pd_nanos p in
    let d := wrap64 (secs * e9) in
    let overflow := negb (Z.quot d e9 =? secs) in
    let d := wrap64 (d + nanos) in
    let overflow := overflow || ((secs <? 0) && (nanos <? 0) && (0 <? d)) in
    let overflow := overflow || ((0 <? secs) && (0 <? nanos) && (d <? 0)) in
    if overflow then (if secs <? 0 then min_int64 else if 0 <? secs then max_int64 else d) else d
  end.

(* ------------------------------------------------------------------------------------------------ *)
(* message Value *)
Inductive pvalue : Type :=
| PValue (type_id : Z) (int : Z) (float : Z) (boolean : bool) (str : list Z)
         (time : option pb_timestamp) (duration : option pb_duration)
         (f_list : list pvalue) (f_struct : list pvalue) (f_tuple : list pvalue).

Definition pvalue_zero (tid : Z) : pvalue := PValue tid 0 0 false [] None None [] [] [].

Definition E_BAD_TYPE_ID : Z := 1.     (* panic("invalid type to proto ...") *)

Fixpoint to_proto (v : value) : pvalue :=
  match v with
  | VNull => PValue 0 0 0 false [] None None [] [] []
  | VInt z => PValue 1 z 0 false [] None None [] [] []
  | VFloat b => PValue 2 0 b false [] None None [] [] []
  | VBool b => PValue 3 0 0 b [] None None [] [] []
  | VStr s => PValue 4 0 0 false s None None [] [] []
  | VTime ns _ => PValue 5 0 0 false [] (Some (ts_new ns)) None [] [] []
  | VDur d => PValue 6 0 0 false [] None (Some (pd_new d)) [] [] []
  | VList l => PValue 7 0 0 false [] None None (map to_proto l) [] []
  | VStruct l => PValue 8 0 0 false [] None None [] (map to_proto l) []
  | VTuple l => PValue 9 0 0 false [] None None [] [] (map to_proto l)
  end.

(* sequencing of a loop whose body can panic *)
Definition omap {A B} (f : A -> outcome B) : list A -> outcome (list B) :=
  fix go (l : list A) : outcome (list B) :=
    match l with
    | [] => Ok []
    | x :: xs => obind (f x) (fun y => obind (go xs) (fun ys => Ok (y :: ys)))
    end.

Fixpoint to_native (p : pvalue) : outcome value :=
  match p with
  | PValue tid i f b s t d l st tu =>
    if tid =? 0 then Ok VNull
    else if tid =? 1 then Ok (VInt i)
    else if tid =? 2 then Ok (VFloat f)
    else if tid =? 3 then Ok (VBool b)
    else if tid =? 4 then Ok (VStr s)
    else if tid =? 5 then Ok (VTime (ts_as_time t) loc_utc)
    else if tid =? 6 then Ok (VDur (pd_as_duration d))
    else if tid =? 7 then obind (omap to_native l) (fun vs => Ok (VList vs))
    else if tid =? 8 then obind (omap to_native st) (fun vs => Ok (VStruct vs))
    else if tid =? 9 then obind (omap to_native tu) (fun vs => Ok (VTuple vs))
    else Panic E_BAD_TYPE_ID
  end.

(* what a value looks like after the trip: the instant is kept, the location is UTC *)
Fixpoint normalise (v : value) : value :=
  match v with
  | VTime ns _ => VTime ns loc_utc
  | VList l => VList (map normalise l)
  | VStruct l => VStruct (map normalise l)
  | VTuple l => VTuple (map normalise l)
  | _ => v
  end.

(* the Go value holds its duration in an int64 *)
Fixpoint value_int_ok (v : value) : bool :=
  match v with
  | VDur d => in_int64b d
  | VList l | VStruct l | VTuple l => forallb value_int_ok l
  | _ => true
  end.

(* structural equality that also looks at locations (Values.value_eqb ignores them) *)
Fixpoint value_eqb_loc (a b : value) {struct a} : bool :=
  match a, b with
  | VNull, VNull => true
  | VInt x, VInt y => x =? y
  | VFloat x, VFloat y => x =? y
  | VBool x, VBool y => Bool.eqb x y
  | VStr x, VStr y => list_eqb Z.eqb x y
  | VTime x lx, VTime y ly => (x =? y) && (lx =? ly)
  | VDur x, VDur y => x =? y
  | VList la, VList lb => list_eqb value_eqb_loc la lb
  | VStruct la, VStruct lb => list_eqb value_eqb_loc la lb
  | VTuple la, VTuple lb => list_eqb value_eqb_loc la lb
  | _, _ => false
  end.

Definition opt_eqb {A} (eqb : A -> A -> bool) (a b : option A) : bool :=
  match a, b with Some x, Some y => eqb x y | None, None => true | _, _ => false end.
Definition ts_eqb (a b : pb_timestamp) : bool := (ts_seconds a =? ts_seconds b) && (ts_nanos a =? ts_nanos b).
Definition pd_eqb (a b : pb_duration) : bool := (pd_seconds a =? pd_seconds b) && (pd_nanos a =? pd_nanos b).

Fixpoint pvalue_eqb (a b : pvalue) {struct a} : bool :=
  match a, b with
  | PValue t1 i1 f1 b1 s1 tm1 d1 l1 st1 tu1, PValue t2 i2 f2 b2 s2 tm2 d2 l2 st2 tu2 =>
    (t1 =? t2) && (i1 =? i2) && (f1 =? f2) && Bool.eqb b1 b2 && list_eqb Z.eqb s1 s2 &&
    opt_eqb ts_eqb tm1 tm2 && opt_eqb pd_eqb d1 d2 &&
    list_eqb pvalue_eqb l1 l2 && list_eqb pvalue_eqb st1 st2 && list_eqb pvalue_eqb tu1 tu2
  end.

(* ------------------------------------------------------------------------------------------------ *)
(* octosql.Type in canonical form (only the member selected by TypeID is populated) and message Type *)
Inductive wty : Type :=
| WNull | WInt | WFloat | WBool | WStr | WTime | WDur
| WList (elem : option wty)
| WStruct (fields : list (list Z * wty))
| WTuple (elems : list wty)
| WUnion (alts : list wty)
| WAny.

Definition wty_id (t : wty) : Z :=
  match t with
  | WNull => 0 | WInt => 1 | WFloat => 2 | WBool => 3 | WStr => 4 | WTime => 5 | WDur => 6
  | WList _ => 7 | WStruct _ => 8 | WTuple _ => 9 | WUnion _ => 10 | WAny => 11
  end.

Inductive ptype : Type :=
| PType (type_id : Z) (f_list : option ptype) (f_struct : list (list Z * ptype)) (f_tuple : list ptype) (f_union : list ptype).

Fixpoint type_to_proto (t : wty) : ptype :=
  match t with
  | WList e => PType 7 (match e with Some e => Some (type_to_proto e) | None => None end) [] [] []
  | WStruct fs => PType 8 None (map (fun f => (fst f, type_to_proto (snd f))) fs) [] []
  | WTuple es => PType 9 None [] (map type_to_proto es) []
  | WUnion alts => PType 10 None [] [] (map type_to_proto alts)
  | _ => PType (wty_id t) None [] [] []
  end.

Fixpoint type_to_native (p : ptype) : outcome wty :=
  match p with
  | PType tid l st tu un =>
    if tid =? 0 then Ok WNull
    else if tid =? 1 then Ok WInt
    else if tid =? 2 then Ok WFloat
    else if tid =? 3 then Ok WBool
    else if tid =? 4 then Ok WStr
    else if tid =? 5 then Ok WTime
    else if tid =? 6 then Ok WDur
    else if tid =? 11 then Ok WAny
    else if tid =? 7 then
      match l with
      | Some e => obind (type_to_native e) (fun e' => Ok (WList (Some e')))
      | None => Ok (WList None)
      end
    else if tid =? 8 then
      obind ((fix go (fs : list (list Z * ptype)) : outcome (list (list Z * wty)) :=
                match fs with
                | [] => Ok []
                | f :: r => obind (type_to_native (snd f)) (fun t' => obind (go r) (fun r' => Ok ((fst f, t') :: r')))
                end) st) (fun fs => Ok (WStruct fs))
    else if tid =? 9 then obind (omap type_to_native tu) (fun es => Ok (WTuple es))
    else if tid =? 10 then obind (omap type_to_native un) (fun es => Ok (WUnion es))
    else Panic E_BAD_TYPE_ID
  end.

Fixpoint wty_eqb (a b : wty) {struct a} : bool :=
  match a, b with
  | WNull, WNull | WInt, WInt | WFloat, WFloat | WBool, WBool | WStr, WStr | WTime, WTime | WDur, WDur | WAny, WAny => true
  | WList None, WList None => true
  | WList (Some x), WList (Some y) => wty_eqb x y
  | WStruct fa, WStruct fb =>
      (fix go (la lb : list (list Z * wty)) : bool :=
         match la, lb with
         | [], [] => true
         | x :: xs, y :: ys => list_eqb Z.eqb (fst x) (fst y) && wty_eqb (snd x) (snd y) && go xs ys
         | _, _ => false
         end) fa fb
  | WTuple la, WTuple lb => list_eqb wty_eqb la lb
  | WUnion la, WUnion lb => list_eqb wty_eqb la lb
  | _, _ => false
  end.

Fixpoint ptype_eqb (a b : ptype) {struct a} : bool :=
  match a, b with
  | PType t1 l1 s1 tu1 u1, PType t2 l2 s2 tu2 u2 =>
    (t1 =? t2) &&
    match l1, l2 with Some x, Some y => ptype_eqb x y | None, None => true | _, _ => false end &&
    (fix go (la lb : list (list Z * ptype)) : bool :=
       match la, lb with
       | [], [] => true
       | x :: xs, y :: ys => list_eqb Z.eqb (fst x) (fst y) && ptype_eqb (snd x) (snd y) && go xs ys
       | _, _ => false
       end) s1 s2 &&
    list_eqb ptype_eqb tu1 tu2 && list_eqb ptype_eqb u1 u2
  end.

(* ------------------------------------------------------------------------------------------------ *)
(* physical.Schema / message Schema *)
Definition wfield : Type := (list Z * wty)%type.           (* physical.SchemaField: Name, Type *)
Definition pfield : Type := (list Z * ptype)%type.

Definition field_to_proto (f : wfield) : pfield := (fst f, type_to_proto (snd f)).
Definition field_to_native (f : pfield) : outcome wfield := obind (type_to_native (snd f)) (fun t => Ok (fst f, t)).
Definition wfield_eqb (a b : wfield) : bool := list_eqb Z.eqb (fst a) (fst b) && wty_eqb (snd a) (snd b).
Definition pfield_eqb (a b : pfield) : bool := list_eqb Z.eqb (fst a) (fst b) && ptype_eqb (snd a) (snd b).

Record wschema := mkschema { s_fields : list wfield; s_time_field : Z; s_no_retractions : bool }.
Record pschema := mkpschema { ps_fields : list pfield; ps_time_field : Z; ps_no_retractions : bool }.

Definition schema_to_proto (s : wschema) : pschema :=
  mkpschema (map field_to_proto (s_fields s)) (wrap32 (s_time_field s)) (s_no_retractions s).   (* int32(schema.TimeField) *)
Definition schema_to_native (p : pschema) : outcome wschema :=
  obind (omap field_to_native (ps_fields p)) (fun fs => Ok (mkschema fs (ps_time_field p) (ps_no_retractions p))).
Definition wschema_eqb (a b : wschema) : bool :=
  list_eqb wfield_eqb (s_fields a) (s_fields b) && (s_time_field a =? s_time_field b) && Bool.eqb (s_no_retractions a) (s_no_retractions b).
Definition pschema_eqb (a b : pschema) : bool :=
  list_eqb pfield_eqb (ps_fields a) (ps_fields b) && (ps_time_field a =? ps_time_field b) && Bool.eqb (ps_no_retractions a) (ps_no_retractions b).

(* ------------------------------------------------------------------------------------------------ *)
(* execution.Record / message Record;  execution.MetadataMessage / message MetadataMessage *)
Record wrecord := mkwrec { r_values : list value; r_retraction : bool; r_event_time : Z; r_event_loc : Z }.
Record precord := mkprec { pr_values : list pvalue; pr_retraction : bool; pr_event_time : option pb_timestamp }.

Definition record_to_proto (r : wrecord) : precord :=
  mkprec (map to_proto (r_values r)) (r_retraction r) (Some (ts_new (r_event_time r))).
Definition record_to_native (p : precord) : outcome wrecord :=
  obind (omap to_native (pr_values p)) (fun vs => Ok (mkwrec vs (pr_retraction p) (ts_as_time (pr_event_time p)) loc_utc)).
Definition record_normalise (r : wrecord) : wrecord :=
  mkwrec (map normalise (r_values r)) (r_retraction r) (r_event_time r) loc_utc.
Definition wrecord_eqb (a b : wrecord) : bool :=
  list_eqb value_eqb_loc (r_values a) (r_values b) && Bool.eqb (r_retraction a) (r_retraction b) &&
  (r_event_time a =? r_event_time b) && (r_event_loc a =? r_event_loc b).
Definition precord_eqb (a b : precord) : bool :=
  list_eqb pvalue_eqb (pr_values a) (pr_values b) && Bool.eqb (pr_retraction a) (pr_retraction b) &&
  opt_eqb ts_eqb (pr_event_time a) (pr_event_time b).

Record wmeta := mkwmeta { m_type : Z; m_watermark : Z; m_loc : Z }.
Record pmeta := mkpmeta { pm_type : Z; pm_watermark : option pb_timestamp }.
Definition meta_to_proto (m : wmeta) : pmeta := mkpmeta (wrap32 (m_type m)) (Some (ts_new (m_watermark m))).
Definition meta_to_native (p : pmeta) : wmeta := mkwmeta (pm_type p) (ts_as_time (pm_watermark p)) loc_utc.
Definition wmeta_eqb (a b : wmeta) : bool := (m_type a =? m_type b) && (m_watermark a =? m_watermark b) && (m_loc a =? m_loc b).
Definition pmeta_eqb (a b : pmeta) : bool := (pm_type a =? pm_type b) && opt_eqb ts_eqb (pm_watermark a) (pm_watermark b).

(* ------------------------------------------------------------------------------------------------ *)
(* variable contexts: the Go values are linked lists of frames (Parent pointers), nil = no frame.
   A context is the list of its frames, innermost first. *)
Definition pctx_to_proto (c : list (list wfield)) : list (list pfield) := map (map field_to_proto) c.
(* for i := len(frames)-1; i >= 0; i-- { out = &VariableContext{Fields: ..., Parent: out} } *)
Definition pctx_to_native (p : list (list pfield)) : outcome (list (list wfield)) :=
  fold_left (fun acc fr => obind acc (fun out => obind (omap field_to_native fr) (fun fs => Ok (fs :: out)))) (rev p) (Ok []).

Definition ectx_to_proto (c : list (list value)) : list (list pvalue) := map (map to_proto) c.
Definition ectx_to_native (p : list (list pvalue)) : outcome (list (list value)) :=
  fold_left (fun acc fr => obind acc (fun out => obind (omap to_native fr) (fun vs => Ok (vs :: out)))) (rev p) (Ok []).

(* ------------------------------------------------------------------------------------------------ *)
(* what the transport libraries are assumed to do with a message: proto3 `string` fields must be valid
   UTF-8 (proto.Marshal fails otherwise, so the gRPC call fails); everything else arrives unchanged. *)
(* utf8.Valid *)
Definition u_cont (b : Z) : bool := (128 <=? b) && (b <=? 191).
Fixpoint utf8_valid_fuel (fuel : nat) (s : list Z) : bool :=
  match fuel with
  | O => match s with [] => true | _ => false end
  | S fuel' =>
    match s with
    | [] => true
    | b0 :: r =>
      if b0 <? 128 then utf8_valid_fuel fuel' r
      else if (194 <=? b0) && (b0 <=? 223) then
        match r with b1 :: r' => u_cont b1 && utf8_valid_fuel fuel' r' | _ => false end
      else if (224 <=? b0) && (b0 <=? 239) then
        match r with
        | b1 :: b2 :: r' =>
          (if b0 =? 224 then (160 <=? b1) && (b1 <=? 191)
           else if b0 =? 237 then (128 <=? b1) && (b1 <=? 159)
           else u_cont b1) && u_cont b2 && utf8_valid_fuel fuel' r'
        | _ => false
        end
      else if (240 <=? b0) && (b0 <=? 244) then
        match r with
        | b1 :: b2 :: b3 :: r' =>
          (if b0 =? 240 then (144 <=? b1) && (b1 <=? 191)
           else if b0 =? 244 then (128 <=? b1) && (b1 <=? 143)
           else u_cont b1) && u_cont b2 && u_cont b3 && utf8_valid_fuel fuel' r'
        | _ => false
        end
      else false
    end
  end.
Definition utf8_valid (s : list Z) : bool := utf8_valid_fuel (S (length s)) s.

Fixpoint pvalue_wire_ok (p : pvalue) : bool :=
  match p with
  | PValue _ _ _ _ s _ _ l st tu =>
    utf8_valid s && forallb pvalue_wire_ok l && forallb pvalue_wire_ok st && forallb pvalue_wire_ok tu
  end.
Fixpoint ptype_wire_ok (p : ptype) : bool :=
  match p with
  | PType _ l st tu un =>
    match l with Some e => ptype_wire_ok e | None => true end &&
    forallb (fun f => utf8_valid (fst f) && ptype_wire_ok (snd f)) st &&
    forallb ptype_wire_ok tu && forallb ptype_wire_ok un
  end.

(* ------------------------------------------------------------------------------------------------ *)
(* octosql/types.go: Type.Is, Type.Equals, NonNullable *)
Inductive trel := RIsnt | RMaybe | RIs.
Definition trel_lt_is (r : trel) : bool := match r with RIs => false | _ => true end.     (* r < TypeRelationIs *)
Definition trel_max (a b : trel) : trel :=
  match a, b with
  | RIs, _ | _, RIs => RIs
  | RMaybe, _ | _, RMaybe => RMaybe
  | _, _ => RIsnt
  end.

(* t.Is(other).  The recursion of the Go code either descends into t (any other) or keeps t and descends
   into other, which is the shape of the nested fixpoint below. *)
Fixpoint wty_is (t : wty) : wty -> trel :=
  fix is_t (other : wty) : trel :=
    match other with
    | WAny => RIs
    | _ =>
      match t with
      | WUnion alts =>
        let fits := (fix go (l : list wty) : bool * bool :=      (* (anyFits, allFit) *)
                       match l with
                       | [] => (false, true)
                       | a :: r =>
                         let '(anyf, allf) := go r in
                         match wty_is a other with
                         | RIs => (true, allf)
                         | RMaybe => (true, false)
                         | RIsnt => (anyf, false)
                         end
                       end) alts in
        if snd fits then RIs else if fst fits then RMaybe else RIsnt
      | _ =>
        match other with
        | WUnion oalts =>
          (fix go (l : list wty) : trel :=
             match l with
             | [] => RIsnt
             | a :: r => trel_max (is_t a) (go r)
             end) oalts
        | _ =>
          match t with
          | WList te =>
            match other with
            | WList oe =>
              match te, oe with
              | Some _, None => RIsnt
              | Some a, Some b => if trel_lt_is (wty_is a b) then RIsnt else RIs
              | None, _ => RIs
              end
            | _ => RIsnt
            end
          | WStruct tf =>
            match other with
            | WStruct off =>
              if (fix go (la : list (list Z * wty)) (lb : list (list Z * wty)) : bool :=
                    match la, lb with
                    | [], [] => true
                    | x :: xs, y :: ys =>
                      list_eqb Z.eqb (fst x) (fst y) && negb (trel_lt_is (wty_is (snd x) (snd y))) && go xs ys
                    | _, _ => false
                    end) tf off then RIs else RIsnt
            | _ => RIsnt
            end
          | WTuple te =>
            match other with
            | WTuple oe =>
              if (fix go (la : list wty) (lb : list wty) : bool :=
                    match la, lb with
                    | [], [] => true
                    | x :: xs, y :: ys => negb (trel_lt_is (wty_is x y)) && go xs ys
                    | _, _ => false
                    end) te oe then RIs else RIsnt
            | _ => RIsnt
            end
          | _ => if wty_id t =? wty_id other then RIs else RIsnt
          end
        end
      end
    end.

Definition is_ris (r : trel) : bool := match r with RIs => true | _ => false end.
Definition wty_equals (a b : wty) : bool := is_ris (wty_is a b) && is_ris (wty_is b a).

Definition non_nullable (t : wty) : wty :=
  match t with
  | WUnion alts =>
    let out := filter (fun a => negb (wty_id a =? 0)) alts in
    match out with
    | [x] => x
    | _ => WUnion out
    end
  | _ => t
  end.

(* ------------------------------------------------------------------------------------------------ *)
(* physical.FunctionDescriptor as data.  ArgumentTypes, OutputType and Strict are what encoding/json keeps
   (TypeFn and Function carry the tag json:"-").  A descriptor declared through TypeFn leaves ArgumentTypes nil
   and OutputType at its zero value, which is TypeID 0 = the Null type.
   The TypeFn bodies of functions/functions.go are sequences of guards
        if <cond> { return octosql.Type{}, false }
   followed by code that returns ok = true; the translator turns each guard into a [tfcond]. *)
Inductive tfcond :=
| CLen (n : Z)             (* len(types) != n            -> not ok *)
| CTid (i : nat) (tid : Z) (* types[i].TypeID != tid     -> not ok *)
| CEq (i j : nat).         (* !types[i].Equals(types[j]) -> not ok *)

Definition P_INDEX : Z := 2.    (* index out of range inside a TypeFn *)

Fixpoint tf_accepts (cs : list tfcond) (ts : list wty) : outcome bool :=
  match cs with
  | [] => Ok true
  | CLen n :: r => if Z.of_nat (length ts) =? n then tf_accepts r ts else Ok false
  | CTid i tid :: r =>
    match nth_error ts i with
    | Some t => if wty_id t =? tid then tf_accepts r ts else Ok false
    | None => Panic P_INDEX
    end
  | CEq i j :: r =>
    match nth_error ts i, nth_error ts j with
    | Some a, Some b => if wty_equals a b then tf_accepts r ts else Ok false
    | _, _ => Panic P_INDEX
    end
  end.

Record wdesc := mkwdesc {
  wd_args : list wty;                 (* ArgumentTypes (nil and empty are both []: the code only takes len) *)
  wd_out : wty;                       (* OutputType *)
  wd_typefn : option (list tfcond);   (* TypeFn, when set *)
  wd_strict : bool
}.

(* the part of a descriptor that survives json.Marshal / json.Unmarshal *)
Record wsig := mkwsig { sg_args : list wty; sg_out : wty; sg_strict : bool }.
Definition strip (d : wdesc) : wsig := mkwsig (wd_args d) (wd_out d) (wd_strict d).

(* the four checks of the descriptor loop *)
Definition sig_match (d : wdesc) (recv : wsig) : bool :=
  (Nat.eqb (length (wd_args d)) (length (sg_args recv))) &&
  Bool.eqb (wd_strict d) (sg_strict recv) &&
  wty_equals (wd_out d) (sg_out recv) &&
  (fix go (la lb : list wty) : bool :=
     match la, lb with
     | x :: xs, y :: ys => wty_equals x y && go xs ys
     | _, _ => true
     end) (wd_args d) (sg_args recv).

Fixpoint find_index {A} (f : A -> bool) (i : nat) (l : list A) : option nat :=
  match l with
  | [] => None
  | x :: xs => if f x then Some i else find_index f (S i) xs
  end.

Definition func_table : Type := list (list Z * list wdesc).       (* functions.FunctionMap(), names sorted *)
Fixpoint lookup_name (tbl : func_table) (name : list Z) : option (list wdesc) :=
  match tbl with
  | [] => None
  | (n, ds) :: r => if list_eqb Z.eqb n name then Some ds else lookup_name r name
  end.

(* result of the transformer on one function-call node: the descriptor whose TypeFn/Function were copied in
   (None = the call keeps a nil Function) and what became of the flag outOk *)
Definition repop_result : Type := (option nat * bool)%type.

(* the pinned RepopulatePhysicalExpressionFunctions: first descriptor that passes the four checks; when none
   does, `ok = false` is assigned to the local of the map lookup and outOk stays true. *)
Definition repopulate_pinned (tbl : func_table) (name : list Z) (recv : wsig) : repop_result :=
  match lookup_name tbl name with
  | None => (None, false)
  | Some ds =>
    match find_index (fun d => sig_match d recv) 0 ds with
    | Some i => (Some i, true)
    | None => (None, true)
    end
  end.

(* the argument types a TypeFn is applied to: those of the call's argument expressions, made non-nullable
   when the descriptor is strict (logical/function.go does the same when it resolves the call) *)
Definition eff_types (strict : bool) (arg_types : list wty) : list wty :=
  if strict then map non_nullable arg_types else arg_types.

(* after the fix: a descriptor declared through TypeFn is only selected when its TypeFn accepts the types of
   the call's arguments, and an unknown signature clears outOk. *)
Fixpoint repop_find (ds : list wdesc) (recv : wsig) (arg_types : list wty) (i : nat) : outcome (option nat) :=
  match ds with
  | [] => Ok None
  | d :: r =>
    if sig_match d recv then
      match wd_typefn d with
      | None => Ok (Some i)
      | Some cs =>
        obind (tf_accepts cs (eff_types (wd_strict d) arg_types))
              (fun ok => if ok then Ok (Some i) else repop_find r recv arg_types (S i))
      end
    else repop_find r recv arg_types (S i)
  end.

Definition repopulate (tbl : func_table) (name : list Z) (recv : wsig) (arg_types : list wty) : outcome repop_result :=
  match lookup_name tbl name with
  | None => Ok (None, false)
  | Some ds =>
    obind (repop_find ds recv arg_types 0)
          (fun r => match r with Some i => Ok (Some i, true) | None => Ok (None, false) end)
  end.

(* how the host resolves a call whose descriptor came from the table (logical/function.go, first pass): a TypeFn
   descriptor is chosen only for argument types its TypeFn accepts. *)
Definition host_accepts (d : wdesc) (arg_types : list wty) : Prop :=
  match wd_typefn d with
  | Some cs => tf_accepts cs (eff_types (wd_strict d) arg_types) = Ok true
  | None => True
  end.
Definition host_acceptsb (d : wdesc) (arg_types : list wty) : bool :=
  match wd_typefn d with
  | Some cs => match tf_accepts cs (eff_types (wd_strict d) arg_types) with Ok true => true | _ => false end
  | None => true
  end.

(* Two guard lists that no type list can pass at once: different lengths demanded, or different TypeIDs demanded
   at one position. *)
Definition conds_incompatible (a b : list tfcond) : bool :=
  existsb (fun x => existsb (fun y =>
    match x, y with
    | CLen n, CLen m => negb (n =? m)
    | CTid i s, CTid j t => Nat.eqb i j && negb (s =? t)
    | _, _ => false
    end) b) a.

(* guards that cannot index out of range: the length is checked first and every index is below it *)
Definition cond_idx_lt (n : Z) (c : tfcond) : bool :=
  match c with
  | CLen _ => true
  | CTid i _ => Z.of_nat i <? n
  | CEq i j => (Z.of_nat i <? n) && (Z.of_nat j <? n)
  end.
Definition conds_safe (cs : list tfcond) : bool :=
  match cs with
  | [] => true
  | CLen n :: r => forallb (cond_idx_lt n) r
  | _ => false
  end.
Definition desc_safe (d : wdesc) : bool :=
  match wd_typefn d with Some cs => conds_safe cs | None => true end.

(* the table condition under which resolution after transport is unambiguous: whenever an earlier descriptor of
   the same name passes the four checks against the stripped descriptor d, both are TypeFn descriptors with
   incompatible guards *)
Fixpoint desc_rows_ok (before : list wdesc) (ds : list wdesc) : bool :=
  match ds with
  | [] => true
  | d :: r =>
    forallb (fun k => if sig_match k (strip d)
                      then match wd_typefn k, wd_typefn d with
                           | Some ck, Some cd => conds_incompatible ck cd
                           | _, _ => false
                           end
                      else true) before &&
    sig_match d (strip d) && desc_safe d &&
    desc_rows_ok (before ++ [d]) r
  end.
Definition table_ok (tbl : func_table) : bool :=
  forallb (fun e => desc_rows_ok [] (snd e)) tbl &&
  (fix nodup (l : func_table) : bool :=
     match l with
     | [] => true
     | e :: r => negb (existsb (fun e' => list_eqb Z.eqb (fst e) (fst e')) r) && nodup r
     end) tbl.

(* per-row obligation for the pinned rule (no argument types needed: it ignores them) *)
Definition pinned_row_ok (tbl : func_table) (name : list Z) (i : nat) (d : wdesc) : bool :=
  match repopulate_pinned tbl name (strip d) with
  | (Some j, true) => Nat.eqb i j
  | _ => false
  end.

(* ------------------------------------------------------------------------------------------------ *)
(* physical.Expression as it is marshalled: every node carries its Type; a function call carries the name, the
   kept part of the descriptor and, on the host and after repopulation, the identity of the descriptor its
   TypeFn/Function belong to (an index into the table's list for that name); None = nil Function. *)
Inductive wexpr : Type :=
| XVar (t : wty) (name : list Z) (level0 : bool)
| XConst (t : wty) (v : value)
| XCall (t : wty) (name : list Z) (sg : wsig) (fn : option nat) (args : list wexpr)
| XAnd (t : wty) (args : list wexpr)
| XOr (t : wty) (args : list wexpr)
| XCoalesce (t : wty) (args : list wexpr)
| XTuple (t : wty) (args : list wexpr)
| XAssert (t : wty) (e : wexpr) (target : wty)
| XCast (t : wty) (e : wexpr) (tid : Z)
| XField (t : wty) (e : wexpr) (field : list Z).

Definition xtype (e : wexpr) : wty :=
  match e with
  | XVar t _ _ | XConst t _ | XCall t _ _ _ _ | XAnd t _ | XOr t _ | XCoalesce t _ | XTuple t _
  | XAssert t _ _ | XCast t _ _ | XField t _ _ => t
  end.

(* json.Marshal followed by json.Unmarshal: TypeFn and Function are gone *)
Fixpoint strip_expr (e : wexpr) : wexpr :=
  match e with
  | XCall t n sg _ args => XCall t n sg None (map strip_expr args)
  | XAnd t args => XAnd t (map strip_expr args)
  | XOr t args => XOr t (map strip_expr args)
  | XCoalesce t args => XCoalesce t (map strip_expr args)
  | XTuple t args => XTuple t (map strip_expr args)
  | XAssert t e' tg => XAssert t (strip_expr e') tg
  | XCast t e' tid => XCast t (strip_expr e') tid
  | XField t e' f => XField t (strip_expr e') f
  | _ => e
  end.

(* Transformers.TransformExpr with the repopulating ExpressionTransformer: children first, then the node;
   outOk is the conjunction over all function-call nodes. *)
Definition repop_many (f : wexpr -> outcome (wexpr * bool)) : list wexpr -> outcome (list wexpr * bool) :=
  fix many (l : list wexpr) : outcome (list wexpr * bool) :=
    match l with
    | [] => Ok ([], true)
    | x :: xs => obind (f x) (fun xb => obind (many xs) (fun lb => Ok (fst xb :: fst lb, snd xb && snd lb)))
    end.

Section Repop.
  Variable call : list Z -> wsig -> list wty -> outcome repop_result.

  Fixpoint repop_expr_gen (e : wexpr) : outcome (wexpr * bool) :=
    match e with
    | XVar _ _ _ | XConst _ _ => Ok (e, true)
    | XCall t n sg fn args =>
      obind (repop_many repop_expr_gen args) (fun ab =>
        obind (call n sg (map xtype (fst ab))) (fun r =>
          match r with
          | (Some i, ok) => Ok (XCall t n sg (Some i) (fst ab), snd ab && ok)
          | (None, ok) => Ok (XCall t n sg fn (fst ab), snd ab && ok)
          end))
    | XAnd t args => obind (repop_many repop_expr_gen args) (fun ab => Ok (XAnd t (fst ab), snd ab))
    | XOr t args => obind (repop_many repop_expr_gen args) (fun ab => Ok (XOr t (fst ab), snd ab))
    | XCoalesce t args => obind (repop_many repop_expr_gen args) (fun ab => Ok (XCoalesce t (fst ab), snd ab))
    | XTuple t args => obind (repop_many repop_expr_gen args) (fun ab => Ok (XTuple t (fst ab), snd ab))
    | XAssert t e' tg => obind (repop_expr_gen e') (fun eb => Ok (XAssert t (fst eb) tg, snd eb))
    | XCast t e' tid => obind (repop_expr_gen e') (fun eb => Ok (XCast t (fst eb) tid, snd eb))
    | XField t e' f => obind (repop_expr_gen e') (fun eb => Ok (XField t (fst eb) f, snd eb))
    end.
End Repop.

Definition repop_expr (tbl : func_table) : wexpr -> outcome (wexpr * bool) :=
  repop_expr_gen (repopulate tbl).
Definition repop_expr_pinned (tbl : func_table) : wexpr -> outcome (wexpr * bool) :=
  repop_expr_gen (fun n sg _ => Ok (repopulate_pinned tbl n sg)).

(* every call node of a host expression refers to a descriptor of the table that the host's resolution could
   have chosen for the types of its arguments *)
Inductive well_resolved (tbl : func_table) : wexpr -> Prop :=
| WR_var : forall t n l, well_resolved tbl (XVar t n l)
| WR_const : forall t v, well_resolved tbl (XConst t v)
| WR_call : forall t n ds i d args,
    lookup_name tbl n = Some ds -> nth_error ds i = Some d -> host_accepts d (map xtype args) ->
    Forall (well_resolved tbl) args -> well_resolved tbl (XCall t n (strip d) (Some i) args)
| WR_and : forall t args, Forall (well_resolved tbl) args -> well_resolved tbl (XAnd t args)
| WR_or : forall t args, Forall (well_resolved tbl) args -> well_resolved tbl (XOr t args)
| WR_coalesce : forall t args, Forall (well_resolved tbl) args -> well_resolved tbl (XCoalesce t args)
| WR_tuple : forall t args, Forall (well_resolved tbl) args -> well_resolved tbl (XTuple t args)
| WR_assert : forall t e tg, well_resolved tbl e -> well_resolved tbl (XAssert t e tg)
| WR_cast : forall t e tid, well_resolved tbl e -> well_resolved tbl (XCast t e tid)
| WR_field : forall t e f, well_resolved tbl e -> well_resolved tbl (XField t e f).

(* ------------------------------------------------------------------------------------------------ *)
(* cases of the differential run (harness/cmd/c26).  Each carries the input and what the implementation did. *)
Inductive obs (A : Type) := OOk (a : A) | OPanic.
Arguments OOk {A} a.
Arguments OPanic {A}.
Definition obs_eqb {A} (eqb : A -> A -> bool) (m : outcome A) (o : obs A) : bool :=
  match m, o with
  | Ok a, OOk b => eqb a b
  | Panic _, OPanic => true
  | _, _ => false
  end.

Inductive c26_case :=
(* value, observed proto message, observed value after ToNativeValue, proto.Marshal succeeded, value after the byte trip *)
| KValue (v : value) (p : pvalue) (back : value) (wire_ok : bool) (wire_back : option value)
| KType (t : wty) (p : ptype) (back : wty) (wire_ok : bool) (wire_back : option wty)
| KSchema (s : wschema) (p : pschema) (back : wschema)
| KRecord (r : wrecord) (p : precord) (back : wrecord)
| KMeta (m : wmeta) (p : pmeta) (back : wmeta)
| KPctx (c : list (list wfield)) (p : list (list pfield)) (back : list (list wfield))
| KEctx (c : list (list value)) (p : list (list pvalue)) (back : list (list value))
(* a hand-built proto message (possibly with an invalid type id) and what ToNativeValue did with it *)
| KFromProto (p : pvalue) (back : obs value)
(* one function call: name, index of the descriptor the host chose, argument types; observed: index of the descriptor
   whose Function the real Repopulate installed (by probing), its ok flag; host result and plugin-side result agree *)
| KCall (name : list Z) (idx : nat) (arg_types : list wty) (got : option nat) (ok : bool) (same_result : bool)
(* a received signature that belongs to no descriptor *)
| KUnknown (name : list Z) (sg : wsig) (arg_types : list wty) (got : option nat) (ok : bool)
(* end to end: the CLI's rows for a query against the test plugin equal its rows for the same data as a JSON file *)
| KQuery (same_rows : bool).

Definition olist_eqb {A} (eqb : A -> A -> bool) := list_eqb (list_eqb eqb).

Section Cases.
  Variable tbl : func_table.

  (* tie: the model computes what the implementation was observed to do *)
  Definition c26_tie (c : c26_case) : bool :=
    match c with
    | KValue v p back wok wback =>
      pvalue_eqb (to_proto v) p &&
      obs_eqb value_eqb_loc (to_native (to_proto v)) (OOk back) &&
      Bool.eqb (pvalue_wire_ok (to_proto v)) wok &&
      match wback with Some b => wok && obs_eqb value_eqb_loc (to_native (to_proto v)) (OOk b) | None => negb wok end
    | KType t p back wok wback =>
      ptype_eqb (type_to_proto t) p &&
      obs_eqb wty_eqb (type_to_native (type_to_proto t)) (OOk back) &&
      Bool.eqb (ptype_wire_ok (type_to_proto t)) wok &&
      match wback with Some b => wok && obs_eqb wty_eqb (type_to_native (type_to_proto t)) (OOk b) | None => negb wok end
    | KSchema s p back =>
      pschema_eqb (schema_to_proto s) p && obs_eqb wschema_eqb (schema_to_native (schema_to_proto s)) (OOk back)
    | KRecord r p back =>
      precord_eqb (record_to_proto r) p && obs_eqb wrecord_eqb (record_to_native (record_to_proto r)) (OOk back)
    | KMeta m p back => pmeta_eqb (meta_to_proto m) p && wmeta_eqb (meta_to_native (meta_to_proto m)) back
    | KPctx c p back =>
      olist_eqb pfield_eqb (pctx_to_proto c) p && obs_eqb (olist_eqb wfield_eqb) (pctx_to_native (pctx_to_proto c)) (OOk back)
    | KEctx c p back =>
      olist_eqb pvalue_eqb (ectx_to_proto c) p && obs_eqb (olist_eqb value_eqb_loc) (ectx_to_native (ectx_to_proto c)) (OOk back)
    | KFromProto p back => obs_eqb value_eqb_loc (to_native p) back
    | KCall name idx ats got ok _ =>
      match lookup_name tbl name with
      | Some ds =>
        match nth_error ds idx with
        | Some d =>
          match repopulate tbl name (strip d) ats with
          | Ok (g, k) => opt_eqb Nat.eqb g got && Bool.eqb k ok
          | _ => false
          end
        | None => false
        end
      | None => false
      end
    | KUnknown name sg ats got ok =>
      match repopulate tbl name sg ats with
      | Ok (g, k) => opt_eqb Nat.eqb g got && Bool.eqb k ok
      | _ => false
      end
    | KQuery _ => true
    end.

  (* the same with the pinned resolution rule (used to show the witness of C26_repopulate_refuted on the code) *)
  Definition c26_tie_pinned (c : c26_case) : bool :=
    match c with
    | KCall name idx ats got ok _ =>
      match lookup_name tbl name with
      | Some ds =>
        match nth_error ds idx with
        | Some d => let '(g, k) := repopulate_pinned tbl name (strip d) in opt_eqb Nat.eqb g got && Bool.eqb k ok
        | None => false
        end
      | None => false
      end
    | KUnknown name sg ats got ok =>
      let '(g, k) := repopulate_pinned tbl name sg in opt_eqb Nat.eqb g got && Bool.eqb k ok
    | _ => c26_tie c
    end.

  (* spec: the property itself, applied to what the implementation produced *)
  Definition c26_spec (c : c26_case) : bool :=
    match c with
    | KValue v _ back wok wback =>
      value_eqb_loc back (normalise v) &&
      match wback with Some b => value_eqb_loc b (normalise v) | None => false end
    | KType t _ back wok wback =>
      wty_eqb back t && match wback with Some b => wty_eqb b t | None => false end
    | KSchema s _ back => wschema_eqb back s
    | KRecord r _ back => wrecord_eqb back (record_normalise r)
    | KMeta m _ back => wmeta_eqb back (mkwmeta (m_type m) (m_watermark m) loc_utc)
    | KPctx c _ back => olist_eqb wfield_eqb back c
    | KEctx c _ back => olist_eqb value_eqb_loc back (map (map normalise) c)
    | KFromProto _ _ => true
    | KCall name idx _ got ok same => opt_eqb Nat.eqb got (Some idx) && ok && same
    | KUnknown name sg _ got ok =>
      (* only a signature that no descriptor of that name passes the four checks against must be refused *)
      match lookup_name tbl name with
      | Some ds => if existsb (fun d => sig_match d sg) ds then true else opt_eqb Nat.eqb got None && negb ok
      | None => opt_eqb Nat.eqb got None && negb ok
      end
    | KQuery same => same
    end.
End Cases.
