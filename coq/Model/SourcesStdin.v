(* Model/SourcesStdin.v — C23 (3): execution/files/stdin.go.
   The bytes a schema preview consumed from stdin are kept in previewedBuffer and replayed (io.MultiReader)
   before the rest of stdin, for every later preview and for the execution.  A Read on the MultiReader is
   served by the first non-exhausted reader only.  Opens are sequential (each Creator closes its preview
   before the next open: the concurrentReaders counter is not modelled, see C29).
   Executable definitions only. *)
From Octo Require Export Base.
From Octo Require Export SourcesScan.   (* bytes *)

(* one Read(p): len(p) = S req; the OS returns at most S osn bytes of what is pending on stdin *)
Definition rd : Type := (nat * nat)%type.

(* preview session: MultiReader(bytes.NewReader(copy of previewedBuffer), &stdinPreviewingReader{}).
   rp = the unread part of the copy, buf = previewedBuffer, rest = what stdin still holds *)
Fixpoint preview_reads (rp buf rest : bytes) (reads : list rd) (seen : bytes) : bytes * bytes * bytes :=
  match reads with
  | [] => (buf, rest, seen)
  | (req, osn) :: more =>
    match rp with
    | _ :: _ => let n := Nat.min (S req) (length rp) in
                preview_reads (skipn n rp) buf rest more (seen ++ firstn n rp)
    | [] => let got := firstn (Nat.min (S req) (S osn)) rest in       (* os.Stdin.Read, then previewedBuffer.Write(p[:n]) *)
            preview_reads [] (buf ++ got) (skipn (Nat.min (S req) (S osn)) rest) more (seen ++ got)
    end
  end.

(* execution session: MultiReader(bytes.NewReader(previewedBuffer.Bytes()), os.Stdin); returns what was
   read and what is still unread (replay part, stdin part) *)
Fixpoint exec_reads (rp rest : bytes) (reads : list rd) (seen : bytes) : bytes * bytes * bytes :=
  match reads with
  | [] => (seen, rp, rest)
  | (req, osn) :: more =>
    match rp with
    | _ :: _ => let n := Nat.min (S req) (length rp) in exec_reads (skipn n rp) rest more (seen ++ firstn n rp)
    | [] => let n := Nat.min (S req) (S osn) in exec_reads [] (skipn n rest) more (seen ++ firstn n rest)
    end
  end.

(* global state: previewedBuffer (None once the execution open set it to nil), stdin, alreadyOpenedNoPreview *)
Record sstate : Type := mks { pbuf : option bytes; srest : bytes; opened : nat }.

Definition open_preview (st : sstate) (reads : list rd) : outcome (sstate * bytes) :=
  match pbuf st with
  | None => Panic 1                                  (* previewedBuffer.Len() on a nil *bytes.Buffer *)
  | Some buf =>
      let '(buf', rest', seen) := preview_reads buf buf (srest st) reads [] in
      Ok (mks (Some buf') rest' (opened st), seen)
  end.

Definition open_exec (st : sstate) (reads : list rd) : outcome (sstate * (bytes * bytes)) :=
  if (1 <=? opened st)%nat then Err 1                (* "stdin already opened" *)
  else match pbuf st with
       | None => Panic 1
       | Some buf =>
           let '(seen, rp, rest') := exec_reads buf (srest st) reads [] in
           Ok (mks None rest' (S (opened st)), (seen, rp ++ rest'))
       end.

Fixpoint run_previews (st : sstate) (previews : list (list rd)) (acc : list bytes) : outcome (sstate * list bytes) :=
  match previews with
  | [] => Ok (st, acc)
  | p :: more => match open_preview st p with
                 | Ok (st', seen) => run_previews st' more (acc ++ [seen])
                 | Err e => Err e
                 | Panic s => Panic s
                 end
  end.

(* a query over stdin: the typecheck phase previews the table (once per mention), then execution reads it.
   Result: what each preview saw, what execution read, what execution had not read yet when it stopped *)
Definition run_stdin (input : bytes) (previews : list (list rd)) (final_reads : list rd)
  : outcome (list bytes * bytes * bytes) :=
  match run_previews (mks (Some []) input 0) previews [] with
  | Ok (st, seens) =>
      match open_exec st final_reads with
      | Ok (_, (seen, unread)) => Ok (seens, seen, unread)
      | Err e => Err e
      | Panic s => Panic s
      end
  | Err e => Err e
  | Panic s => Panic s
  end.

(* differential case: (input, previews, execution reads, observed bytes read by execution up to EOF) —
   the engine drains stdin, so the observation is compared with seen ++ unread *)
Definition stdin_case : Type := bytes * list (list (Z * Z)) * list (Z * Z) * bytes.
Definition to_rd (p : Z * Z) : rd := (Z.to_nat (fst p), Z.to_nat (snd p)).
Definition stdin_tie (c : stdin_case) : bool :=
  let '(input, previews, reads, obs) := c in
  match run_stdin input (map (map to_rd) previews) (map to_rd reads) with
  | Ok (_, seen, unread) => bytes_eqb (seen ++ unread) obs
  | _ => false
  end.
Definition stdin_spec (c : stdin_case) : bool :=
  let '(input, _, _, obs) := c in bytes_eqb input obs.
