(* Model/Optimizer.v — optimizer/*.go, physical/transform.go (TransformNode), physical/expression.go
   (SplitByAnd, VariablesUsed, VariableNameMatchesField), physical/nodes.go (Datasource.PushDownPredicates).
   Each rule is  plan -> outcome (plan * bool)  = Go's  func(Node) (Node, changed bool)  with a Go panic as a value.
   Executable only.  The rule ORDER is not written here: it is Gen/GenOptimizer.v, regenerated from
   optimizer/optimize.go on every run; [optimize] dispatches on those names. *)
From Octo Require Export Plan.
From Octo Require Import GenOptimizer.

(* The three places where the pinned tree and the repaired tree differ. *)
Record cfg := mkCfg {
  vu_complete : bool;        (* VariablesUsed handles Coalesce / Tuple / ObjectFieldAccess (pinned: panic) *)
  unnest_counts : bool;      (* isUsed counts Unnest.Field as a use (pinned: it does not) *)
  merge_inner_first : bool   (* MergeFilters lists the inner filter's conjuncts first (pinned: outer first) *)
}.
Definition fixed_cfg := mkCfg true true true.
Definition pinned_cfg := mkCfg false false false.

Definition panic_unexhaustive_expression : Z := 1.   (* "unexhaustive expression type match" *)
Definition err_out_of_fuel : Z := 1.
Definition err_unknown_rule : Z := 2.

(* ---- physical/expression.go ---- *)
Fixpoint split_by_and (e : expr) : list expr :=
  match e with
  | EAnd args => flat_map split_by_and args
  | _ => [e]
  end.

Definition ocollect {A} (f : A -> outcome (list name)) : list A -> outcome (list name) :=
  fix go (l : list A) : outcome (list name) :=
    match l with
    | [] => Ok []
    | x :: t => obind (f x) (fun a => obind (go t) (fun b => Ok (a ++ b)))
    end.

(* VariablesUsed: a set in Go (map keys, random order); only ever tested for membership, so a list here *)
Fixpoint variables_used (c : cfg) (e : expr) {struct e} : outcome (list name) :=
  match e with
  | EVar n _ => Ok [n]
  | EConst _ => Ok []
  | ECall _ args | EAnd args | EOr args => ocollect (variables_used c) args
  | EAssert _ e' | ECast _ e' => variables_used c e'
  | EOther _ _ args => if vu_complete c then ocollect (variables_used c) args else Panic panic_unexhaustive_expression
  end.

Fixpoint count_dots (s : string) : Z :=
  match s with
  | EmptyString => 0
  | String ch t => (if Ascii.eqb ch "."%char then 1 else 0) + count_dots t
  end.
(* fieldName[strings.Index(fieldName, ".")+1:]  — the whole string when there is no dot (Index = -1) *)
Fixpoint after_first_dot (s : string) : option string :=
  match s with
  | EmptyString => None
  | String ch t => if Ascii.eqb ch "."%char then Some t else after_first_dot t
  end.
Definition var_matches_field (v f : name) : bool :=
  name_eqb v f ||
  ((count_dots v =? count_dots f - 1) &&
   name_eqb (match after_first_dot f with Some t => t | None => f end) v).

(* optimizer.UsesVariablesFromSchema *)
Definition uses_vars_from_schema (fields vars : list name) : bool :=
  existsb (fun n => existsb (var_matches_field n) fields) vars.

(* ---- physical/transform.go: TransformNode with only a NodeTransformer.  Children first (in the order of the
   struct literal: Left before Right, Source before Joined), then the transformer on the rebuilt node. ---- *)
Definition nt := plan -> outcome (plan * bool).    (* node transformer + "did it fire" (the captured `changed`) *)

Fixpoint tr_node (f : nt) (p : plan) {struct p} : outcome (plan * bool) :=
  let fin (q : plan) (c : bool) := obind (f q) (fun r => Ok (fst r, c || snd r)) in
  match p with
  | PDatasource _ _ _ _ _ _ | PTvf _ _ _ => fin p false
  | PDistinct s src => obind (tr_node f src) (fun a => fin (PDistinct s (fst a)) (snd a))
  | PFilter s e src => obind (tr_node f src) (fun a => fin (PFilter s e (fst a)) (snd a))
  | PGroupBy s k ag aa ke tg src => obind (tr_node f src) (fun a => fin (PGroupBy s k ag aa ke tg (fst a)) (snd a))
  | PStreamJoin s lk rk l r =>
      obind (tr_node f l) (fun a => obind (tr_node f r) (fun b =>
        fin (PStreamJoin s lk rk (fst a) (fst b)) (snd a || snd b)))
  | PLookupJoin s src j =>
      obind (tr_node f src) (fun a => obind (tr_node f j) (fun b =>
        fin (PLookupJoin s (fst a) (fst b)) (snd a || snd b)))
  | PMap s es src => obind (tr_node f src) (fun a => fin (PMap s es (fst a)) (snd a))
  | PUnnest s fd src => obind (tr_node f src) (fun a => fin (PUnnest s fd (fst a)) (snd a))
  | POst s k d li src => obind (tr_node f src) (fun a => fin (POst s k d li (fst a)) (snd a))
  | PTvfT s fn ta ar src => obind (tr_node f src) (fun a => fin (PTvfT s fn ta ar (fst a)) (snd a))
  end.

(* `if changed { return output, true } else { return node, false }` *)
Definition run_nt (f : nt) (p : plan) : outcome (plan * bool) :=
  obind (tr_node f p) (fun r => if snd r then Ok (fst r, true) else Ok (p, false)).

(* a filter with a conjunction of the given predicates, or the source itself when there is none *)
Definition and_filter (ps : list expr) (src : plan) : plan :=
  match ps with
  | [] => src
  | _ => PFilter (schema_of src) (EAnd ps) src
  end.

(* ---- optimizer/filter_merge.go ---- *)
Definition merge_nt (c : cfg) : nt := fun p =>
  match p with
  | PFilter _ e (PFilter s2 e2 src) =>
      Ok (PFilter s2 (EAnd (if merge_inner_first c then split_by_and e2 ++ split_by_and e
                            else split_by_and e ++ split_by_and e2)) src, true)
  | _ => Ok (p, false)
  end.

(* ---- physical.Datasource.PushDownPredicates + optimizer/filter_datasource_pushdown.go ---- *)
Fixpoint is_prefix (pre s : string) : bool :=
  match pre, s with
  | EmptyString, _ => true
  | String a p', String b s' => Ascii.eqb a b && is_prefix p' s'
  | _, _ => false
  end.
Fixpoint drop_chars (n : nat) (s : string) : string :=
  match n, s with
  | S n', String _ t => drop_chars n' t
  | _, _ => s
  end.
Definition trim_prefix (s pre : string) : string := if is_prefix pre s then drop_chars (String.length pre) s else s.

Fixpoint nassoc (n : name) (l : list (name * name)) : option name :=
  match l with
  | [] => None
  | (k, v) :: t => if name_eqb n k then Some v else nassoc n t
  end.
(* renameRecordVariablesExpr: level-0 variables whose name is a key *)
Fixpoint rename_expr (m : list (name * name)) (e : expr) {struct e} : expr :=
  match e with
  | EVar n true => match nassoc n m with Some n' => EVar n' true | None => e end
  | EVar _ false | EConst _ => e
  | ECall f args => ECall f (map (rename_expr m) args)
  | EAnd args => EAnd (map (rename_expr m) args)
  | EOr args => EOr (map (rename_expr m) args)
  | EAssert t e' => EAssert t (rename_expr m e')
  | ECast t e' => ECast t (rename_expr m e')
  | EOther k t args => EOther k t (map (rename_expr m) args)
  end.

(* the harness's DatasourceImplementation.PushDownPredicates, by policy (0 = every built-in file datasource) *)
Definition ds_accepts (policy : Z) (e : expr) : bool :=
  if policy =? 1 then true
  else if policy =? 2 then match e with ECall f [EVar _ _; EConst _] => name_eqb f "="%string | _ => false end
  else false.
Definition impl_push (policy : Z) (newp pushed : list expr) : list expr * list expr * bool :=
  if policy =? 0 then (newp, [], false)
  else (filter (fun e => negb (ds_accepts policy e)) newp,
        pushed ++ filter (ds_accepts policy) newp,
        existsb (ds_accepts policy) newp).
Definition ds_push (alias : name) (mapping : list (name * name)) (policy : Z) (newp pushed : list expr)
  : list expr * list expr * bool :=
  let u2c := map (fun kv => (snd kv, trim_prefix (fst kv) (alias ++ ".")%string)) mapping in
  let c2u := map (fun kv => (trim_prefix (fst kv) (alias ++ ".")%string, snd kv)) mapping in
  let '(rej, pd, ch) := impl_push policy (map (rename_expr u2c) newp) (map (rename_expr u2c) pushed) in
  (map (rename_expr c2u) rej, map (rename_expr c2u) pd, ch).

Definition ds_pushdown_nt : nt := fun p =>
  match p with
  | PFilter s e (PDatasource s2 n al mp pol preds) =>
      let '(newf, newp, ch) := ds_push al mp pol (split_by_and e) preds in
      if ch then
        let out := PDatasource s2 n al mp pol newp in
        Ok (match newf with [] => out | _ => PFilter s (EAnd newf) out end, true)
      else Ok (p, false)
  | _ => Ok (p, false)
  end.

(* ---- optimizer/push_filter_into_stream_join_branch.go ---- *)
Fixpoint sj_branch_split (c : cfg) (lf rf : list name) (ps : list expr)
  : outcome (list expr * list expr * list expr) :=     (* stayedAbove, pushedDownLeft, pushedDownRight *)
  match ps with
  | [] => Ok ([], [], [])
  | e :: t =>
      obind (variables_used c e) (fun vars =>
      obind (sj_branch_split c lf rf t) (fun r =>
        let '(st, pl, pr) := r in
        let ul := uses_vars_from_schema lf vars in
        let ur := uses_vars_from_schema rf vars in
        Ok (if ul && ur then e :: st else st, if negb ur then e :: pl else pl, if negb ul then e :: pr else pr)))
  end.
Definition sj_branch_nt (c : cfg) : nt := fun p =>
  match p with
  | PFilter _ e (PStreamJoin s2 lk rk l r) =>
      let ps := split_by_and e in
      obind (sj_branch_split c (fields_of l) (fields_of r) ps) (fun res =>
        let '(st, pl, pr) := res in
        if Nat.eqb (length st) (length ps) then Ok (p, false)
        else Ok (and_filter st (PStreamJoin s2 lk rk (and_filter pl l) (and_filter pr r)), true))
  | _ => Ok (p, false)
  end.

(* ---- optimizer/push_filter_into_stream_join_key.go ---- *)
Fixpoint sj_key_split (c : cfg) (lf rf : list name) (ps : list expr)
  : outcome (list expr * list expr * list expr) :=     (* stayedAbove, leftKeyAdd, rightKeyAdd *)
  match ps with
  | [] => Ok ([], [], [])
  | e :: t =>
      obind (match e with
             | ECall f [a; b] =>          (* Arguments[0], Arguments[1]: "=" has exactly two *)
                 if name_eqb f "="%string then
                   obind (variables_used c a) (fun va => obind (variables_used c b) (fun vb =>
                     let al := uses_vars_from_schema lf va in let ar := uses_vars_from_schema rf va in
                     let bl := uses_vars_from_schema lf vb in let br := uses_vars_from_schema rf vb in
                     if al && negb ar && negb bl && br then Ok (Some (a, b))
                     else if negb al && ar && bl && negb br then Ok (Some (b, a))
                     else Ok None))
                 else Ok None
             | _ => Ok None
             end) (fun k =>
      obind (sj_key_split c lf rf t) (fun r =>
        let '(st, la, ra) := r in
        match k with
        | Some (x, y) => Ok (st, x :: la, y :: ra)
        | None => Ok (e :: st, la, ra)
        end))
  end.
Definition sj_key_nt (c : cfg) : nt := fun p =>
  match p with
  | PFilter _ e (PStreamJoin s2 lk rk l r) =>
      let ps := split_by_and e in
      obind (sj_key_split c (fields_of l) (fields_of r) ps) (fun res =>
        let '(st, la, ra) := res in
        if Nat.eqb (length st) (length ps) then Ok (p, false)
        else Ok (and_filter st (PStreamJoin s2 (lk ++ la) (rk ++ ra) l r), true))
  | _ => Ok (p, false)
  end.

(* ---- optimizer/push_filter_into_lookup_join_branch.go ---- *)
Fixpoint set_nonlevel0 (fs : list name) (e : expr) {struct e} : expr :=
  match e with
  | EVar n l => if mem n fs then EVar n false else e
  | EConst _ => e
  | ECall f args => ECall f (map (set_nonlevel0 fs) args)
  | EAnd args => EAnd (map (set_nonlevel0 fs) args)
  | EOr args => EOr (map (set_nonlevel0 fs) args)
  | EAssert t e' => EAssert t (set_nonlevel0 fs e')
  | ECast t e' => ECast t (set_nonlevel0 fs e')
  | EOther k t args => EOther k t (map (set_nonlevel0 fs) args)
  end.
Fixpoint lj_split (c : cfg) (jf : list name) (ps : list expr) : outcome (list expr * list expr) :=  (* source, joined *)
  match ps with
  | [] => Ok ([], [])
  | e :: t =>
      obind (variables_used c e) (fun vars =>
      obind (lj_split c jf t) (fun r =>
        if negb (uses_vars_from_schema jf vars) then Ok (e :: fst r, snd r) else Ok (fst r, e :: snd r)))
  end.
Definition lj_branch_nt (c : cfg) : nt := fun p =>
  match p with
  | PFilter _ e (PLookupJoin s2 src j) =>
      obind (lj_split c (fields_of j) (split_by_and e)) (fun res =>
        let '(ps, pj) := res in
        let j' := match pj with
                  | [] => j
                  | _ => PFilter (schema_of j) (set_nonlevel0 (fields_of src) (EAnd pj)) j
                  end in
        Ok (PLookupJoin s2 (and_filter ps src) j', true))
  | _ => Ok (p, false)
  end.

(* ---- the three remove-unused rules: pure traversals ---- *)
Fixpoint tr_pure (f : plan -> plan) (p : plan) {struct p} : plan :=
  match p with
  | PDatasource _ _ _ _ _ _ | PTvf _ _ _ => f p
  | PDistinct s src => f (PDistinct s (tr_pure f src))
  | PFilter s e src => f (PFilter s e (tr_pure f src))
  | PGroupBy s k ag aa ke tg src => f (PGroupBy s k ag aa ke tg (tr_pure f src))
  | PStreamJoin s lk rk l r => f (PStreamJoin s lk rk (tr_pure f l) (tr_pure f r))
  | PLookupJoin s src j => f (PLookupJoin s (tr_pure f src) (tr_pure f j))
  | PMap s es src => f (PMap s es (tr_pure f src))
  | PUnnest s fd src => f (PUnnest s fd (tr_pure f src))
  | POst s k d li src => f (POst s k d li (tr_pure f src))
  | PTvfT s fn ta ar src => f (PTvfT s fn ta ar (tr_pure f src))
  end.
(* the nodes in the order a NodeTransformer sees them *)
Fixpoint subplans_post (p : plan) : list plan :=
  match p with
  | PDatasource _ _ _ _ _ _ | PTvf _ _ _ => [p]
  | PDistinct _ src | PFilter _ _ src | PGroupBy _ _ _ _ _ _ src | PMap _ _ src | PUnnest _ _ src | POst _ _ _ _ src
  | PTvfT _ _ _ _ src =>
      subplans_post src ++ [p]
  | PStreamJoin _ _ _ l r | PLookupJoin _ l r => subplans_post l ++ subplans_post r ++ [p]
  end.

Fixpoint drop_time_field (i : Z) (tf : Z) (l : list name) : list name :=
  match l with
  | [] => []
  | x :: t => if i =? tf then drop_time_field (i + 1) tf t else x :: drop_time_field (i + 1) tf t
  end.
Definition non_time_fields (s : schema) : list name := drop_time_field 0 (stf s) (sf s).

Definition map_fields (p : plan) : list name :=
  flat_map (fun q => match q with PMap s _ _ => non_time_fields s | _ => [] end) (subplans_post p).
Definition datasource_fields (p : plan) : list name :=
  flat_map (fun q => match q with PDatasource s _ _ _ _ _ => non_time_fields s | _ => [] end) (subplans_post p).
Definition groupby_fields (p : plan) : list name :=
  flat_map (fun q => match q with
                     | PGroupBy s keys _ _ _ _ _ =>
                         drop_time_field (Z.of_nat (length keys)) (stf s) (skipn (length keys) (sf s))
                     | _ => [] end) (subplans_post p).

(* every expression a TransformNode reaches in one node *)
Definition node_exprs (p : plan) : list expr :=
  match p with
  | PDatasource _ _ _ _ _ preds => preds
  | PDistinct _ _ | PLookupJoin _ _ _ | PUnnest _ _ _ => []
  | PFilter _ e _ => [e]
  | PGroupBy _ keys _ aggargs _ _ _ => aggargs ++ keys
  | PStreamJoin _ lk rk _ _ => lk ++ rk
  | PMap _ es _ => es
  | POst _ keys _ limit _ => keys ++ match limit with Some e => [e] | None => [] end
  | PTvf _ _ args | PTvfT _ _ _ args _ => flat_map (fun a => match snd a with TAExpr e => [e] | TADesc _ => [] end) args
  end.
Definition node_uses (c : cfg) (field : name) (p : plan) : bool :=
  existsb (fun e => mem field (expr_vars e)) (node_exprs p) ||
  match p with
  | PTvf _ _ args | PTvfT _ _ _ args _ =>
      existsb (fun a => match snd a with TADesc d => name_eqb d field | TAExpr _ => false end) args
  | PDistinct s _ => mem field (sf s)
  | PUnnest _ fd _ => unnest_counts c && name_eqb fd field
  | _ => false
  end.
(* optimizer.isUsed *)
Definition is_used (c : cfg) (field : name) (p : plan) : bool :=
  mem field (fields_of p) || existsb (node_uses c field) (subplans_post p).

(* `index = i` for every i with Fields[i].Name == field: the LAST occurrence *)
Fixpoint last_index (n : name) (l : list name) : option nat :=
  match l with
  | [] => None
  | x :: t => match last_index n t with
              | Some i => Some (S i)
              | None => if name_eqb x n then Some O else None
              end
  end.
Fixpoint remove_nth {A} (i : nat) (l : list A) : list A :=
  match l, i with
  | [], _ => []
  | _ :: t, O => t
  | h :: t, S i' => h :: remove_nth i' t
  end.
Definition schema_remove (i : nat) (s : schema) : schema :=
  mkS (remove_nth i (sf s)) (if Z.of_nat i <? stf s then stf s - 1 else stf s).
Definition with_schema (s : schema) (p : plan) : plan :=
  match p with
  | PDatasource _ n al mp pol pr => PDatasource s n al mp pol pr
  | PDistinct _ x => PDistinct s x
  | PFilter _ e x => PFilter s e x
  | PGroupBy _ k a g ke t x => PGroupBy s k a g ke t x
  | PStreamJoin _ lk rk l r => PStreamJoin s lk rk l r
  | PLookupJoin _ l r => PLookupJoin s l r
  | PMap _ es x => PMap s es x
  | PUnnest _ f x => PUnnest s f x
  | POst _ k d li x => POst s k d li x
  | PTvf _ f a => PTvf s f a
  | PTvfT _ f ta a x => PTvfT s f ta a x
  end.

Definition remove_from_passers1 (field : name) (p : plan) : plan :=
  match last_index field (fields_of p) with
  | Some i => with_schema (schema_remove i (schema_of p)) p
  | None => p
  end.
Definition remove_field_from_passers (field : name) : plan -> plan := tr_pure (remove_from_passers1 field).

Definition remove_map_field1 (field : name) (p : plan) : plan :=
  match p with
  | PMap s es src => match last_index field (sf s) with
                     | Some i => PMap (schema_remove i s) (remove_nth i es) src
                     | None => p
                     end
  | _ => p
  end.
Definition remove_datasource_field1 (field : name) (p : plan) : plan :=
  match p with
  | PDatasource s n al mp pol pr => match last_index field (sf s) with
                                    | Some i => PDatasource (schema_remove i s) n al mp pol pr
                                    | None => p
                                    end
  | _ => p
  end.
(* aggregateIndex := index - len(Key); a negative index (the field is a key) is a slice-bounds panic in Go: the
   candidates are never key fields (groupby_fields skips them), wf_plan + unique names exclude it *)
Definition remove_groupby_field1 (field : name) (p : plan) : plan :=
  match p with
  | PGroupBy s keys aggs aggargs ke tg src =>
      match last_index field (sf s) with
      | Some i => let ai := (i - length keys)%nat in
                  PGroupBy (schema_remove i s) keys (remove_nth ai aggs) (remove_nth ai aggargs) ke tg src
      | None => p
      end
  | _ => p
  end.

Definition remove_unused (c : cfg) (candidates : plan -> list name) (remove1 : name -> plan -> plan) (p : plan)
  : plan * bool :=
  fold_left (fun acc field =>
               if is_used c field (fst acc) then acc
               else (remove_field_from_passers field (tr_pure (remove1 field) (fst acc)), true))
            (candidates p) (p, false).

(* ---- optimizer/optimize.go ---- *)
Definition rule := plan -> outcome (plan * bool).
Definition rule_of_name (c : cfg) (nm : string) : option rule :=
  if String.eqb nm "PushDownFilterPredicatesToDatasource" then Some (run_nt ds_pushdown_nt)
  else if String.eqb nm "PushDownFilterPredicatesIntoLookupJoinBranch" then Some (run_nt (lj_branch_nt c))
  else if String.eqb nm "PushDownFilterPredicatesIntoStreamJoinBranch" then Some (run_nt (sj_branch_nt c))
  else if String.eqb nm "PushDownFilterPredicatesIntoStreamJoinKey" then Some (run_nt (sj_key_nt c))
  else if String.eqb nm "RemoveUnusedMapFields" then Some (fun p => Ok (remove_unused c map_fields remove_map_field1 p))
  else if String.eqb nm "RemoveUnusedGroupByNonKeyFields" then Some (fun p => Ok (remove_unused c groupby_fields remove_groupby_field1 p))
  else if String.eqb nm "RemoveUnusedDatasourceFields" then Some (fun p => Ok (remove_unused c datasource_fields remove_datasource_field1 p))
  else if String.eqb nm "MergeFilters" then Some (run_nt (merge_nt c))
  else None.
Definition apply_rule (c : cfg) (nm : string) (p : plan) : outcome (plan * bool) :=
  match rule_of_name c nm with Some r => r p | None => Err err_unknown_rule end.

(* A rule name in optimize.go that the model does not know makes this definition ill-typed: the build fails. *)
Definition known_rule (nm : string) : bool := match rule_of_name fixed_cfg nm with Some _ => true | None => false end.
Definition default_rules_are_modelled : forallb known_rule default_optimization_rules = true := eq_refl.

(* one pass of  for _, rule := range defaultOptimizationRules *)
Fixpoint optimize_round (c : cfg) (rules : list string) (p : plan) (changed : bool) : outcome (plan * bool) :=
  match rules with
  | [] => Ok (p, changed)
  | nm :: t => obind (apply_rule c nm p) (fun r => if snd r then optimize_round c t (fst r) true
                                                   else optimize_round c t p changed)
  end.
(* for changed { ... } : the Go loop has no bound; out of fuel is an error value, never a plan *)
Fixpoint optimize_with (c : cfg) (rules : list string) (fuel : nat) (p : plan) : outcome plan :=
  match fuel with
  | O => Err err_out_of_fuel
  | S n => obind (optimize_round c rules p false) (fun r => if snd r then optimize_with c rules n (fst r) else Ok (fst r))
  end.
Definition optimize (c : cfg) (fuel : nat) (p : plan) : outcome plan := optimize_with c default_optimization_rules fuel p.

(* ---- the tie ---- *)
Inductive c04_obs := ObsOk (p : plan) (changed : bool) | ObsPanic.
(* (rule name or "Optimize", input plan, what the Go function returned) *)
Definition c04_case : Type := (string * plan * c04_obs)%type.
Definition c04_fuel : nat := 64.
Definition c04_model (c : cfg) (nm : string) (p : plan) : outcome (plan * bool) :=
  if String.eqb nm "Optimize" then obind (optimize c c04_fuel p) (fun q => Ok (q, true)) else apply_rule c nm p.
(* "CliOnly": a query whose plan is outside the modelled fragment; only the end-to-end comparison applies *)
Definition c04_tie (cs : c04_case) : bool :=
  let '(nm, p, obs) := cs in
  if String.eqb nm "CliOnly" then true else
  match c04_model fixed_cfg nm p, obs with
  | Ok (q, ch), ObsOk q' ch' => plan_eqb q q' && (if String.eqb nm "Optimize" then true else Bool.eqb ch ch')
  | Panic _, ObsPanic => true
  | _, _ => false
  end.
(* the plans the real typechecker produces satisfy the hypothesis of the theorems *)
Fixpoint set_policy0 (p : plan) : plan :=
  match p with
  | PDatasource s n al mp _ pr => PDatasource s n al mp 0 pr
  | PDistinct s x => PDistinct s (set_policy0 x)
  | PFilter s e x => PFilter s e (set_policy0 x)
  | PGroupBy s k a g ke t x => PGroupBy s k a g ke t (set_policy0 x)
  | PStreamJoin s lk rk l r => PStreamJoin s lk rk (set_policy0 l) (set_policy0 r)
  | PLookupJoin s l r => PLookupJoin s (set_policy0 l) (set_policy0 r)
  | PMap s es x => PMap s es (set_policy0 x)
  | PUnnest s f x => PUnnest s f (set_policy0 x)
  | POst s k d li x => POst s k d li (set_policy0 x)
  | PTvf _ _ _ => p
  | PTvfT s f ta a x => PTvfT s f ta a (set_policy0 x)
  end.
(* (the harness also gives the datasources an accepting push-down policy to exercise that rule; the policy the
   typechecker produced is 0, which is what wf_plan asks for) *)
Definition c04_wf (cs : c04_case) : bool := let '(_, p, _) := cs in wf_planb [] (set_policy0 p).
(* what the rules produce is again well-formed (observed on the implementation's output) *)
Definition c04_wf_out (cs : c04_case) : bool :=
  let '(_, _, obs) := cs in match obs with ObsOk q _ => wf_planb [] (set_policy0 q) | ObsPanic => true end.
