(* Model/TriggerSpec.v — C17 read on an emitted event list: the timing clauses of the TRIGGER kinds as
   executable oracles over (configuration, input script, observed output).  Executable only.
   "delivered" = what the EventTimeBuffer in front of CustomTriggerGroupBy has handed to it. *)
From Octo Require Export GroupBy.

Section C17Spec.
  Variable c : gb_cfg.
  Let nk := g_nk c.
  Let idx := match g_kti c with Some i => i | None => O end.

  Definition ktime (row : list value) : Z := fst (key_time idx (firstn nk row)).

  (* the events up to and including the (i+1)-th watermark / strictly before it *)
  Fixpoint through_wm (i : nat) (es : list event) : list event :=
    match es with
    | [] => []
    | WM w :: rest => match i with O => [WM w] | S i' => WM w :: through_wm i' rest end
    | e :: rest => e :: through_wm i rest
    end.
  Fixpoint before_wm (i : nat) (es : list event) : list event :=
    match es with
    | [] => []
    | WM w :: rest => match i with O => [] | S i' => WM w :: before_wm i' rest end
    | e :: rest => e :: before_wm i rest
    end.

  Definition delivered_through (i : nat) (inp : list event) : list rec :=
    records (snd (etb_run_from [] (through_wm i inp))).

  (* ON WATERMARK, completeness: when the (i+1)-th watermark W is forwarded, for every key whose time
     component is at or below W the output so far consolidates to the key's current row (the grouping
     of what was delivered so far) *)
  Definition complete_at (inp out : list event) (i : nat) (W : Z) : bool :=
    let dl := delivered_through i inp in
    let op := records (before_wm i out) in
    negb (valid_changelog dl) ||
    forallb (fun row => negb (ktime row <=? W) || (consolidate op row =? c_bag_group c dl row))
            (map vals op ++ group_rows (vec_state Z) (vec_init cagg Z cinit (g_aggs c)) (vec_add cagg Z cadd (g_aggs c))
                                       (vec_out cagg Z ctrig (g_aggs c)) nk dl).

  Fixpoint index_from {A} (i : nat) (l : list A) : list (nat * A) :=
    match l with [] => [] | x :: r => (i, x) :: index_from (S i) r end.

  Definition spec_wm_complete (inp out : list event) : bool :=
    list_eqb Z.eqb (watermarks inp) (watermarks out) &&
    forallb (fun iw => complete_at inp out (fst iw) (snd iw)) (index_from O (watermarks out)).

  (* ON WATERMARK, soundness and order (no other trigger that fires before end of stream): a row emitted
     before watermark W' is forwarded belongs to a key at or below W' (watermarks non-decreasing) *)
  Fixpoint next_wm (es : list event) : option Z :=
    match es with [] => None | WM w :: _ => Some w | _ :: rest => next_wm rest end.
  Fixpoint spec_wm_sound (out : list event) : bool :=
    match out with
    | [] => true
    | Rec r :: rest => (match next_wm rest with Some w => ktime (vals r) <=? w | None => true end) && spec_wm_sound rest
    | WM _ :: rest => spec_wm_sound rest
    end.

  (* COUNTING n alone: the reference emission, computed by counting records directly *)
  Definition nrec (k : gkey) (l : list rec) : Z := Z.of_nat (length (sub_hist nk k l)).
  Definition cur_row (k : gkey) (l : list rec) : option (list value) :=
    if cnt nk k l =? 0 then None
    else Some (k ++ vec_out cagg Z ctrig (g_aggs c)
                      (whole_state (vec_state Z) (vec_init cagg Z cinit (g_aggs c)) (vec_add cagg Z cadd (g_aggs c)) nk k l)).
  Definition last_sent := list (gkey * list value).
  Fixpoint ls_get (k : gkey) (s : last_sent) : option (list value) :=
    match s with [] => None | (k', v) :: r => if row_eqb k k' then Some v else ls_get k r end.
  Definition ls_set (k : gkey) (v : option (list value)) (s : last_sent) : last_sent :=
    let s' := filter (fun e => negb (row_eqb k (fst e))) s in
    match v with Some row => (k, row) :: s' | None => s' end.
  (* retract what was sent, send the current row; (retraction flag, row) pairs *)
  Definition block (k : gkey) (l : list rec) (s : last_sent) : list (bool * list value) :=
    (match ls_get k s with Some v => [(true, v)] | None => [] end) ++
    (match cur_row k l with Some v => [(false, v)] | None => [] end).
  Fixpoint cref (n : Z) (seen : list rec) (s : last_sent) (es : list event) : list (option (bool * list value)) * (list rec * last_sent) :=
    match es with
    | [] => ([], (seen, s))
    | WM _ :: rest => let '(o, fin) := cref n seen s rest in (None :: o, fin)
    | Rec r :: rest =>
        let seen' := seen ++ [r] in
        let k := keyf nk r in
        if nrec k seen' mod n =? 0
        then let b := block k seen' s in
             let '(o, fin) := cref n seen' (ls_set k (cur_row k seen') s) rest in (map Some b ++ o, fin)
        else cref n seen' s rest
    end.
  Definition ev_matches (e : event) (x : option (bool * list value)) : bool :=
    match e, x with
    | WM _, None => true
    | Rec r, Some (b, v) => Bool.eqb (retr r) b && row_eqb (vals r) v
    | _, _ => false
    end.
  Fixpoint evs_match (es : list event) (xs : list (option (bool * list value))) : bool :=
    match es, xs with
    | [], [] => true
    | e :: es', x :: xs' => ev_matches e x && evs_match es' xs'
    | _, _ => false
    end.
  (* the end-of-stream block: every key with a started count, once (retract what was sent, send the
     current row); no other key *)
  Definition fin_ok (n : Z) (seen : list rec) (s : last_sent) (fin : list event) : bool :=
    forallb (fun r =>
      let k := keyf nk r in
      let mine := filter (fun e => match e with Rec x => row_eqb (firstn nk (vals x)) k | WM _ => false end) fin in
      if nrec k seen mod n =? 0 then match mine with [] => true | _ => false end
      else evs_match mine (map Some (block k seen s))) seen
    && forallb (fun e => match e with Rec x => existsb (fun r => row_eqb (firstn nk (vals x)) (keyf nk r)) seen | WM _ => false end) fin.
  Definition spec_counting (n : Z) (inp out : list event) : bool :=
    let dl := etb_run_finish inp in
    let '(ref, (seen, s)) := cref n [] [] dl in
    evs_match (firstn (length ref) out) ref && fin_ok n seen s (skipn (length ref) out).

  (* no TRIGGER / ON END OF STREAM alone: nothing but the watermarks before the end, then every
     non-empty group exactly once, as an insertion *)
  Definition spec_simple (inp out : list event) : bool :=
    events_eqb (firstn (length (watermarks inp)) out) (map WM (watermarks inp)) &&
    forallb (fun e => match e with Rec r => negb (retr r) | WM _ => false end) (skipn (length (watermarks inp)) out) &&
    forallb (fun r => Nat.eqb (length (filter (fun x => row_eqb (firstn nk (vals x)) (keyf nk r)) (records out)))
                              (if (cnt nk (keyf nk r) (records inp) =? 0)%Z then 0%nat else 1%nat)) (records inp).
End C17Spec.

Definition only_wm_eos (ts : list tkind) : bool :=
  existsb is_wm ts && forallb (fun t => match t with TCounting _ => false | _ => true end) ts.

Definition c17_spec (cs : gb_case) : bool :=
  let c := case_cfg cs in
  let inp := case_inp cs in
  let out := case_out cs in
  negb (gb_input_ok cs) || negb (delivered_valid cs) ||
  (if is_simple (g_trigs c) then spec_simple c inp out
   else (negb (existsb is_wm (g_trigs c)) || spec_wm_complete c inp out)
        && (negb (only_wm_eos (g_trigs c) && monotone_wms inp) || spec_wm_sound c out)
        && (match g_trigs c with
            | [TCounting n] => negb (0 <? n) || spec_counting c n inp out
            | _ => true
            end)).
