(* Model/Rel.v — query level for C01 (single-source SELECT) and C03 (GROUP BY and aggregates).
   Executable definitions only.

   (i)   a small SQL AST:  [WITH n AS (q), ...] SELECT [DISTINCT] items FROM source [WHERE e]
         [GROUP BY es] [ORDER BY es ASC|DESC] [LIMIT n],  source = table | (subquery) alias | WITH name;
   (ii)  den_top  : the relational (textbook) semantics with OctoSQL's conventions;
   (iii) exec_top : the query compiled the way parser.ParseSelect / ParseNestedNode / cmd/root.go compile it
         (plan_of) into Filter -> GroupBy+Map | Map -> Distinct -> OrderSensitiveTransform | Limit, each
         operator a batch function that follows execution/nodes/*.go and aggregates/*.go (run_plan).

   Shared by both semantics, on purpose (the property is about the relational structure; expression
   semantics belong to C11/C12/C13, name uniquification to logical.Environment.GetUnique):
     - eval : expressions over a row, names resolved against the schema as
       physical.VariableNameMatchesField does; strict functions return NULL on a NULL argument, ints wrap,
       AND/OR are three-valued as execution.And/Or; an ill-typed application is Err e_type (the real
       type checker rejects the query statically);
     - output column names (aliases are mandatory in this AST, `*` keeps the source's names).

   Value fragment: NULL, Int, Boolean, String (and lists of those, produced by array_agg).  No Float:
   the JSON datasource reads every number as Float, so Int columns come from CSV files (see design/C01.md).

   Limit / OrderSensitiveTransform follow the code after C05's two fixes (LIMIT 0 yields nothing; the limit
   counts rows, not tree items); the pinned variants and their refutation live in C05.  The DeleteMax
   pruning inside OrderSensitiveTransform (an optimisation, C05_prune_safe) is not repeated here.
   Schema.NoRetractions is true for every node of this fragment (file sources, end-of-stream group by), so
   Materialize / root.go choose OrderSensitiveTransform iff there is an ORDER BY, else Limit. *)
From Octo Require Export Values.

Definition name := list Z.                         (* identifier bytes, no '.' inside *)
Definition name_eqb (a b : name) : bool := list_eqb Z.eqb a b.
Definition field := (option name * name)%type.     (* optional qualifier, column name: "t.a" / "k" *)
Definition schema := list field.
Definition row := list value.
Record rel := mkrel { rsch : schema; rrows : list row }.
Definition db := list (name * rel).                (* file tables: fields are (None, column) *)

Definition e_type : Z := 1.          (* ill-typed application (static type error in Go) *)
Definition e_unknown : Z := 2.       (* unknown variable / table *)
Definition e_ambiguous : Z := 3.     (* reference matches several fields (Go: map iteration picks one) *)
Definition e_notkey : Z := 4.        (* non-aggregate select expression that is not a group key *)
Definition e_star_group : Z := 5.    (* star in a grouping select list *)
Definition e_limit : Z := 6.         (* negative limit *)
Definition e_noagg : Z := 7.         (* min/max DISTINCT do not exist *)
Definition p_index : Z := 1.         (* index out of range *)

Fixpoint mapM {A B} (f : A -> outcome B) (l : list A) : outcome (list B) :=
  match l with
  | [] => Ok []
  | x :: xs => obind (f x) (fun y => obind (mapM f xs) (fun ys => Ok (y :: ys)))
  end.

(* ------------------------------------------------------------------ expressions *)
Inductive binop := BAdd | BSub | BMul | BEq | BNe | BLt | BLe | BGt | BGe.
Inductive unop := UNeg | UNot | UIsNull | UIsNotNull.
Inductive expr :=
| ECol (q : option name) (n : name)
| ELit (v : value)
| EBin (op : binop) (a b : expr)
| EUn (op : unop) (a : expr)
| EAnd (a b : expr)
| EOr (a b : expr).

(* physical.VariableNameMatchesField for names with at most one dot *)
Definition ref_matches (q : option name) (n : name) (f : field) : bool :=
  name_eqb n (snd f) &&
  match q with
  | None => true
  | Some x => match fst f with Some y => name_eqb x y | None => false end
  end.

Fixpoint find_matches (s : schema) (q : option name) (n : name) (i : nat) : list nat :=
  match s with
  | [] => []
  | f :: fs => if ref_matches q n f then i :: find_matches fs q n (S i) else find_matches fs q n (S i)
  end.

Definition resolve (s : schema) (q : option name) (n : name) : outcome nat :=
  match find_matches s q n 0 with
  | [] => Err e_unknown
  | [i] => Ok i
  | _ => Err e_ambiguous
  end.

Definition is_null (v : value) : bool := match v with VNull => true | _ => false end.

Definition apply_bin (op : binop) (a b : value) : outcome value :=
  if is_null a || is_null b then Ok VNull else     (* every operator here is Strict *)
  match op with
  | BAdd => match a, b with
            | VInt x, VInt y => Ok (VInt (wrap64 (x + y)))
            | VStr x, VStr y => Ok (VStr (x ++ y))
            | _, _ => Err e_type end
  | BSub => match a, b with VInt x, VInt y => Ok (VInt (wrap64 (x - y))) | _, _ => Err e_type end
  | BMul => match a, b with VInt x, VInt y => Ok (VInt (wrap64 (x * y))) | _, _ => Err e_type end
  | BEq => Ok (VBool (vcompare a b =? 0))           (* Value.Equal of two non-NULL values *)
  | BNe => Ok (VBool (negb (vcompare a b =? 0)))
  | BLt => if tid a =? tid b then Ok (VBool (vcompare a b <? 0)) else Err e_type
  | BLe => if tid a =? tid b then Ok (VBool (vcompare a b <=? 0)) else Err e_type
  | BGt => if tid a =? tid b then Ok (VBool (0 <? vcompare a b)) else Err e_type
  | BGe => if tid a =? tid b then Ok (VBool (0 <=? vcompare a b)) else Err e_type
  end.

Definition apply_un (op : unop) (a : value) : outcome value :=
  match op with
  | UIsNull => Ok (VBool (is_null a))
  | UIsNotNull => Ok (VBool (negb (is_null a)))
  | UNeg => match a with VNull => Ok VNull | VInt x => Ok (VInt (wrap64 (- x))) | _ => Err e_type end
  | UNot => match a with VNull => Ok VNull | VBool b => Ok (VBool (negb b)) | _ => Err e_type end
  end.

Fixpoint eval (s : schema) (e : expr) (r : row) : outcome value :=
  match e with
  | ECol q n => obind (resolve s q n) (fun i => match nth_error r i with Some v => Ok v | None => Panic p_index end)
  | ELit v => Ok v
  | EBin op a b => obind (eval s a r) (fun va => obind (eval s b r) (fun vb => apply_bin op va vb))
  | EUn op a => obind (eval s a r) (apply_un op)
  | EAnd a b =>                                     (* execution.And: first FALSE wins, else NULL if any NULL *)
      obind (eval s a r) (fun va =>
        match va with
        | VBool false => Ok (VBool false)
        | VBool true | VNull =>
            obind (eval s b r) (fun vb =>
              match vb with
              | VBool false => Ok (VBool false)
              | VBool true => Ok va
              | VNull => Ok VNull
              | _ => Err e_type
              end)
        | _ => Err e_type
        end)
  | EOr a b =>
      obind (eval s a r) (fun va =>
        match va with
        | VBool true => Ok (VBool true)
        | VBool false | VNull =>
            obind (eval s b r) (fun vb =>
              match vb with
              | VBool true => Ok (VBool true)
              | VBool false => Ok va
              | VNull => Ok VNull
              | _ => Err e_type
              end)
        | _ => Err e_type
        end)
  end.

Definition is_true (v : value) : bool := match v with VBool true => true | _ => false end.

(* logical.EqualExpressions *)
Definition oname_eqb (a b : option name) : bool :=
  match a, b with None, None => true | Some x, Some y => name_eqb x y | _, _ => false end.
Definition binop_eqb (a b : binop) : bool :=
  match a, b with
  | BAdd, BAdd | BSub, BSub | BMul, BMul | BEq, BEq | BNe, BNe | BLt, BLt | BLe, BLe | BGt, BGt | BGe, BGe => true
  | _, _ => false
  end.
Definition unop_eqb (a b : unop) : bool :=
  match a, b with UNeg, UNeg | UNot, UNot | UIsNull, UIsNull | UIsNotNull, UIsNotNull => true | _, _ => false end.
Fixpoint expr_eqb (a b : expr) : bool :=
  match a, b with
  | ECol q n, ECol q' n' => oname_eqb q q' && name_eqb n n'
  | ELit v, ELit v' => vcompare v v' =? 0
  | EBin o x y, EBin o' x' y' => binop_eqb o o' && expr_eqb x x' && expr_eqb y y'
  | EUn o x, EUn o' x' => unop_eqb o o' && expr_eqb x x'
  | EAnd x y, EAnd x' y' => expr_eqb x x' && expr_eqb y y'
  | EOr x y, EOr x' y' => expr_eqb x x' && expr_eqb y y'
  | _, _ => false
  end.

(* ------------------------------------------------------------------ queries *)
Inductive aggfn := ACount | ASum | AAvg | AMin | AMax | AArr.
Definition aggcall := (aggfn * bool * expr)%type.          (* function, DISTINCT, argument; count( * ) = count(TRUE) *)

Inductive item :=
| IExpr (e : expr) (alias : option name)
| IAgg (f : aggfn) (dist : bool) (arg : expr) (alias : option name)
| IStar
| IQStar (q : name).                                        (* t.* *)

Inductive query :=
| Q (dist : bool) (items : list item) (from : source) (wh : option expr) (gb : list expr)
    (ob : list (expr * bool)) (lim : option Z)              (* ORDER BY key, true = DESC *)
with source :=
| STable (t : name) (alias : name)
| SSub (q : query) (alias : name)
| SCte (n : name).

Definition top := (list (name * query) * query)%type.      (* WITH n1 AS (q1), ... main *)

Definition is_agg_item (i : item) : bool := match i with IAgg _ _ _ _ => true | _ => false end.
Definition is_star_item (i : item) : bool := match i with IStar => true | _ => false end.
(* ParseSelect: grouping when some select expression is an aggregate call — and, since the C03 fix, also
   when there is a GROUP BY clause.  [pinned] = the code before the fix. *)
Definition grouping (pinned : bool) (items : list item) (gb : list expr) : bool :=
  existsb is_agg_item items || (negb pinned && negb (match gb with [] => true | _ => false end)).

Fixpoint find_key (e : expr) (keys : list expr) (i : nat) : option nat :=
  match keys with
  | [] => None
  | k :: ks => if expr_eqb e k then Some i else find_key e ks (S i)
  end.

Definition single_star (items : list item) : bool := match items with [IStar] => true | _ => false end.

Definition aggs_of (items : list item) : list aggcall :=
  flat_map (fun i => match i with IAgg f d a _ => [(f, d, a)] | _ => [] end) items.

(* where each select item of a grouping query finds its value in the GroupBy node's output row
   (keys first, then the aggregates in select order): what the outer Map's Variable(name) resolves to *)
Fixpoint group_cols (items : list item) (keys : list expr) (nagg : nat) : outcome (list nat) :=
  match items with
  | [] => Ok []
  | IStar :: _ | IQStar _ :: _ => Err e_star_group
  | IExpr e _ :: rest =>
      match find_key e keys 0 with
      | None => Err e_notkey
      | Some j => obind (group_cols rest keys nagg) (fun cs => Ok (j :: cs))
      end
  | IAgg f d _ _ :: rest =>
      match f, d with
      | AMin, true | AMax, true => Err e_noagg
      | _, _ => obind (group_cols rest keys (S nagg)) (fun cs => Ok ((length keys + nagg)%nat :: cs))
      end
  end.

(* ---- column names ----
   Names are fields (optional qualifier, name); "t.a" and "a" are different names.  Decimal suffixes: *)
Fixpoint uint_bytes (u : Decimal.uint) : list Z :=
  match u with
  | Decimal.Nil => []
  | Decimal.D0 u => 48 :: uint_bytes u | Decimal.D1 u => 49 :: uint_bytes u | Decimal.D2 u => 50 :: uint_bytes u
  | Decimal.D3 u => 51 :: uint_bytes u | Decimal.D4 u => 52 :: uint_bytes u | Decimal.D5 u => 53 :: uint_bytes u
  | Decimal.D6 u => 54 :: uint_bytes u | Decimal.D7 u => 55 :: uint_bytes u | Decimal.D8 u => 56 :: uint_bytes u
  | Decimal.D9 u => 57 :: uint_bytes u
  end.
Definition dec (n : nat) : list Z := uint_bytes (Nat.to_uint n).
Definition suffixed (f : field) (k : nat) : field := (fst f, snd f ++ [95] ++ dec k).      (* name_k *)

Definition field_eqb (a b : field) : bool := oname_eqb (fst a) (fst b) && name_eqb (snd a) (snd b).

Definition counter := list (field * nat).
Fixpoint cnt_get (c : counter) (f : field) : option nat :=
  match c with [] => None | (k, n) :: t => if field_eqb k f then Some n else cnt_get t f end.
Fixpoint cnt_set (c : counter) (f : field) (n : nat) : counter :=
  match c with
  | [] => [(f, n)]
  | (k, m) :: t => if field_eqb k f then (k, n) :: t else (k, m) :: cnt_set t f n
  end.

Definition e_fuel : Z := 8.
(* getUniqueName (ParseSelect, grouping branch) and the existingFields loop of logical.Map.Typecheck, after the
   fixes for a third column of one name: the requested name's counter advances and the suffixed candidate is
   checked again.  At most |counter|+1 rounds are needed. *)
Fixpoint uniq_fuel (fuel : nat) (c : counter) (f : field) : outcome (field * counter) :=
  match fuel with
  | O => Err e_fuel
  | S fuel' =>
      match cnt_get c f with
      | None => Ok (f, cnt_set c f 1)
      | Some n => uniq_fuel fuel' (cnt_set c f (S n)) (suffixed f n)
      end
  end.
(* the code before those fixes: one round, and the counter that is advanced is the suffixed name's *)
Definition uniq_pinned (c : counter) (f : field) : outcome (field * counter) :=
  match cnt_get c f with
  | None => Ok (f, cnt_set c f 1)
  | Some n => Ok (suffixed f n, cnt_set c (suffixed f n) (S n))
  end.
Definition uniq (pinned_names : bool) (c : counter) (f : field) : outcome (field * counter) :=
  if pinned_names then uniq_pinned c f else uniq_fuel (S (length c)) c f.

Fixpoint uniq_all (pn : bool) (c : counter) (l : list field) : outcome (list field) :=
  match l with
  | [] => Ok []
  | f :: t => obind (uniq pn c f) (fun fc => obind (uniq_all pn (snd fc) t) (fun r => Ok (fst fc :: r)))
  end.

(* logical.Map.Typecheck: the candidate name of every expanded select expression — the alias; for an un-aliased
   variable the (qualified) name of the field it reads; otherwise col_<position>; stars expand in place *)
Definition col_name (i : nat) : name := [99; 111; 108; 95] ++ dec i.
Definition star_fields (src : schema) (q : option name) : schema :=
  match q with
  | None => src
  | Some x => filter (fun f => match fst f with Some y => name_eqb x y | None => false end) src
  end.
Fixpoint map_candidates (src : schema) (items : list item) (pos : nat) : outcome schema :=
  match items with
  | [] => Ok []
  | i :: rest =>
      obind (match i with
             | IExpr _ (Some a) => Ok [(None, a)]
             | IExpr (ECol q n) None =>
                 obind (resolve src q n) (fun ix => match nth_error src ix with Some f => Ok [f] | None => Panic p_index end)
             | IExpr _ None => Ok [(None, col_name pos)]
             | IAgg _ _ _ _ => Err e_type
             | IStar => Ok src
             | IQStar q => Ok (star_fields src (Some q))
             end) (fun fs =>
      obind (map_candidates src rest (pos + length fs)) (fun r => Ok (fs ++ r)))
  end.
Definition out_schema (pn : bool) (src : schema) (items : list item) : outcome schema :=
  obind (map_candidates src items 0) (uniq_all pn []).

(* ParseSelect, grouping branch: names of the GroupBy node's fields and of the select columns *)
Definition agg_name (f : aggfn) (dist : bool) : name :=
  (match f with
   | ACount => [99; 111; 117; 110; 116]
   | ASum => [115; 117; 109]
   | AAvg => [97; 118; 103]
   | AMin => [109; 105; 110]
   | AMax => [109; 97; 120]
   | AArr => [97; 114; 114; 97; 121; 95; 97; 103; 103]
   end) ++ (if dist then [95; 100; 105; 115; 116; 105; 110; 99; 116] else []).
Definition key_name (j : nat) : name := [107; 101; 121; 95] ++ dec j.

Record ginfo := mkginfo { gi_cols : list nat; gi_keynames : list name; gi_aggnames : list name; gi_sel : list name }.

Fixpoint set_nth {A} (l : list A) (j : nat) (x : A) : list A :=
  match l, j with
  | [], _ => []
  | _ :: t, O => x :: t
  | y :: t, S j' => y :: set_nth t j' x
  end.

(* the key parts that are not selected get their default names key_<i> after the select list, through the same
   counter (before that `fix:` they kept the raw key_<i>, which could repeat a selected column's name) *)
Fixpoint name_rest (pn : bool) (c : counter) (keynames : list name) (selidx js : list nat) : outcome (list name) :=
  match js with
  | [] => Ok keynames
  | j :: t =>
      if existsb (Nat.eqb j) selidx then name_rest pn c keynames selidx t
      else obind (uniq pn c (None, key_name j)) (fun fc =>
           name_rest pn (snd fc) (set_nth keynames j (snd (fst fc))) selidx t)
  end.

Fixpoint group_names (pn : bool) (items : list item) (keys : list expr) (c : counter)
         (keynames aggnames sel : list name) (selidx : list nat) : outcome (list name * list name * list name) :=
  match items with
  | [] => obind (if pn then Ok keynames else name_rest pn c keynames selidx (seq 0 (length keys)))
                (fun kn => Ok (kn, aggnames, sel))
  | IStar :: _ | IQStar _ :: _ => Err e_star_group
  | IExpr e alias :: rest =>
      match find_key e keys 0 with
      | None => Err e_notkey
      | Some j =>
          let base := match alias with
                      | Some a => a
                      | None => match nth_error keys j with
                                | Some (ECol _ n) => n          (* Variable.FieldName: the part after the dot *)
                                | _ => key_name j
                                end
                      end in
          obind (uniq pn c (None, base)) (fun fc =>
          group_names pn rest keys (snd fc) (set_nth keynames j (snd (fst fc))) aggnames (sel ++ [snd (fst fc)]) (j :: selidx))
      end
  | IAgg f d arg alias :: rest =>
      let base := match alias with
                  | Some a => a
                  | None => match arg with
                            | ECol _ n => agg_name f d ++ [95] ++ n
                            | _ => agg_name f d
                            end
                  end in
      obind (uniq pn c (None, base)) (fun fc =>
      group_names pn rest keys (snd fc) keynames (aggnames ++ [snd (fst fc)]) (sel ++ [snd (fst fc)]) selidx)
  end.

Definition group_info (pn : bool) (items : list item) (keys : list expr) : outcome ginfo :=
  obind (group_cols items keys 0) (fun cols =>
  obind (group_names pn items keys [] (map key_name (seq 0 (length keys))) [] [] []) (fun r =>
  let '(kn, an, sel) := r in Ok (mkginfo cols kn an sel))).

Definition unq (names : list name) : schema := map (fun n => (None, n)) names.
Definition group_schema (gi : ginfo) : schema := unq (gi_keynames gi ++ gi_aggnames gi).
(* the Map over the GroupBy node: one un-aliased Variable per select column *)
Definition var_items (gi : ginfo) : list item := map (fun n => IExpr (ECol None n) None) (gi_sel gi).

(* logical.Requalifier: every field gets the subquery's alias as its qualifier *)
Definition requalify (alias : name) (s : schema) : schema := map (fun f => (Some alias, snd f)) s.
(* logical.DataSource: alias.column *)
Definition qualify_table (alias : name) (s : schema) : schema := map (fun f => (Some alias, snd f)) s.

Fixpoint lookup {A} (n : name) (l : list (name * A)) : option A :=
  match l with
  | [] => None
  | (k, v) :: rest => if name_eqb n k then Some v else lookup n rest
  end.

(* ------------------------------------------------------------------ comparators and sorting *)
(* a value with its direction (true = DESC).  The flags of two compared items are always equal; comparing
   them first makes the comparator lawful on all pairs without changing it where it is used. *)
Definition dval := (bool * value)%type.
Definition dcmp (a b : dval) : Z :=
  if Bool.eqb (fst a) (fst b) then (if fst a then vcompare (snd b) (snd a) else vcompare (snd a) (snd b))
  else bcompare (fst a) (fst b).

(* an ORDER BY item: evaluated keys with directions, then the row (orderByItem.Less: keys under the
   direction multipliers, then "if keys are equal, differentiate by values") *)
Definition oitem := (list dval * row)%type.
Definition oitem_key (it : oitem) : list dval := fst it ++ map (fun v => (false, v)) (snd it).
Definition oitem_cmp (a b : oitem) : Z := lex_cmp dcmp (oitem_key a) (oitem_key b).

Section Sorting.
  Context {A : Type} (cmp : A -> A -> Z).
  (* insertion after every element that is not greater (stable) *)
  Fixpoint ins (x : A) (l : list A) : list A :=
    match l with
    | [] => [x]
    | y :: t => if cmp x y =? -1 then x :: l else y :: ins x t
    end.
  Definition isort (l : list A) : list A := fold_left (fun acc x => ins x acc) l [].

  (* google/btree of items carrying a count, as a sorted association list under the same Less:
     Get / ReplaceOrInsert with count+1 *)
  Fixpoint cadd (x : A) (l : list (A * Z)) : list (A * Z) :=
    match l with
    | [] => [(x, 1)]
    | (y, c) :: t =>
        if cmp x y =? 0 then (y, c + 1) :: t
        else if cmp x y =? -1 then (x, 1) :: l
        else (y, c) :: cadd x t
    end.
  Definition cbuild (l : list A) : list (A * Z) := fold_left (fun acc x => cadd x acc) l [].
  Definition expand (l : list (A * Z)) : list A := flat_map (fun yc => repeat (fst yc) (Z.to_nat (snd yc))) l.

  Fixpoint sortedb (l : list A) : bool :=
    match l with
    | [] => true
    | x :: t => match t with [] => true | y :: _ => (cmp x y <=? 0) && sortedb t end
    end.
End Sorting.

Definition sort_vals : list value -> list value := isort vcompare.

(* ------------------------------------------------------------------ keyed collections *)
(* zyedidia hashmap with an equality closure, as an association list: the stored key is the one first put.
   The closures compare position by position with Compare (rows of one stream have one arity). *)
Section Assoc.
  Context {K V : Type} (keq : K -> K -> bool).
  Fixpoint aget (m : list (K * V)) (k : K) : option V :=
    match m with
    | [] => None
    | (k0, v) :: t => if keq k0 k then Some v else aget t k
    end.
  Fixpoint aput (m : list (K * V)) (k : K) (v : V) : list (K * V) :=
    match m with
    | [] => [(k, v)]
    | (k0, v0) :: t => if keq k0 k then (k0, v) :: t else (k0, v0) :: aput t k v
    end.
  (* the support: first occurrences, in order *)
  Fixpoint distinct_from (seen : list K) (l : list K) : list K :=
    match l with
    | [] => []
    | r :: t => if existsb (fun s => keq s r) seen then distinct_from seen t else r :: distinct_from (r :: seen) t
    end.
End Assoc.

Definition val_eqb (a b : value) : bool := vcompare a b =? 0.

(* ------------------------------------------------------------------ relational semantics (den) *)
(* DISTINCT = the support, first occurrences kept in order *)
Definition den_distinct (l : list row) : list row := distinct_from row_eqb [] l.
Definition dedup_vals (l : list value) : list value := distinct_from val_eqb [] l.
Definition row_in (r : row) (l : list row) : bool := existsb (fun x => row_eqb x r) l.

(* a source row prepared for grouping: its key values and one input value per aggregate *)
Definition keyed := (list value * list value)%type.

Definition int_of (v : value) : Z := match v with VInt z => z | _ => 0 end.   (* Go: value.Int *)

(* one aggregate over the non-NULL inputs of a group *)
Definition agg_den (f : aggfn) (dist : bool) (nonnull : list value) : value :=
  match nonnull with
  | [] => VNull                                              (* NULL when the group has no non-NULL input *)
  | _ =>
    let vs := if dist then dedup_vals nonnull else nonnull in
    match f with
    | ACount => VInt (Z.of_nat (length vs))
    | ASum => VInt (wrap64 (zsum (map int_of vs)))
    | AAvg => VInt (Z.quot (wrap64 (zsum (map int_of vs))) (Z.of_nat (length vs)))   (* truncates toward zero *)
    | AMin => match sort_vals vs with m :: _ => m | [] => VNull end
    | AMax => last (sort_vals vs) VNull
    | AArr => VList (sort_vals vs)                           (* ascending *)
    end
  end.

Definition col (i : nat) (g : list keyed) : list value :=
  flat_map (fun kr => match nth_error (snd kr) i with Some v => [v] | None => [] end) g.
Definition nonnull (l : list value) : list value := filter (fun v => negb (is_null v)) l.

Fixpoint aggs_den (aggs : list aggcall) (i : nat) (g : list keyed) : list value :=
  match aggs with
  | [] => []
  | (f, d, _) :: rest => agg_den f d (nonnull (col i g)) :: aggs_den rest (S i) g
  end.

(* one row per distinct key (a NULL key is a key like any other: keys are identified by Compare = 0) *)
Definition den_group (aggs : list aggcall) (l : list keyed) : list row :=
  map (fun k => k ++ aggs_den aggs 0 (filter (fun kr => row_eqb (fst kr) k) l))
      (den_distinct (map fst l)).

Definition project (cols : list nat) (r : row) : outcome row :=
  mapM (fun c => match nth_error r c with Some v => Ok v | None => Panic p_index end) cols.

Definition agg_input_ok (f : aggfn) (v : value) : bool :=
  match f with
  | ACount | AArr => true
  | AMin | AMax => match v with VNull | VInt _ | VFloat _ => true | _ => false end   (* Int and Float overloads *)
  | _ => match v with VNull | VInt _ => true | _ => false end   (* sum/avg: the Int overload only *)
  end.

Definition eval_keyed (s : schema) (keys : list expr) (aggs : list aggcall) (r : row) : outcome keyed :=
  obind (mapM (fun k => eval s k r) keys) (fun kv =>
  obind (mapM (fun a : aggcall => let '(f, _, e) := a in
                 obind (eval s e r) (fun v => if agg_input_ok f v then Ok v else Err e_type)) aggs) (fun av =>
  Ok (kv, av))).

Definition eval_item (s : schema) (i : item) (r : row) : outcome (list value) :=
  match i with
  | IExpr e _ => obind (eval s e r) (fun v => Ok [v])
  | IAgg _ _ _ _ => Err e_type
  | IStar => Ok r
  | IQStar q => Ok (map snd (filter (fun fv : field * value =>
                                      match fst (fst fv) with Some y => name_eqb q y | None => false end) (combine s r)))
  end.
Definition eval_items (s : schema) (items : list item) (r : row) : outcome row :=
  obind (mapM (fun i => eval_item s i r) items) (fun vs => Ok (concat vs)).

Definition eval_okey (s : schema) (ob : list (expr * bool)) (r : row) : outcome oitem :=
  obind (mapM (fun kd : expr * bool => obind (eval s (fst kd) r) (fun v => Ok (snd kd, v))) ob) (fun k => Ok (k, r)).

Definition filter_rows (s : schema) (wh : option expr) (rows : list row) : outcome (list row) :=
  match wh with
  | None => Ok rows
  | Some e => obind (mapM (fun r => obind (eval s e r) (fun v => Ok (is_true v, r))) rows)
                    (fun l => Ok (map snd (filter fst l)))        (* WHERE keeps TRUE only *)
  end.

Definition den_order (s : schema) (ob : list (expr * bool)) (rows : list row) : outcome (list row) :=
  match ob with
  | [] => Ok rows
  | _ => obind (mapM (eval_okey s ob) rows) (fun its => Ok (map snd (isort oitem_cmp its)))
  end.

Definition den_limit (lim : option Z) (rows : list row) : outcome (list row) :=
  match lim with
  | None => Ok rows
  | Some n => if n <? 0 then Err e_limit else Ok (firstn (Z.to_nat n) rows)
  end.

(* the select list over the (filtered) source rows: Map, or GroupBy + Map *)
Definition map_sel (pn : bool) (s : schema) (items : list item) (rows : list row) : outcome rel :=
  obind (out_schema pn s items) (fun outs =>
  obind (mapM (eval_items s items) rows) (fun rows1 => Ok (mkrel outs rows1))).

Definition group_sel_den (pn : bool) (s : schema) (items : list item) (gb : list expr) (rows : list row) : outcome rel :=
  obind (group_info pn items gb) (fun gi =>
  obind (mapM (eval_keyed s gb (aggs_of items)) rows) (fun kl =>
  obind (mapM (project (gi_cols gi)) (den_group (aggs_of items) kl)) (fun rows1 =>
  Ok (mkrel (unq (gi_sel gi)) rows1)))).

Definition sel_den (s : schema) (items : list item) (gb : list expr) (rows : list row) : outcome rel :=
  if grouping false items gb then group_sel_den false s items gb rows
  else if single_star items then Ok (mkrel s rows)
  else map_sel false s items rows.

Section Den.
  Variable tables : db.

  Fixpoint den_q (ctes : list (name * rel)) (q : query) {struct q} : outcome rel :=
    match q with
    | Q dist items from wh gb ob lim =>
      obind (den_src ctes from) (fun src =>
      obind (filter_rows (rsch src) wh (rrows src)) (fun rows =>
      obind (sel_den (rsch src) items gb rows) (fun r1 =>
      let rows2 := if dist then den_distinct (rrows r1) else rrows r1 in
      obind (den_order (rsch r1) ob rows2) (fun rows3 =>
      obind (den_limit lim rows3) (fun rows4 =>
      Ok (mkrel (rsch r1) rows4))))))
    end
  with den_src (ctes : list (name * rel)) (s : source) {struct s} : outcome rel :=
    match s with
    | STable t alias => match lookup t tables with
                        | Some r => Ok (mkrel (qualify_table alias (rsch r)) (rrows r))
                        | None => Err e_unknown
                        end
    | SSub q alias => obind (den_q ctes q) (fun r => Ok (mkrel (requalify alias (rsch r)) (rrows r)))
    | SCte n => match lookup n ctes with Some r => Ok r | None => Err e_unknown end
    end.

  Fixpoint den_ctes (ctes : list (name * rel)) (defs : list (name * query)) : outcome (list (name * rel)) :=
    match defs with
    | [] => Ok ctes
    | (n, q) :: rest => obind (den_q ctes q) (fun r => den_ctes ((n, r) :: ctes) rest)
    end.

  Definition den_top (t : top) : outcome rel :=
    obind (den_ctes [] (fst t)) (fun ctes => den_q ctes (snd t)).
End Den.

(* ------------------------------------------------------------------ the compiled pipeline (exec) *)
Inductive plan :=
| PScan (t : name) (alias : name)                     (* logical.DataSource on a file *)
| PCte (n : name)                                      (* logical.DataSource naming a common table expression *)
| PRequalify (alias : name) (p : plan)
| PFilter (e : expr) (p : plan)
| PMap (items : list item) (p : plan)
| PGroupMap (keys : list expr) (aggs : list aggcall) (gi : outcome ginfo) (p : plan)
                                                        (* GroupBy node + the Map of Variables over its output *)
| PDistinct (p : plan)
| POrderLimit (ob : list (expr * bool)) (lim : option Z) (p : plan).
                                                        (* OrderSensitiveTransform (logical); root.go's sink wiring *)

Section PlanOf.
  Variable pinned : bool.          (* the parser before the GROUP BY fix *)
  Variable pinned_names : bool.    (* getUniqueName / existingFields before the third-name fixes *)
  (* parser.ParseSelect, ParseNestedNode, ParseAliasedTableExpression.  A select list the parser rejects
     (group_cols fails) is kept in the node as the error, so that it surfaces when the node runs. *)
  Fixpoint plan_of_q (q : query) : plan :=
    match q with
    | Q dist items from wh gb ob lim =>
      let p0 := plan_of_src from in
      let p1 := match wh with Some e => PFilter e p0 | None => p0 end in
      let p2 := if grouping pinned items gb
                then PGroupMap gb (aggs_of items) (group_info pinned_names items gb) p1
                else if single_star items then p1          (* no Map node for SELECT * FROM xyz *)
                else PMap items p1 in
      let p3 := if dist then PDistinct p2 else p2 in
      match ob, lim with [], None => p3 | _, _ => POrderLimit ob lim p3 end
    end
  with plan_of_src (s : source) : plan :=
    match s with
    | STable t alias => PScan t alias
    | SSub q alias => PRequalify alias (plan_of_q q)
    | SCte n => PCte n
    end.
End PlanOf.

(* nodes.Filter *)
Definition filter_node (s : schema) (e : expr) (rows : list row) : outcome (list row) :=
  obind (mapM (fun r => obind (eval s e r) (fun v => Ok (is_true v, r))) rows)
        (fun l => Ok (flat_map (fun br : bool * row => if fst br then [snd br] else []) l)).

(* nodes.Distinct: per-row counts in a hashmap whose equality is Compare = 0 on every position; a record is
   produced when its count becomes 1 *)
Section DistinctStep.
  Context {K : Type} (keq : K -> K -> bool).
  Definition distinct_step (st : list (K * Z) * list K) (r : K) : list (K * Z) * list K :=
    let '(m, out) := st in
    let c := match aget keq m r with Some c => c | None => 0 end + 1 in
    if c =? 1 then (aput keq m r c, out ++ [r]) else (aput keq m r c, out).
End DistinctStep.
Definition distinct_node (rows : list row) : list row := snd (fold_left (distinct_step row_eqb) rows ([], [])).

(* aggregates/*.go as state machines (batch: no retractions) *)
Inductive aggstate :=
| StCount (c : Z)
| StSum (s : Z)
| StAvg (s c : Z)
| StMin (items : list (value * Z))
| StMax (items : list (value * Z))
| StArr (items : list (value * Z))
| StDistinct (seen : list (value * Z)) (inner : aggstate).

Definition agg_init_plain (f : aggfn) : aggstate :=
  match f with
  | ACount => StCount 0 | ASum => StSum 0 | AAvg => StAvg 0 0
  | AMin => StMin [] | AMax => StMax [] | AArr => StArr []
  end.
Definition agg_init (f : aggfn) (dist : bool) : aggstate :=
  if dist then StDistinct [] (agg_init_plain f) else agg_init_plain f.

Fixpoint agg_add (st : aggstate) (v : value) : aggstate :=
  match st with
  | StCount c => StCount (c + 1)
  | StSum s => StSum (wrap64 (s + int_of v))
  | StAvg s c => StAvg (wrap64 (s + int_of v)) (c + 1)
  | StMin items => StMin (cadd vcompare v items)
  | StMax items => StMax (cadd vcompare v items)
  | StArr items => StArr (cadd vcompare v items)
  | StDistinct seen inner =>
      let c := match aget val_eqb seen v with Some c => c | None => 0 end + 1 in
      StDistinct (aput val_eqb seen v c) (if c =? 1 then agg_add inner v else inner)
  end.

Definition p_div0 : Z := 2.
Definition p_nil : Z := 3.
Fixpoint agg_trigger (st : aggstate) : outcome value :=
  match st with
  | StCount c => Ok (VInt c)
  | StSum s => Ok (VInt s)
  | StAvg s c => if c =? 0 then Panic p_div0 else Ok (VInt (Z.quot s c))
  | StMin items => match items with (m, _) :: _ => Ok m | [] => Panic p_nil end
  | StMax items => match items with [] => Panic p_nil | _ => Ok (fst (last items (VNull, 0))) end
  | StArr items => Ok (VList (expand items))
  | StDistinct _ inner => agg_trigger inner
  end.

(* nodes.SimpleGroupBy: hashmap from group key to aggregate states, AggregatedSetSize and the record count.
   Each() visits the groups in hash order; the model keeps first-occurrence order (group-by output is
   compared as a bag). *)
Record gitem := mkgitem { g_states : list aggstate; g_sizes : list Z; g_count : Z }.

Fixpoint add_inputs (sts : list aggstate) (sizes : list Z) (inputs : list value) : list aggstate * list Z :=
  match sts, sizes, inputs with
  | st :: sts', n :: sizes', v :: inputs' =>
      let '(a, b) := add_inputs sts' sizes' inputs' in
      if is_null v then (st :: a, n :: b)                 (* AggregatedSetSize omits NULL inputs *)
      else (agg_add st v :: a, (n + 1) :: b)
  | _, _, _ => (sts, sizes)
  end.

Definition group_step (aggs : list aggcall) (m : list (list value * gitem)) (kr : keyed) : list (list value * gitem) :=
  let '(k, inputs) := kr in
  let it := match aget row_eqb m k with
            | Some it => it
            | None => mkgitem (map (fun a : aggcall => agg_init (fst (fst a)) (snd (fst a))) aggs) (map (fun _ => 0) aggs) 0
            end in
  let '(sts, sizes) := add_inputs (g_states it) (g_sizes it) inputs in
  aput row_eqb m k (mkgitem sts sizes (g_count it + 1)).

Fixpoint group_outputs (sts : list aggstate) (sizes : list Z) : outcome (list value) :=
  match sts, sizes with
  | st :: sts', n :: sizes' =>
      obind (if 0 <? n then agg_trigger st else Ok VNull) (fun v =>
      obind (group_outputs sts' sizes') (fun vs => Ok (v :: vs)))
  | _, _ => Ok []
  end.

Definition group_node (aggs : list aggcall) (l : list keyed) : outcome (list row) :=
  mapM (fun kit : list value * gitem =>
          obind (group_outputs (g_states (snd kit)) (g_sizes (snd kit))) (fun vs => Ok (fst kit ++ vs)))
       (fold_left (group_step aggs) l []).

(* nodes.OrderSensitiveTransform (after C05's fix: the limit counts rows) *)
Definition ost_node (lim : option Z) (its : list oitem) : outcome (list row) :=
  match lim with
  | Some n =>
      if n =? 0 then Ok []
      else if n <? 0 then Err e_limit
      else Ok (firstn (Z.to_nat n) (map snd (expand (cbuild oitem_cmp its))))
  | None => Ok (map snd (expand (cbuild oitem_cmp its)))
  end.

(* nodes.Limit (after C05's fix for 0): produce, count, stop when the count equals the limit *)
Fixpoint limit_loop (n : Z) (i : Z) (rows : list row) : list row :=
  match rows with
  | [] => []
  | r :: t => r :: (if i + 1 =? n then [] else limit_loop n (i + 1) t)
  end.
Definition limit_node (n : Z) (rows : list row) : list row :=
  if n =? 0 then [] else limit_loop n 0 rows.

Section Run.
  Variable tables : db.
  Variable pinned_names : bool.
  Fixpoint run_plan (ctes : list (name * rel)) (p : plan) : outcome rel :=
    match p with
    | PScan t alias => match lookup t tables with
                       | Some r => Ok (mkrel (qualify_table alias (rsch r)) (rrows r))
                       | None => Err e_unknown
                       end
    | PCte n => match lookup n ctes with Some r => Ok r | None => Err e_unknown end
    | PRequalify alias p => obind (run_plan ctes p) (fun r => Ok (mkrel (requalify alias (rsch r)) (rrows r)))
    | PFilter e p => obind (run_plan ctes p) (fun r =>
                     obind (filter_node (rsch r) e (rrows r)) (fun rows => Ok (mkrel (rsch r) rows)))
    | PMap items p => obind (run_plan ctes p) (fun r => map_sel pinned_names (rsch r) items (rrows r))
    | PGroupMap keys aggs gi p =>
        (* GroupBy: fields named gi_keynames ++ gi_aggnames; then the Map of un-aliased Variables, which finds
           its columns and their names by name *)
        obind (run_plan ctes p) (fun r =>
        obind gi (fun gi =>
        obind (mapM (eval_keyed (rsch r) keys aggs) (rrows r)) (fun kl =>
        obind (group_node aggs kl) (fun grows =>
        map_sel pinned_names (group_schema gi) (var_items gi) grows))))
    | PDistinct p => obind (run_plan ctes p) (fun r => Ok (mkrel (rsch r) (distinct_node (rrows r))))
    | POrderLimit ob lim p =>
        obind (run_plan ctes p) (fun r =>
        match ob with
        | [] => match lim with
                | Some n => Ok (mkrel (rsch r) (limit_node n (rrows r)))
                | None => Ok r
                end
        | _ => obind (mapM (eval_okey (rsch r) ob) (rrows r)) (fun its =>
               obind (ost_node lim its) (fun rows => Ok (mkrel (rsch r) rows)))
        end)
    end.
End Run.

(* cmd/root.go: WITH definitions through ParseNestedNode, then the main statement; for -o json the sink is
   OrderSensitiveTransform / Limit over the plan — the same wiring ParseNestedNode gives a nested select *)
Section ExecTop.
  Variable pinned : bool.
  Variable pinned_names : bool.
  Variable tables : db.
  Fixpoint exec_ctes (ctes : list (name * rel)) (defs : list (name * query)) : outcome (list (name * rel)) :=
    match defs with
    | [] => Ok ctes
    | (n, q) :: rest => obind (run_plan tables pinned_names ctes (plan_of_q pinned pinned_names q)) (fun r => exec_ctes ((n, r) :: ctes) rest)
    end.
  Definition exec_top_gen (t : top) : outcome rel :=
    obind (exec_ctes [] (fst t)) (fun ctes => run_plan tables pinned_names ctes (plan_of_q pinned pinned_names (snd t))).
End ExecTop.
Definition exec_top : db -> top -> outcome rel := exec_top_gen false false.
Definition exec_top_pinned : db -> top -> outcome rel := exec_top_gen true false.         (* GROUP BY ignored *)
Definition exec_top_pinned_names : db -> top -> outcome rel := exec_top_gen false true.  (* third name repeated *)

(* ------------------------------------------------------------------ fragment *)
(* plain values: the value fragment of C01/C03 *)
Fixpoint plainb (v : value) : bool :=
  match v with
  | VNull | VInt _ | VBool _ | VStr _ => true
  | VFloat b => (0 <=? b) && (b <? two64) && negb (f_is_nan b) && negb (b =? two63)   (* no NaN, no -0 *)
  | VList l => forallb plainb l
  | _ => false
  end.
Definition plain_row (r : row) : bool := forallb plainb r.
Definition plain_rel (r : rel) : bool := forallb plain_row (rrows r).
Definition plain_db (d : db) : bool := forallb (fun nr : name * rel => plain_rel (snd nr)) d.

Fixpoint plain_expr (e : expr) : bool :=
  match e with
  | ECol _ _ => true
  | ELit v => plainb v
  | EBin _ a b | EAnd a b | EOr a b => plain_expr a && plain_expr b
  | EUn _ a => plain_expr a
  end.
Definition plain_item (i : item) : bool :=
  match i with IExpr e _ => plain_expr e | IAgg _ _ a _ => plain_expr a | IStar | IQStar _ => true end.

Definition opt_all {A} (f : A -> bool) (o : option A) : bool := match o with Some x => f x | None => true end.

(* literals plain, limits not negative.  ([ordered_out]: the real SimpleGroupBy emits groups in hash order, so
   a LIMIT without ORDER BY directly over grouping output is not determined; such queries are outside.) *)
Fixpoint ordered_src (s : source) : bool :=
  match s with
  | STable _ _ => true
  | SSub (Q _ items from _ gb ob _) _ =>
      match ob with [] => negb (grouping false items gb) && ordered_src from | _ => true end
  | SCte _ => false
  end.
(* the Map over the GroupBy node reads, by name, the column the select item means and gives it the item's name:
   false only when two GroupBy fields share a name (an alias equal to an unselected key's key_i, a key selected
   twice) *)
Definition schema_eqb (a b : schema) : bool := list_eqb field_eqb a b.
Fixpoint resolves_to (s : schema) (names : list name) (cols : list nat) : bool :=
  match names, cols with
  | [], [] => true
  | n :: ns, c :: cs => (match resolve s None n with Ok i => Nat.eqb i c | _ => false end) && resolves_to s ns cs
  | _, _ => false
  end.
Definition group_names_ok (items : list item) (gb : list expr) : bool :=
  match group_info false items gb with
  | Ok gi => resolves_to (group_schema gi) (gi_sel gi) (gi_cols gi) &&
             match out_schema false (group_schema gi) (var_items gi) with
             | Ok outs => schema_eqb outs (unq (gi_sel gi))
             | _ => false
             end
  | _ => true
  end.

Fixpoint frag_q (q : query) : bool :=
  match q with
  | Q dist items from wh gb ob lim =>
      (if grouping false items gb then group_names_ok items gb else true) &&
      forallb plain_item items && frag_src from && opt_all plain_expr wh && forallb plain_expr gb &&
      forallb (fun kd : expr * bool => plain_expr (fst kd)) ob && opt_all (fun n => 0 <=? n) lim &&
      (match ob, lim with [], Some _ => negb (grouping false items gb) && ordered_src from | _, _ => true end)
  end
with frag_src (s : source) : bool :=
  match s with
  | STable _ _ => true
  | SSub q _ => frag_q q
  | SCte _ => true
  end.
Definition in_fragment (t : top) : bool :=
  forallb (fun nq : name * query => frag_q (snd nq)) (fst t) && frag_q (snd t).

Definition has_order_by (t : top) : bool := match snd t with Q _ _ _ _ _ ob _ => negb (match ob with [] => true | _ => false end) end.
Definition is_group_query (t : top) : bool := match snd t with Q _ items _ _ gb _ _ => grouping false items gb end.

(* ------------------------------------------------------------------ comparing results *)
Definition rows_eqb (a b : list row) : bool := list_eqb (list_eqb value_eqb) a b.
Definition count_row (r : row) (l : list row) : Z := zsum (map (fun x => if row_eqb x r then 1 else 0) l).
Definition bag_rows_eqb (a b : list row) : bool := forallb (fun r => count_row r a =? count_row r b) (a ++ b).

(* ordered = true: the same rows in the same order; false: the same bag of rows *)
Definition result_equivb (ordered : bool) (a b : outcome rel) : bool :=
  match a, b with
  | Ok x, Ok y => if ordered then rows_eqb (rrows x) (rrows y) else bag_rows_eqb (rrows x) (rrows y)
  | Err _, Err _ => true
  | Panic s, Panic s' => s =? s'
  | _, _ => false
  end.
Definition result_equiv (ordered : bool) (a b : outcome rel) : Prop := result_equivb ordered a b = true.

(* ------------------------------------------------------------------ cases of the differential run *)
Inductive observed := ObsRows (names : list name) (rows : list row) | ObsErr.   (* names = [] when nothing was printed *)

(* formats.WithoutQualifiers: the short name when it is unique among the short names, else qualifier.name *)
Definition printed_names (s : schema) : list name :=
  map (fun f => if (length (filter (fun g : field => name_eqb (snd g) (snd f)) s) =? 1)%nat then snd f
                else match fst f with Some q => q ++ [46] ++ snd f | None => snd f end) s.
Definition rel_case := (top * db * observed)%type.

Definition obs_matches (ordered : bool) (model : outcome rel) (o : observed) : bool :=
  match model, o with
  | Ok x, ObsRows names rows =>
      (if ordered then rows_eqb (rrows x) rows else bag_rows_eqb (rrows x) rows) &&
      match rows with [] => true | _ => list_eqb name_eqb (printed_names (rsch x)) names end
  | Err _, ObsErr => true
  | _, _ => false
  end.

(* tie: the compiled pipeline's output is what the CLI printed; spec: the relational semantics' is *)
Definition rel_tie (c : rel_case) : bool := let '(t, d, o) := c in obs_matches (has_order_by t) (exec_top d t) o.
Definition rel_spec (c : rel_case) : bool := let '(t, d, o) := c in obs_matches (has_order_by t) (den_top d t) o.

(* ------------------------------------------------------------------ stream_native line (C01 pinned defect) *)
(* fmt.Fprintf(w, text) without arguments: "%%" prints "%", "%" + verb prints "%!verb(MISSING)",
   a trailing "%" prints "%!(NOVERB)" *)
Fixpoint fprintf_noargs (s : list Z) : list Z :=
  match s with
  | [] => []
  | 37 :: rest =>
      match rest with
      | [] => [37; 33; 40; 78; 79; 86; 69; 82; 66; 41]
      | 37 :: rest' => 37 :: fprintf_noargs rest'
      | c :: rest' => [37; 33; c; 40; 77; 73; 83; 83; 73; 78; 71; 41] ++ fprintf_noargs rest'
      end
  | c :: rest => c :: fprintf_noargs rest
  end.
Definition native_line_pinned (text : list Z) : list Z := fprintf_noargs (text ++ [10]).
Definition native_line (text : list Z) : list Z := text ++ [10].          (* fmt.Fprintln *)
