(* Model/NumFns.v — functions/functions.go: the arithmetic descriptors (+ - * / on Int/Float/Duration/Time/
   String), abs, sqrt, ceil, floor, int, float, time_from_unix, time_to_unix, in, not in, the index operator [];
   execution/expressions.go: Coalesce.Evaluate, ObjectLayoutFixer.fixLayout, calculateMapping.
   Executable definitions only.  Follows the code of /repo construct by construct; `*_pinned` variants are the
   code before the `fix:` commits of branch verif-c13.

   Not modelled (tied in the engine by Go-side tables and round trips only): log, log2, log10, pow, the
   decimal text <-> float64 conversions of float(String) and string(Float), string() of non-Int values. *)
From Coq Require Import SpecFloat.
From Octo Require Export Values.

(* ---- error and panic-site enums of this engine ---- *)
Definition E_div_zero : Z := 1.          (* "division by zero" error returned by the fixed / descriptors *)
Definition E_neg_repeat : Z := 2.        (* String * negative Int *)
Definition E_repeat_overflow : Z := 3.   (* len(s) * n does not fit an int *)
Definition E_arg : Z := 9.               (* a COALESCE argument returned an error *)
Definition P_div_zero : Z := 1.          (* runtime error: integer divide by zero *)
Definition P_neg_repeat : Z := 2.        (* strings: negative Repeat count *)
Definition P_repeat_overflow : Z := 3.   (* strings: Repeat output length overflow *)
Definition P_index : Z := 4.             (* runtime error: index out of range *)
Definition P_nil : Z := 5.               (* nil pointer dereference (a LayoutMapping branch that is not set) *)

(* ================= Int and Duration (both int64) ================= *)
Definition int_add (a b : Z) : Z := wrap64 (a + b).
Definition int_sub (a b : Z) : Z := wrap64 (a - b).
Definition int_neg (a : Z) : Z := wrap64 (- a).
Definition int_mul (a b : Z) : Z := wrap64 (a * b).

(* Go's  a / b  on int64: truncated quotient; MinInt64 / -1 wraps to MinInt64; b = 0 is a run-time panic *)
Definition int_div_pinned (a b : Z) : outcome Z :=
  if b =? 0 then Panic P_div_zero else Ok (wrap64 (Z.quot a b)).
(* after `fix: integer division by zero returns an error` *)
Definition int_div (a b : Z) : outcome Z :=
  if b =? 0 then Err E_div_zero else Ok (wrap64 (Z.quot a b)).

(* abs:  if x > 0 { return x };  return x * -1 *)
Definition int_abs (a : Z) : Z := if 0 <? a then a else wrap64 (a * -1).

(* ================= float64: bit pattern <-> SpecFloat ================= *)
Definition fprec : Z := 53.
Definition femax : Z := 1024.
Definition two52 : Z := 4503599627370496.
Definition sign_bits (s : bool) : Z := if s then two63 else 0.

Definition b2sf (bits : Z) : spec_float :=
  let b := bits mod two64 in
  let s := two63 <=? b in
  let e := (b / two52) mod 2048 in
  let m := b mod two52 in
  if e =? 0 then
    match m with Zpos p => S754_finite s p (-1074) | _ => S754_zero s end
  else if e =? 2047 then
    (if m =? 0 then S754_infinity s else S754_nan)
  else
    match m + two52 with Zpos p => S754_finite s p (e - 1075) | _ => S754_nan end.

(* total on valid binary64 values (the only ones the operations below produce) *)
Definition sf2b (f : spec_float) : Z :=
  match f with
  | S754_zero s => sign_bits s
  | S754_infinity s => sign_bits s + f_inf_mag
  | S754_nan => f_canon_nan
  | S754_finite s m e =>
      if Zpos m <? two52 then sign_bits s + Zpos m                 (* subnormal, e = -1074 *)
      else sign_bits s + (e + 1075) * two52 + (Zpos m - two52)
  end.

(* equality of float results: bit for bit, except that all NaN patterns are identified (IEEE 754 leaves the
   payload of a produced NaN to the platform; SpecFloat has a single NaN) *)
Definition fbits_eqb (a b : Z) : bool := (f_is_nan a && f_is_nan b) || (a mod two64 =? b mod two64).

Definition f_add (a b : Z) : Z := sf2b (SFadd fprec femax (b2sf a) (b2sf b)).
Definition f_sub (a b : Z) : Z := sf2b (SFsub fprec femax (b2sf a) (b2sf b)).
Definition f_mul (a b : Z) : Z := sf2b (SFmul fprec femax (b2sf a) (b2sf b)).
Definition f_div (a b : Z) : Z := sf2b (SFdiv fprec femax (b2sf a) (b2sf b)).
Definition f_sqrt (a : Z) : Z := sf2b (SFsqrt fprec femax (b2sf a)).
Definition f_opp (a : Z) : Z := (a mod two64 + two63) mod two64.     (* -x flips the sign bit *)
Definition f_abs (a : Z) : Z := f_mag a.                            (* math.Abs clears it *)

(* float64(int64): round to nearest even *)
Definition f_of_int (z : Z) : Z := sf2b (binary_normalize fprec femax z 0 false).

(* the integer  s·m·2^e  rounded toward -inf / +inf / zero *)
Definition signed_m (s : bool) (m : positive) : Z := if s then Zneg m else Zpos m.
Definition sf_floor_int (s : bool) (m : positive) (e : Z) : Z :=
  if 0 <=? e then signed_m s m * 2 ^ e else signed_m s m / 2 ^ (- e).
Definition sf_ceil_int (s : bool) (m : positive) (e : Z) : Z :=
  if 0 <=? e then signed_m s m * 2 ^ e else - ((- signed_m s m) / 2 ^ (- e)).
Definition sf_trunc_int (s : bool) (m : positive) (e : Z) : Z :=
  if 0 <=? e then signed_m s m * 2 ^ e else Z.quot (signed_m s m) (2 ^ (- e)).

(* math.Floor / math.Ceil: values with e >= 0 are already integral; a zero result keeps the sign of x *)
Definition f_floor (a : Z) : Z :=
  match b2sf a with
  | S754_finite s m e => if 0 <=? e then a mod two64 else sf2b (binary_normalize fprec femax (sf_floor_int s m e) 0 s)
  | S754_nan => f_canon_nan
  | _ => a mod two64
  end.
Definition f_ceil (a : Z) : Z :=
  match b2sf a with
  | S754_finite s m e => if 0 <=? e then a mod two64 else sf2b (binary_normalize fprec femax (sf_ceil_int s m e) 0 s)
  | S754_nan => f_canon_nan
  | _ => a mod two64
  end.

(* int64(float64): truncation toward zero when the truncated value fits; otherwise (NaN, ±Inf, out of
   range) Go leaves the result implementation-defined: None, no claim *)
Definition f_to_int (a : Z) : option Z :=
  match b2sf a with
  | S754_zero _ => Some 0
  | S754_finite s m e => let t := sf_trunc_int s m e in if in_int64b t then Some t else None
  | _ => None
  end.

(* Duration / Duration:  float64(a) / float64(b) *)
Definition dur_div_dur (a b : Z) : Z := f_div (f_of_int a) (f_of_int b).

(* ================= Time ================= *)
(* A time.Time without monotonic reading is (ext = seconds since year 1 as int64, nsec in [0,1e9)); the model's
   instant is the integer  ns = (ext - unix_to_internal)·1e9 + nsec  (Values.v: VTime ns loc). *)
Definition unix_to_internal : Z := 62135596800.
Definition e9 : Z := 1000000000.
Definition t_ext (ns : Z) : Z := ns / e9 + unix_to_internal.
Definition t_nsec (ns : Z) : Z := ns mod e9.
Definition t_make (ext nsec : Z) : Z := (ext - unix_to_internal) * e9 + nsec.

(* time.Unix(sec, nsec): normalise nsec into [0,1e9) carrying into sec (int64, wraps), then
   ext = sec + unixToInternal (int64, wraps) *)
Definition time_unix (sec nsec : Z) : Z :=
  t_make (wrap64 (wrap64 (sec + nsec / e9) + unix_to_internal)) (nsec mod e9).

(* time_from_unix(Int) = time.Unix(x, 0);  time_to_unix = Time.Unix() = ext + internalToUnix (int64, wraps) *)
Definition time_from_unix (x : Z) : Z := time_unix x 0.
Definition time_to_unix (ns : Z) : Z := wrap64 (t_ext ns - unix_to_internal).

(* Time.Add(d): dsec := d / 1e9; nsec := t.nsec() + d % 1e9 (Go: truncated); carry; addSec saturates *)
Definition sat_add_sec (ext d : Z) : Z :=
  let sum := wrap64 (ext + d) in
  if Bool.eqb (ext <? sum) (0 <? d) then sum
  else if 0 <? d then max_int64 else - max_int64.
Definition time_add (ns d : Z) : Z :=
  let dsec := Z.quot d e9 in
  let nsec := t_nsec ns + Z.rem d e9 in
  let '(dsec, nsec) := if e9 <=? nsec then (dsec + 1, nsec - e9)
                       else if nsec <? 0 then (dsec - 1, nsec + e9) else (dsec, nsec) in
  t_make (sat_add_sec (t_ext ns) dsec) nsec.
(* Time - Duration:  t.Add(-d)  with -d wrapping for MinInt64 *)
Definition time_sub_dur (ns d : Z) : Z := time_add ns (wrap64 (- d)).

(* time_from_unix(Float):  i, f := math.Modf(x);  time.Unix(int64(i), int64(float64(time.Second)*f)) *)
Definition f_e9 : Z := 4741671816366391296.   (* math.Float64bits(1e9) *)
Definition time_from_unix_float (a : Z) : option Z :=
  match b2sf a with
  | S754_zero _ => Some (time_unix 0 0)
  | S754_finite s m e =>
      let i := sf_trunc_int s m e in
      let fi := binary_normalize fprec femax i 0 s in           (* the integer part as a float (exact) *)
      let frac := SFsub fprec femax (b2sf a) fi in
      let prod := sf2b (SFmul fprec femax (b2sf f_e9) frac) in
      match f_to_int prod with
      | Some n => if in_int64b i then Some (time_unix i n) else None
      | None => None
      end
  | _ => None
  end.

(* ================= Strings ================= *)
Fixpoint repeat_bytes (s : list Z) (n : nat) : list Z :=
  match n with O => [] | S k => s ++ repeat_bytes s k end.

(* strings.Repeat(s, int(n)); its two panics escape the pinned  String * Int  descriptors *)
Definition go_repeat (s : list Z) (n : Z) : outcome (list Z) :=
  if n =? 0 then Ok []
  else if n =? 1 then Ok s
  else if n <? 0 then Panic P_neg_repeat
  else if max_int64 <? Z.of_nat (length s) * n then Panic P_repeat_overflow
  else match s with [] => Ok [] | _ => Ok (repeat_bytes s (Z.to_nat n)) end.
Definition str_repeat_pinned := go_repeat.
(* after the fix, repeatString:  count < 0 -> error;  len(s) > 0 && count > MaxInt/len(s) -> error;  strings.Repeat *)
Definition str_repeat (s : list Z) (n : Z) : outcome (list Z) :=
  if n <? 0 then Err E_neg_repeat
  else if (0 <? Z.of_nat (length s)) && (max_int64 / Z.of_nat (length s) <? n) then Err E_repeat_overflow
  else go_repeat s n.

(* ================= int(String): strconv.ParseInt(s, 10, 64) ================= *)
Definition is_digit (c : Z) : bool := (48 <=? c) && (c <=? 57).
Definition pu_cutoff : Z := 1844674407370955162.       (* maxUint64/10 + 1 *)
Definition pu_max : Z := two64 - 1.
Definition PE_syntax : Z := 1.
Definition PE_range : Z := 2.

(* the digit loop of ParseUint(s, 10, 64) on a uint64 accumulator; with base 10 an underscore, a letter or
   any other byte is a syntax error *)
Fixpoint pu_loop (s : list Z) (n : Z) : outcome Z :=
  match s with
  | [] => Ok n
  | c :: rest =>
      if is_digit c then
        let d := c - 48 in
        if pu_cutoff <=? n then Err PE_range
        else let n' := n * 10 in
             let n1 := (n' + d) mod two64 in
             if (n1 <? n') || (pu_max <? n1) then Err PE_range else pu_loop rest n1
      else Err PE_syntax
  end.
Definition parse_uint (s : list Z) : outcome Z :=
  match s with [] => Err PE_syntax | _ => pu_loop s 0 end.

Definition parse_int (s : list Z) : outcome Z :=
  match s with
  | [] => Err PE_syntax
  | c :: rest =>
      let neg := c =? 45 in
      let body := if (c =? 43) || (c =? 45) then rest else s in
      obind (parse_uint body) (fun un =>
        if negb neg && (two63 <=? un) then Err PE_range
        else if neg && (two63 <? un) then Err PE_range
        else Ok (if neg then wrap64 (- un) else un))
  end.

(* int(String): a failed parse is logged and yields NULL *)
Definition int_of_string (s : list Z) : value :=
  match parse_int s with Ok z => VInt z | _ => VNull end.

(* the specification: optional sign, one or more decimal digits, value in int64 *)
Fixpoint digits_value (acc : Z) (s : list Z) : Z :=
  match s with [] => acc | c :: rest => digits_value (acc * 10 + (c - 48)) rest end.
Definition parse_decimal_int64 (s : list Z) : option Z :=
  let '(neg, body) := match s with
                      | c :: r => if c =? 43 then (false, r) else if c =? 45 then (true, r) else (false, s)
                      | [] => (false, s)
                      end in
  match body with
  | [] => None
  | _ => if forallb is_digit body then
           let v := digits_value 0 body in
           let z := if neg then - v else v in
           if in_int64b z then Some z else None
         else None
  end.

(* ================= IN, NOT IN, [] ================= *)
(* for i := range l { if x.Equal(l[i]) { return true } }; return false *)
Fixpoint in_loop (x : value) (l : list value) : bool :=
  match l with [] => false | y :: ys => if vequal x y then true else in_loop x ys end.
Fixpoint not_in_loop (x : value) (l : list value) : bool :=
  match l with [] => true | y :: ys => if vequal x y then false else not_in_loop x ys end.

(* list[index]; pinned:  if i >= len { NULL };  return l[i]  — a negative index panics *)
Definition index_pinned (l : list value) (i : Z) : outcome value :=
  if Z.of_nat (length l) <=? i then Ok VNull
  else if i <? 0 then Panic P_index
  else match nth_error l (Z.to_nat i) with Some v => Ok v | None => Panic P_index end.
Definition index_fn (l : list value) (i : Z) : outcome value :=
  if (i <? 0) || (Z.of_nat (length l) <=? i) then Ok VNull
  else match nth_error l (Z.to_nat i) with Some v => Ok v | None => Panic P_index end.

(* ================= the descriptor table as one function ================= *)
Inductive fn :=
| FAddInt | FAddFloat | FAddDur | FAddTimeDur | FAddDurTime | FAddStr
| FSubInt | FNegInt | FSubFloat | FNegFloat | FSubDur | FNegDur | FSubTimeDur
| FMulInt | FMulFloat | FMulDurInt | FMulIntDur | FMulStrInt | FMulIntStr
| FDivInt | FDivFloat | FDivDurInt | FDivDurDur
| FAbsInt | FAbsFloat | FSqrt | FCeil | FFloor
| FTimeFromUnixInt | FTimeFromUnixFloat | FTimeToUnix
| FIntInt | FIntBool | FIntFloat | FIntStr | FIntDur
| FFloatFloat | FFloatInt | FFloatDur
| FIndex | FInList | FInTuple | FNotInList | FNotInTuple.

(* result of the model: MUnspec = the model makes no claim for these arguments (Go leaves the conversion
   implementation-defined, or the argument kinds do not match the descriptor) *)
Inductive mres := MUnspec | MRes (o : outcome value).

Definition olift {A} (f : A -> value) (o : outcome A) : mres :=
  MRes (match o with Ok a => Ok (f a) | Err e => Err e | Panic p => Panic p end).
Definition mval (v : value) : mres := MRes (Ok v).

Section Apply.
  Variable pinned : bool.
  Definition idiv := if pinned then int_div_pinned else int_div.
  Definition srep := if pinned then str_repeat_pinned else str_repeat.
  Definition idx := if pinned then index_pinned else index_fn.

  Definition apply_fn_gen (f : fn) (args : list value) : mres :=
    match f, args with
    | FAddInt, [VInt a; VInt b] => mval (VInt (int_add a b))
    | FAddFloat, [VFloat a; VFloat b] => mval (VFloat (f_add a b))
    | FAddDur, [VDur a; VDur b] => mval (VDur (int_add a b))
    | FAddTimeDur, [VTime t l; VDur d] => mval (VTime (time_add t d) l)
    | FAddDurTime, [VDur d; VTime t l] => mval (VTime (time_add t d) l)
    | FAddStr, [VStr a; VStr b] => mval (VStr (a ++ b))
    | FSubInt, [VInt a; VInt b] => mval (VInt (int_sub a b))
    | FNegInt, [VInt a] => mval (VInt (int_neg a))
    | FSubFloat, [VFloat a; VFloat b] => mval (VFloat (f_sub a b))
    | FNegFloat, [VFloat a] => mval (VFloat (f_opp a))
    | FSubDur, [VDur a; VDur b] => mval (VDur (int_sub a b))
    | FNegDur, [VDur a] => mval (VDur (int_neg a))
    | FSubTimeDur, [VTime t l; VDur d] => mval (VTime (time_sub_dur t d) l)
    | FMulInt, [VInt a; VInt b] => mval (VInt (int_mul a b))
    | FMulFloat, [VFloat a; VFloat b] => mval (VFloat (f_mul a b))
    | FMulDurInt, [VDur a; VInt b] => mval (VDur (int_mul a b))
    | FMulIntDur, [VInt a; VDur b] => mval (VDur (int_mul b a))
    | FMulStrInt, [VStr s; VInt n] => olift VStr (srep s n)
    | FMulIntStr, [VInt n; VStr s] => olift VStr (srep s n)
    | FDivInt, [VInt a; VInt b] => olift VInt (idiv a b)
    | FDivFloat, [VFloat a; VFloat b] => mval (VFloat (f_div a b))
    | FDivDurInt, [VDur a; VInt b] => olift VDur (idiv a b)
    | FDivDurDur, [VDur a; VDur b] => mval (VFloat (dur_div_dur a b))
    | FAbsInt, [VInt a] => mval (VInt (int_abs a))
    | FAbsFloat, [VFloat a] => mval (VFloat (f_abs a))
    | FSqrt, [VFloat a] => mval (VFloat (f_sqrt a))
    | FCeil, [VFloat a] => mval (VFloat (f_ceil a))
    | FFloor, [VFloat a] => mval (VFloat (f_floor a))
    | FTimeFromUnixInt, [VInt x] => mval (VTime (time_from_unix x) 0)
    | FTimeFromUnixFloat, [VFloat x] =>
        match time_from_unix_float x with Some t => mval (VTime t 0) | None => MUnspec end
    | FTimeToUnix, [VTime t _] => mval (VInt (time_to_unix t))
    | FIntInt, [VInt a] => mval (VInt a)
    | FIntBool, [VBool b] => mval (VInt (if b then 1 else 0))
    | FIntFloat, [VFloat a] => match f_to_int a with Some z => mval (VInt z) | None => MUnspec end
    | FIntStr, [VStr s] => mval (int_of_string s)
    | FIntDur, [VDur d] => mval (VInt d)
    | FFloatFloat, [VFloat a] => mval (VFloat a)
    | FFloatInt, [VInt a] => mval (VFloat (f_of_int a))
    | FFloatDur, [VDur a] => mval (VFloat (f_of_int a))
    | FIndex, [VList l; VInt i] => MRes (idx l i)
    | FInList, [x; VList l] => mval (VBool (in_loop x l))
    | FInTuple, [x; VTuple l] => mval (VBool (in_loop x l))
    | FNotInList, [x; VList l] => mval (VBool (not_in_loop x l))
    | FNotInTuple, [x; VTuple l] => mval (VBool (not_in_loop x l))
    | _, _ => MUnspec
    end.
End Apply.
Definition apply_fn := apply_fn_gen false.
Definition apply_fn_pinned := apply_fn_gen true.

(* ================= the specification of each descriptor, written independently of the code ================= *)
Definition first_some {A} (f : value -> option A) (l : list value) : option A :=
  match l with [] => None | x :: _ => f x end.

Definition spec_fn (f : fn) (args : list value) : mres :=
  match f, args with
  | FAddInt, [VInt a; VInt b] => mval (VInt (wrap64 (a + b)))
  | FSubInt, [VInt a; VInt b] => mval (VInt (wrap64 (a - b)))
  | FNegInt, [VInt a] => mval (VInt (wrap64 (- a)))
  | FMulInt, [VInt a; VInt b] => mval (VInt (wrap64 (a * b)))
  | FAddDur, [VDur a; VDur b] => mval (VDur (wrap64 (a + b)))
  | FSubDur, [VDur a; VDur b] => mval (VDur (wrap64 (a - b)))
  | FNegDur, [VDur a] => mval (VDur (wrap64 (- a)))
  | FMulDurInt, [VDur a; VInt b] => mval (VDur (wrap64 (a * b)))
  | FMulIntDur, [VInt a; VDur b] => mval (VDur (wrap64 (a * b)))
  | FDivInt, [VInt a; VInt b] =>
      if b =? 0 then MRes (Err E_div_zero) else mval (VInt (wrap64 (Z.quot a b)))
  | FDivDurInt, [VDur a; VInt b] =>
      if b =? 0 then MRes (Err E_div_zero) else mval (VDur (wrap64 (Z.quot a b)))
  | FAbsInt, [VInt a] => mval (VInt (wrap64 (Z.abs a)))
  | FIntStr, [VStr s] => mval (match parse_decimal_int64 s with Some z => VInt z | None => VNull end)
  | FIndex, [VList l; VInt i] =>
      mval (if (0 <=? i) && (i <? Z.of_nat (length l)) then nth (Z.to_nat i) l VNull else VNull)
  | FInList, [x; VList l] => mval (VBool (existsb (vequal x) l))
  | FInTuple, [x; VTuple l] => mval (VBool (existsb (vequal x) l))
  | FNotInList, [x; VList l] => mval (VBool (negb (existsb (vequal x) l)))
  | FNotInTuple, [x; VTuple l] => mval (VBool (negb (existsb (vequal x) l)))
  | FMulStrInt, [VStr s; VInt n] | FMulIntStr, [VInt n; VStr s] =>
      if n <? 0 then MRes (Err E_neg_repeat)
      else if max_int64 <? Z.of_nat (length s) * n then MRes (Err E_repeat_overflow)
      else mval (VStr (match s with [] => [] | _ => concat (repeat s (Z.to_nat n)) end))
  | FTimeFromUnixInt, [VInt x] =>
      (* for every timestamp whose year-1 second count fits int64 the instant is x seconds after the epoch *)
      if in_int64b (x + unix_to_internal) then mval (VTime (x * e9) 0) else MUnspec
  | FTimeToUnix, [VTime t _] =>
      if in_int64b (t / e9) then mval (VInt (t / e9)) else MUnspec
  | FAddTimeDur, [VTime t l; VDur d] | FAddDurTime, [VDur d; VTime t l] =>
      if in_int64b (t_ext t + d / e9 + 1) && in_int64b (t_ext t + d / e9 - 1) then mval (VTime (t + d) l) else MUnspec
  | FSubTimeDur, [VTime t l; VDur d] =>
      if (d =? min_int64) then MUnspec
      else if in_int64b (t_ext t - d / e9 + 1) && in_int64b (t_ext t - d / e9 - 1) then mval (VTime (t - d) l) else MUnspec
  (* the float descriptors, string concatenation and the identity conversions have the model as their
     specification: SpecFloat is the IEEE 754 definition *)
  | _, _ => apply_fn f args
  end.

(* ================= observations and the tie ================= *)
Inductive obs := OVal (v : value) | OErr | OPanic.

(* value equality for the tie: floats modulo NaN payload, time by instant *)
Fixpoint value_sim (a b : value) {struct a} : bool :=
  match a, b with
  | VFloat x, VFloat y => fbits_eqb x y
  | VList la, VList lb => list_eqb value_sim la lb
  | VStruct la, VStruct lb => list_eqb value_sim la lb
  | VTuple la, VTuple lb => list_eqb value_sim la lb
  | _, _ => value_eqb a b
  end.

Definition res_matches (m : mres) (o : obs) : bool :=
  match m, o with
  | MUnspec, OPanic => false          (* no claim about the value, but never a panic *)
  | MUnspec, _ => true
  | MRes (Ok v), OVal w => value_sim v w
  | MRes (Err _), OErr => true
  | MRes (Panic _), OPanic => true
  | _, _ => false
  end.

Definition is_scalar (v : value) : bool :=
  match v with VList _ | VStruct _ | VTuple _ => false | _ => true end.

(* ================= COALESCE ================= *)
(* an argument expression, reduced to what its evaluation yields *)
Inductive carg := AVal (v : value) | AErr.

(* the mapping computed by calculateMapping: each of the three branches may be unset (nil) *)
Inductive lmap :=
| LMap (st : option (list (Z * lmap)))      (* Struct: per target field (SourceIndex or -1, SourceMapping) *)
       (li : option lmap)                   (* List.ElementMapping *)
       (tu : option (list lmap)).           (* Tuple.ElementMapping *)
Definition lmap_empty : lmap := LMap None None None.

Section ListHelpers.
  Context {A B C : Type}.
  Variable f : A -> outcome B.
  (* for i := range l { out[i] = f(l[i]) }  — stops at the first panic *)
  Definition omap_list : list A -> outcome (list B) :=
    fix go l := match l with
                | [] => Ok []
                | x :: xs => obind (f x) (fun y => obind (go xs) (fun ys => Ok (y :: ys)))
                end.
  (* f(l[k]) with Go's bounds check *)
  Definition nth_apply : list A -> nat -> outcome B :=
    fix go l k := match l, k with
                  | x :: _, O => f x
                  | _ :: xs, S k' => go xs k'
                  | [], _ => Panic P_index
                  end.
End ListHelpers.
Section ListHelpers2.
  Context {A B M : Type}.
  Variable f : M -> A -> outcome B.
  (* for i := range l { out[i] = f(ms[i], l[i]) } *)
  Definition omap2_list : list A -> list M -> outcome (list B) :=
    fix go l ms := match l, ms with
                   | [], _ => Ok []
                   | x :: xs, m :: ms' => obind (f m x) (fun y => obind (go xs ms') (fun ys => Ok (y :: ys)))
                   | _ :: _, [] => Panic P_index
                   end.
End ListHelpers2.

(* fixLayout.  Three versions of the Tuple case:
   listbug       the pinned code reads value.List[i] (nil for a tuple value: index out of range for every
                 non-empty tuple);
   no padding    after `fix: COALESCE over tuples reads the tuple's elements`: value.Tuple[i], result as long as the value;
   padding       after `fix: COALESCE over tuples of different lengths pads the shorter tuple with NULLs`:
                 the result is as long as the mapping (= the output tuple type), missing elements are NULL. *)
Section FixLayout.
  Variable listbug pad : bool.
  Fixpoint fix_layout_gen (m : lmap) (v : value) {struct v} : outcome value :=
    match v with
    | VStruct fields =>
        match m with
        | LMap (Some st) _ _ =>
            obind ((fix go (st : list (Z * lmap)) : outcome (list value) :=
                      match st with
                      | [] => Ok []
                      | (i, mi) :: rest =>
                          obind (if i =? -1 then Ok VNull
                                 else if i <? 0 then Panic P_index
                                 else nth_apply (fix_layout_gen mi) fields (Z.to_nat i))
                                (fun y => obind (go rest) (fun ys => Ok (y :: ys)))
                      end) st)
                  (fun l => Ok (VStruct l))
        | LMap None _ _ => Panic P_nil
        end
    | VList elems =>
        match elems, m with
        | [], _ => Ok (VList [])
        | _, LMap _ (Some em) _ => obind (omap_list (fix_layout_gen em) elems) (fun l => Ok (VList l))
        | _, LMap _ None _ => Panic P_nil
        end
    | VTuple elems =>
        match m with
        | LMap _ _ (Some ems) =>
            if listbug then match elems with [] => Ok (VTuple []) | _ => Panic P_index end   (* value.List[0] of a tuple value *)
            else obind (omap2_list fix_layout_gen elems ems)
                       (fun l => Ok (VTuple (if pad then l ++ repeat VNull (length ems - length elems) else l)))
        | LMap _ _ None => match elems with [] => Ok (VTuple []) | _ => Panic P_nil end
        end
    | _ => Ok v
    end.
End FixLayout.
Definition fix_layout := fix_layout_gen false true.
Definition fix_layout_nopad := fix_layout_gen false false.     (* between the two tuple fixes *)
Definition fix_layout_pinned := fix_layout_gen true false.

(* ---- calculateMapping ---- *)
Inductive lty :=
| TPrim (id : Z)                       (* TypeID of a primitive type, Null included *)
| TStruct (fields : list (list Z * lty))
| TList (el : option lty)
| TTuple (els : list lty)
| TUnion (alts : list lty).

Definition lty_id (t : lty) : Z :=
  match t with TPrim id => id | TList _ => 7 | TStruct _ => 8 | TTuple _ => 9 | TUnion _ => 10 end.

(* sourceIndices[name] = i in field order: a later duplicate overwrites an earlier one *)
Fixpoint last_index_of (name : list Z) (fs : list (list Z * lty)) (i : Z) (found : Z) : Z :=
  match fs with
  | [] => found
  | (n, _) :: rest => last_index_of name rest (i + 1) (if list_eqb Z.eqb n name then i else found)
  end.

Definition merge_mappings (m1 m2 : lmap) : lmap :=
  let '(LMap s1 l1 t1) := m1 in
  let '(LMap s2 l2 t2) := m2 in
  LMap (match s2 with Some _ => s2 | None => s1 end)
       (match l2 with Some _ => l2 | None => l1 end)
       (match t2 with Some _ => t2 | None => t1 end).

Definition E_fuel : Z := 99.

(* fuel bounds the nesting depth of the two types (every recursive call descends in the source or in the
   target type); running out of it is the error E_fuel, never a mapping *)
Section CalcMapping.
Variable pad : bool.    (* false: the code before the tuple-length fix (indexes sourceType.Tuple.Elements[i] for every target element) *)
Fixpoint calc_mapping_gen (fuel : nat) (tgt src : lty) {struct fuel} : outcome lmap :=
  match fuel with
  | O => Err E_fuel
  | S fuel' =>
      match src with
      | TUnion alts =>
          fold_left (fun acc a => obind acc (fun m => obind (calc_mapping_gen fuel' tgt a) (fun m' => Ok (merge_mappings m m'))))
                    alts (Ok lmap_empty)
      | _ =>
          match tgt with
          | TUnion alts =>
              match find (fun a => lty_id a =? lty_id src) alts with
              | Some a => calc_mapping_gen fuel' a src
              | None => Panic P_nil       (* panic("calculateMapping unreachable target Union alternative") *)
              end
          | TStruct tfs =>
              let sfs := match src with TStruct l => l | _ => [] end in
              obind (omap_list (fun tf : list Z * lty =>
                       let i := last_index_of (fst tf) sfs 0 (-1) in
                       if i =? -1 then Ok (-1, lmap_empty)
                       else nth_apply (fun sf : list Z * lty =>
                                         obind (calc_mapping_gen fuel' (snd tf) (snd sf)) (fun m => Ok (i, m)))
                                      sfs (Z.to_nat i)) tfs)
                    (fun l => Ok (LMap (Some l) None None))
          | TList tel =>
              match tel, src with
              | Some te, TList (Some se) => obind (calc_mapping_gen fuel' te se) (fun m => Ok (LMap None (Some m) None))
              | _, _ => Ok lmap_empty
              end
          | TTuple tes =>
              let ses := match src with TTuple l => l | _ => [] end in
              if pad then
                (* for i := range mappings { if i >= len(source elements) { break }; ... }: the rest stays LayoutMapping{} *)
                obind (omap2_list (fun s t => calc_mapping_gen fuel' t s) (firstn (length ses) tes) ses)
                      (fun ms => Ok (LMap None None (Some (ms ++ repeat lmap_empty (length tes - length ses)))))
              else
                obind (omap2_list (fun s t => calc_mapping_gen fuel' t s) tes ses)
                      (fun ms => Ok (LMap None None (Some ms)))
          | TPrim _ => Ok lmap_empty
          end
      end
  end.
End CalcMapping.
Definition calc_mapping := calc_mapping_gen true.
Definition calc_mapping_pinned := calc_mapping_gen false.
Definition mapping_fuel : nat := 64.

(* Coalesce.Evaluate: (result, number of argument expressions evaluated).  maps = the fixer's mappings. *)
Section Coalesce.
  Variable fixl : lmap -> value -> outcome value.
  Fixpoint coalesce_gen (args : list carg) (maps : list lmap) (n : Z) : outcome value * Z :=
    match args with
    | [] => (Ok VNull, n)
    | AErr :: _ => (Err E_arg, n + 1)
    | AVal VNull :: rest => coalesce_gen rest (tl maps) (n + 1)
    | AVal v :: _ => (match maps with m :: _ => fixl m v | [] => Panic P_index end, n + 1)
    end.
End Coalesce.
Definition coalesce (args : list carg) (maps : list lmap) := coalesce_gen fix_layout args maps 0.
Definition coalesce_pinned (args : list carg) (maps : list lmap) := coalesce_gen fix_layout_pinned args maps 0.

(* NewObjectLayoutFixer(target, sources) then Evaluate *)
Definition coalesce_typed_gen (calc : nat -> lty -> lty -> outcome lmap) (fixl : lmap -> value -> outcome value)
  (tgt : lty) (srcs : list lty) (args : list carg) : outcome value * Z :=
  match omap_list (calc mapping_fuel tgt) srcs with
  | Ok maps => coalesce_gen fixl args maps 0
  | Err e => (Err e, 0)
  | Panic p => (Panic p, 0)
  end.
Definition coalesce_typed := coalesce_typed_gen calc_mapping fix_layout.
Definition coalesce_typed_pinned := coalesce_typed_gen calc_mapping_pinned fix_layout_pinned.

(* ---- the specification of the layout change, by field name, without the intermediate mapping ---- *)
Fixpoint find_field (name : list Z) (fs : list (list Z * lty)) (vs : list value) (acc : option (lty * value))
  : option (lty * value) :=
  match fs, vs with
  | (n, t) :: fs', v :: vs' => find_field name fs' vs' (if list_eqb Z.eqb n name then Some (t, v) else acc)
  | _, _ => acc
  end.
Definition is_union (t : lty) : bool := match t with TUnion _ => true | _ => false end.
Definition find_alt (id : Z) (alts : list lty) : option lty := find (fun a => lty_id a =? id) alts.
Definition field_index (name : list Z) (sfs : list (list Z * lty)) : Z := last_index_of name sfs 0 (-1).

Section Zip3.
  Context {A B C D : Type}.
  Variable f : A -> B -> C -> D.
  Fixpoint zip3 (la : list A) (lb : list B) (lc : list C) : list D :=
    match la, lb, lc with
    | a :: la', b :: lb', c :: lc' => f a b c :: zip3 la' lb' lc'
    | _, _, _ => []
    end.
End Zip3.
Fixpoint forallb2p {A B} (f : A -> B -> bool) (la : list A) (lb : list B) : bool :=
  match la, lb with a :: la', b :: lb' => f a b && forallb2p f la' lb' | _, _ => true end.
Fixpoint forallb3p {A B C} (f : A -> B -> C -> bool) (la : list A) (lb : list B) (lc : list C) : bool :=
  match la, lb, lc with a :: la', b :: lb', c :: lc' => f a b c && forallb3p f la' lb' lc' | _, _, _ => true end.

(* The specification of the layout change: the value of output type tgt that carries the argument value v of type
   src — struct fields selected BY NAME (a field the argument lacks is NULL, one the output lacks is dropped),
   list elements and tuple elements one by one, a shorter tuple padded with NULLs, unions resolved by the kind of
   the value.  No mapping, no indices.  Fuel is consumed exactly as calc_mapping consumes it (one unit for a union
   on the source side, one for a union on the target side, one per structural level), so that the same fuel suits
   both; running out of it returns v, and C13_layout only speaks about fuels that the checkers below accept. *)
Fixpoint reshape (fuel : nat) (tgt src : lty) (v : value) {struct fuel} : value :=
  match fuel with
  | O => v
  | S n =>
      match src with
      | TUnion alts => match find_alt (tid v) alts with Some a => reshape n tgt a v | None => v end
      | _ =>
          match tgt with
          | TUnion talts => match find_alt (lty_id src) talts with Some a => reshape n a src v | None => v end
          | TStruct tfs =>
              match src, v with
              | TStruct sfs, VStruct vals =>
                  VStruct (map (fun tf : list Z * lty =>
                                  match find_field (fst tf) sfs vals None with
                                  | Some (st, fv) => reshape n (snd tf) st fv
                                  | None => VNull
                                  end) tfs)
              | _, _ => v
              end
          | TList (Some te) =>
              match src, v with
              | TList (Some se), VList vals => VList (map (reshape n te se) vals)
              | _, _ => v
              end
          | TList None => v
          | TTuple tes =>
              match src, v with
              | TTuple ses, VTuple vals =>
                  VTuple (zip3 (reshape n) tes ses vals ++ repeat VNull (length tes - length vals))
              | _, _ => v
              end
          | TPrim _ => v
          end
      end
  end.

(* tgt can hold every value of src, as far as the layout fixer is concerned (type level; what TypeSum is meant to
   guarantee for COALESCE's output type).  Unions: no union directly inside a union; against a non-union target
   every alternative has the target's kind. *)
Definition resolves (tgt a : lty) : bool := is_union tgt || (lty_id tgt =? lty_id a).
Fixpoint tcovers (fuel : nat) (tgt src : lty) {struct fuel} : bool :=
  match fuel with
  | O => false
  | S n =>
      match src with
      | TUnion alts => forallb (fun a => negb (is_union a) && resolves tgt a && tcovers n tgt a) alts
      | _ =>
          match tgt with
          | TUnion talts => match find_alt (lty_id src) talts with Some a => tcovers n a src | None => false end
          | TStruct tfs =>
              match src with
              | TStruct sfs =>
                  forallb (fun tf : list Z * lty =>
                             let i := field_index (fst tf) sfs in
                             (i =? -1) || match nth_error sfs (Z.to_nat i) with
                                          | Some sf => tcovers n (snd tf) (snd sf)
                                          | None => false
                                          end) tfs
              | _ => false
              end
          | TList tel =>
              match src with
              | TList sel => match tel, sel with
                             | Some te, Some se => tcovers n te se
                             | _, None => true
                             | None, Some _ => false
                             end
              | _ => false
              end
          | TTuple tes =>
              match src with
              | TTuple ses => (length ses <=? length tes)%nat && forallb2p (tcovers n) tes ses
              | _ => false
              end
          | TPrim id => match src with TPrim id' => id =? id' | _ => false end
          end
      end
  end.

(* v is a value of type src, as far as the layout fixer looks at it: the struct fields the output type selects,
   every list and tuple element; exactly one union alternative has the kind of the value. *)
Fixpoint vfits (fuel : nat) (tgt src : lty) (v : value) {struct fuel} : bool :=
  match fuel with
  | O => false
  | S n =>
      match src with
      | TUnion alts =>
          Nat.eqb (length (filter (fun a => lty_id a =? tid v) alts)) 1 &&
          match find_alt (tid v) alts with Some a => negb (is_union a) && vfits n tgt a v | None => false end
      | _ =>
          match tgt with
          | TUnion talts => match find_alt (lty_id src) talts with Some a => vfits n a src v | None => false end
          | TStruct tfs =>
              match src, v with
              | TStruct sfs, VStruct vals =>
                  (length sfs =? length vals)%nat &&
                  forallb (fun tf : list Z * lty =>
                             let i := field_index (fst tf) sfs in
                             (i =? -1) || match nth_error sfs (Z.to_nat i), nth_error vals (Z.to_nat i) with
                                          | Some sf, Some fv => vfits n (snd tf) (snd sf) fv
                                          | _, _ => false
                                          end) tfs
              | _, _ => false
              end
          | TList tel =>
              match src, v with
              | TList sel, VList vals =>
                  match tel, sel with
                  | Some te, Some se => forallb (vfits n te se) vals
                  | _, _ => match vals with [] => true | _ => false end
                  end
              | _, _ => false
              end
          | TTuple tes =>
              match src, v with
              | TTuple ses, VTuple vals => (length vals =? length ses)%nat && forallb3p (vfits n) tes ses vals
              | _, _ => false
              end
          | TPrim _ => match src with TPrim id' => is_scalar v && (id' =? tid v) | _ => false end
          end
      end
  end.

(* the value inhabits the type, structurally, with unions having at most one alternative per kind: the cases
   on which the by-name specification is claimed *)
Fixpoint fits (fuel : nat) (t : lty) (v : value) {struct fuel} : bool :=
  match fuel with
  | O => false
  | S fuel' =>
      match t with
      | TUnion alts =>
          (Z.of_nat (length (filter (fun a => lty_id a =? tid v) alts)) =? 1) &&
          match find (fun a => lty_id a =? tid v) alts with
          | Some (TUnion _) => false
          | Some a => fits fuel' a v
          | None => false
          end
      | TPrim id => (id =? tid v) && negb (7 <=? id)
      | TStruct fs =>
          match v with
          | VStruct vals => (length fs =? length vals)%nat &&
                            forallb (fun p => fits fuel' (snd (fst p)) (snd p)) (combine fs vals)
          | _ => false
          end
      | TList el =>
          match v, el with
          | VList vals, Some e => forallb (fits fuel' e) vals
          | VList [], None => true
          | _, _ => false
          end
      | TTuple els =>
          match v with
          | VTuple vals => (length els =? length vals)%nat &&
                           forallb (fun p => fits fuel' (fst p) (snd p)) (combine els vals)
          | _ => false
          end
      end
  end.

(* ================= the differential cases ================= *)
Inductive c13_case :=
| CFn (f : fn) (args : list value) (o : obs)
| CCoalesce (tgt : lty) (srcs : list lty) (args : list carg) (o : obs) (nevals : Z)
| CGoSide (id : Z).     (* a case decided by the engine's Go-side oracle only (log*, pow, float text): no model *)

Definition c13_tie (c : c13_case) : bool :=
  match c with
  | CFn f args o => res_matches (apply_fn f args) o
  | CCoalesce tgt srcs args o n =>
      let '(r, k) := coalesce_typed tgt srcs args in res_matches (MRes r) o && (k =? n)
  | CGoSide _ => true
  end.

(* the property's oracle on the implementation's observation *)
Fixpoint first_non_null (args : list carg) (srcs : list lty) : option (carg * option lty) :=
  match args with
  | [] => None
  | AVal VNull :: rest => first_non_null rest (tl srcs)
  | a :: _ => Some (a, hd_error srcs)
  end.
Fixpoint evals_needed (args : list carg) : Z :=
  match args with
  | [] => 0
  | AVal VNull :: rest => 1 + evals_needed rest
  | _ :: _ => 1
  end.

Definition c13_spec (c : c13_case) : bool :=
  match c with
  | CFn f args o => res_matches (spec_fn f args) o
  | CCoalesce tgt srcs args o n =>
      match o with OPanic => false | _ =>
      match first_non_null args srcs with
      | None => (n =? evals_needed args) && match o with OVal VNull => true | _ => false end
      | Some (AErr, _) => (n =? evals_needed args) && match o with OErr => true | _ => false end
      | Some (AVal v, Some src) =>
          (n =? evals_needed args) &&
          (negb (fits mapping_fuel src v || (tcovers mapping_fuel tgt src && vfits mapping_fuel tgt src v)) ||
                                                  (* ill-typed argument: only "no panic" is claimed *)
           match o with OVal w => value_sim (reshape mapping_fuel tgt src v) w | _ => false end)
      | Some (AVal v, None) => true
      end end
  | CGoSide _ => true
  end.
