(* Model/Plan.v — physical/nodes.go, physical/expression.go: the physical plan datatype restricted to what the
   optimizer rules touch, with NAMED variables as in Go, and its relational denotation.  Executable only.

   Not modelled (the harness counts plans that contain them as outside the fragment): OuterJoin,
   InMemoryRecords, QueryExpression (a plan inside an expression), table arguments of table valued functions.
   Types and NoRetractions of a schema are projected away (no rule reads them, except for building the type
   of a merged predicate, which nothing reads afterwards). *)
From Coq Require Export String Ascii.
From Octo Require Export Values.

Definition name := string.
Definition name_eqb : name -> name -> bool := String.eqb.

(* physical.Expression.  ExpressionType numbers are those of physical/expression.go. *)
Inductive expr : Type :=
| EVar (n : name) (level0 : bool)            (* 0 Variable{Name, IsLevel0} *)
| EConst (v : value)                         (* 1 *)
| ECall (f : name) (args : list expr)        (* 2 FunctionCall (descriptor projected away) *)
| EAnd (args : list expr)                    (* 3 *)
| EOr (args : list expr)                     (* 4 *)
| EAssert (target : name) (e : expr)         (* 8 TypeAssertion, target type as text *)
| ECast (tid : Z) (e : expr)                 (* 9 TypeCast *)
| EOther (kind : Z) (tag : name) (args : list expr).  (* 6 Coalesce, 7 Tuple, 10 ObjectFieldAccess(tag = field) *)

Record schema := mkS { sf : list name; stf : Z }.   (* Fields (names), TimeField (-1 = none) *)

Inductive tvfarg := TAExpr (e : expr) | TADesc (d : name).

Inductive plan : Type :=
| PDatasource (s : schema) (dsname alias : name) (mapping : list (name * name)) (policy : Z) (preds : list expr)
| PDistinct (s : schema) (src : plan)
| PFilter (s : schema) (pred : expr) (src : plan)
| PGroupBy (s : schema) (keys : list expr) (aggs : list name) (aggargs : list expr) (kei trig : Z) (src : plan)
| PStreamJoin (s : schema) (lkey rkey : list expr) (l r : plan)
| PLookupJoin (s : schema) (src joined : plan)
| PMap (s : schema) (exprs : list expr) (src : plan)
| PUnnest (s : schema) (field : name) (src : plan)
| POst (s : schema) (keys : list expr) (dirs : list Z) (limit : option expr) (src : plan)   (* OrderSensitiveTransform *)
| PTvf (s : schema) (fname : name) (args : list (name * tvfarg))
(* a table valued function with exactly one TABLE argument (max_diff_watermark, tumble): targ is its name *)
| PTvfT (s : schema) (fname targ : name) (args : list (name * tvfarg)) (src : plan).

Definition schema_of (p : plan) : schema :=
  match p with
  | PDatasource s _ _ _ _ _ | PDistinct s _ | PFilter s _ _ | PGroupBy s _ _ _ _ _ _ | PStreamJoin s _ _ _ _
  | PLookupJoin s _ _ | PMap s _ _ | PUnnest s _ _ | POst s _ _ _ _ | PTvf s _ _ | PTvfT s _ _ _ _ => s
  end.
Definition fields_of (p : plan) : list name := sf (schema_of p).

(* ---- decidable equality, used by the tie ---- *)
Fixpoint expr_eqb (a b : expr) {struct a} : bool :=
  match a, b with
  | EVar n l, EVar n' l' => name_eqb n n' && Bool.eqb l l'
  | EConst v, EConst v' => value_eqb v v'
  | ECall f x, ECall f' x' => name_eqb f f' && list_eqb expr_eqb x x'
  | EAnd x, EAnd x' => list_eqb expr_eqb x x'
  | EOr x, EOr x' => list_eqb expr_eqb x x'
  | EAssert t e, EAssert t' e' => name_eqb t t' && expr_eqb e e'
  | ECast t e, ECast t' e' => (t =? t') && expr_eqb e e'
  | EOther k t x, EOther k' t' x' => (k =? k') && name_eqb t t' && list_eqb expr_eqb x x'
  | _, _ => false
  end.
Definition schema_eqb (a b : schema) : bool := list_eqb name_eqb (sf a) (sf b) && (stf a =? stf b).
Definition tvfarg_eqb (a b : tvfarg) : bool :=
  match a, b with
  | TAExpr e, TAExpr e' => expr_eqb e e'
  | TADesc d, TADesc d' => name_eqb d d'
  | _, _ => false
  end.
Definition opt_eqb {A} (eqb : A -> A -> bool) (a b : option A) : bool :=
  match a, b with Some x, Some y => eqb x y | None, None => true | _, _ => false end.
Definition pair_eqb {A B} (ea : A -> A -> bool) (eb : B -> B -> bool) (a b : A * B) : bool :=
  ea (fst a) (fst b) && eb (snd a) (snd b).
Fixpoint plan_eqb (a b : plan) {struct a} : bool :=
  match a, b with
  | PDatasource s n al m po pr, PDatasource s' n' al' m' po' pr' =>
      schema_eqb s s' && name_eqb n n' && name_eqb al al' && list_eqb (pair_eqb name_eqb name_eqb) m m' &&
      (po =? po') && list_eqb expr_eqb pr pr'
  | PDistinct s x, PDistinct s' x' => schema_eqb s s' && plan_eqb x x'
  | PFilter s e x, PFilter s' e' x' => schema_eqb s s' && expr_eqb e e' && plan_eqb x x'
  | PGroupBy s k a g ke t x, PGroupBy s' k' a' g' ke' t' x' =>
      schema_eqb s s' && list_eqb expr_eqb k k' && list_eqb name_eqb a a' && list_eqb expr_eqb g g' &&
      (ke =? ke') && (t =? t') && plan_eqb x x'
  | PStreamJoin s lk rk l r, PStreamJoin s' lk' rk' l' r' =>
      schema_eqb s s' && list_eqb expr_eqb lk lk' && list_eqb expr_eqb rk rk' && plan_eqb l l' && plan_eqb r r'
  | PLookupJoin s l r, PLookupJoin s' l' r' => schema_eqb s s' && plan_eqb l l' && plan_eqb r r'
  | PMap s es x, PMap s' es' x' => schema_eqb s s' && list_eqb expr_eqb es es' && plan_eqb x x'
  | PUnnest s f x, PUnnest s' f' x' => schema_eqb s s' && name_eqb f f' && plan_eqb x x'
  | POst s k d li x, POst s' k' d' li' x' =>
      schema_eqb s s' && list_eqb expr_eqb k k' && list_eqb Z.eqb d d' && opt_eqb expr_eqb li li' && plan_eqb x x'
  | PTvf s f a, PTvf s' f' a' => schema_eqb s s' && name_eqb f f' && list_eqb (pair_eqb name_eqb tvfarg_eqb) a a'
  | PTvfT s f ta a x, PTvfT s' f' ta' a' x' =>
      schema_eqb s s' && name_eqb f f' && name_eqb ta ta' && list_eqb (pair_eqb name_eqb tvfarg_eqb) a a' && plan_eqb x x'
  | _, _ => false
  end.

(* ---- relational denotation ----
   A row is the list of values of a record, positionally, as in execution.Record.  Variables are resolved as
   physical.Expression.Materialize does: by NAME, in the innermost record schema that has a field of that name,
   then in the enclosing ones (lookup join: the joined side sees the source row one level up).
   The semantics is sequential (nested loops, source order): every rewrite of the optimizer preserves not just
   the bag but this list, which is what lets Distinct / ORDER BY+LIMIT be arbitrary functions below. *)
Definition row := list value.
Definition frame := (list name * row)%type.
Definition venv := list frame.

Fixpoint assoc (n : name) (l : list (name * value)) : option value :=
  match l with
  | [] => None
  | (k, v) :: t => if name_eqb n k then Some v else assoc n t
  end.
(* A name that no enclosing schema has does not occur in a well-formed plan (wf_plan, [resolves]): Go would
   take level = depth of the chain and fail at run time.  The value chosen here is never reached under wf_plan. *)
Fixpoint lookup (n : name) (env : venv) : value :=
  match env with
  | [] => VNull
  | (fs, vs) :: rest => match assoc n (combine fs vs) with Some v => v | None => lookup n rest end
  end.

Definition is_null (v : value) : bool := match v with VNull => true | _ => false end.
Definition truthy (v : value) : bool := match v with VBool true => true | _ => false end.

(* execution.And.Evaluate: NULL is remembered, the first non-NULL value that is not TRUE is returned *)
Fixpoint and_fold (seen_null : bool) (vs : list value) : value :=
  match vs with
  | [] => if seen_null then VNull else VBool true
  | VNull :: t => and_fold true t
  | VBool true :: t => and_fold seen_null t
  | v :: _ => v
  end.
(* execution.Or.Evaluate *)
Fixpoint or_fold (seen_null : bool) (vs : list value) : value :=
  match vs with
  | [] => if seen_null then VNull else VBool false
  | VBool true :: _ => VBool true
  | VNull :: t => or_fold true t
  | _ :: t => or_fold seen_null t
  end.

(* "=" : Strict (NULL in, NULL out), otherwise Value.Equal *)
Definition eq_sem (a b : value) : value :=
  if is_null a || is_null b then VNull else VBool (vcompare a b =? 0).
(* stream join key match AFTER the join fix: a NULL key component matches nothing *)
Definition key_match1 (a b : value) : bool := negb (is_null a) && negb (is_null b) && (vcompare a b =? 0).
(* the pinned stream join compares the key tuples with Compare: NULL = NULL *)
Definition key_match1_pinned (a b : value) : bool := vcompare a b =? 0.
Fixpoint forallb2' {A B} (f : A -> B -> bool) (a : list A) (b : list B) : bool :=
  match a, b with
  | [], [] => true
  | x :: xs, y :: ys => f x y && forallb2' f xs ys
  | _, _ => false
  end.

Fixpoint index_of (n : name) (l : list name) : option nat :=
  match l with
  | [] => None
  | x :: t => if name_eqb n x then Some O else option_map S (index_of n t)
  end.
Fixpoint replace_nth {A} (i : nat) (x : A) (l : list A) : list A :=
  match l, i with
  | [], _ => []
  | _ :: t, O => x :: t
  | h :: t, S i' => h :: replace_nth i' x t
  end.
Definition select {A} (idxs : list nat) (l : list A) : list A :=
  flat_map (fun i => match nth_error l i with Some r => [r] | None => [] end) idxs.

(* group-by: groups in order of first appearance, members in source order *)
Section Group.
  Variable key_eqb : list value -> list value -> bool.
  Fixpoint group_insert (k : list value) (a : list value) (gs : list (list value * list (list value))) :=
    match gs with
    | [] => [(k, [a])]
    | (k', ms) :: t => if key_eqb k k' then (k', ms ++ [a]) :: t else (k', ms) :: group_insert k a t
    end.
  Definition group_rows (l : list (list value * list value)) : list (list value * list (list value)) :=
    fold_left (fun gs ka => group_insert (fst ka) (snd ka) gs) l [].
End Group.

Section Den.
  (* the database: the records of a datasource (identified by everything of the node except its schema and
     pushed-down predicates) as functions from the unique field name to the value *)
  Variable db : name -> name -> list (name * name) -> list (name -> value).
  Variable fn_sem : name -> list value -> value.          (* every function except "=" : any total function *)
  Variable assert_sem : name -> value -> value.
  Variable cast_sem : Z -> value -> value.
  Variable other_sem : Z -> name -> list value -> value.  (* Coalesce, Tuple, ObjectFieldAccess *)
  Variable agg_sem : name -> list value -> value.          (* an aggregate over the argument values of a group *)
  Variable key_eqb : list value -> list value -> bool.     (* equality of group keys *)
  Variable distinct_sel : list row -> list nat.            (* which input rows (by position) DISTINCT emits *)
  Variable ost_sel : list (list value) -> list Z -> option value -> list nat.  (* ORDER BY keys, directions, LIMIT -> positions *)
  (* a table valued function: expression arguments, descriptors, and (when it has a TABLE argument) the schema of
     that table — tumble reads its Schema.TimeField — and its rows *)
  Variable tvf_sem : name -> list (name * value) -> list (name * name) -> option (schema * list row) -> list row.

  Fixpoint eval (e : expr) (env : venv) {struct e} : value :=
    match e with
    | EVar n _ => lookup n env
    | EConst v => v
    | ECall f args =>
        let vs := map (fun a => eval a env) args in
        match vs with
        | [a; b] => if name_eqb f "="%string then eq_sem a b else fn_sem f vs
        | _ => fn_sem f vs
        end
    | EAnd args => and_fold false (map (fun a => eval a env) args)
    | EOr args => or_fold false (map (fun a => eval a env) args)
    | EAssert t e' => assert_sem t (eval e' env)
    | ECast t e' => cast_sem t (eval e' env)
    | EOther k tag args => other_sem k tag (map (fun a => eval a env) args)
    end.

  Definition evals (es : list expr) (env : venv) : list value := map (fun e => eval e env) es.
  Definition keep (e : expr) (fs : list name) (env : venv) (r : row) : bool := truthy (eval e ((fs, r) :: env)).

  Definition tvf_arg_vals (args : list (name * tvfarg)) (env : venv) : list (name * value) :=
    flat_map (fun a => match snd a with TAExpr e => [(fst a, eval e env)] | TADesc _ => [] end) args.
  Definition tvf_arg_descs (args : list (name * tvfarg)) : list (name * name) :=
    flat_map (fun a => match snd a with TADesc d => [(fst a, d)] | TAExpr _ => [] end) args.

  Definition unnest_row (i : nat) (r : row) : list row :=
    match nth_error r i with
    | Some (VList l) => map (fun x => replace_nth i x r) l
    | _ => []
    end.

  Definition group_out (aggs : list name) (g : list value * list (list value)) : row :=
    fst g ++ map (fun ia => agg_sem (snd ia) (map (fun m => nth (fst ia) m VNull) (snd g))) (combine (seq 0 (length aggs)) aggs).

  Section Join.
    Variable km : value -> value -> bool.
    Fixpoint den_gen (p : plan) (env : venv) {struct p} : list row :=
      match p with
      | PDatasource s n al mp _ preds =>
          filter (fun r => forallb (fun e => keep e (sf s) env r) preds)
                 (map (fun rec => map rec (sf s)) (db n al mp))
      | PDistinct _ src => let rows := den_gen src env in select (distinct_sel rows) rows
      | PFilter _ e src => filter (keep e (fields_of src) env) (den_gen src env)
      | PGroupBy _ keys aggs aggargs _ _ src =>
          let fs := fields_of src in
          map (group_out aggs)
              (group_rows key_eqb (map (fun r => (evals keys ((fs, r) :: env), evals aggargs ((fs, r) :: env))) (den_gen src env)))
      | PStreamJoin _ lk rk l r =>
          let lf := fields_of l in let rf := fields_of r in
          flat_map (fun lr => flat_map (fun rr =>
              if forallb2' km (evals lk ((lf, lr) :: env)) (evals rk ((rf, rr) :: env)) then [lr ++ rr] else [])
            (den_gen r env)) (den_gen l env)
      | PLookupJoin _ src joined =>
          let sfs := fields_of src in
          flat_map (fun sr => map (fun jr => sr ++ jr) (den_gen joined ((sfs, sr) :: env))) (den_gen src env)
      | PMap _ es src => let fs := fields_of src in map (fun r => evals es ((fs, r) :: env)) (den_gen src env)
      | PUnnest s f src =>
          match index_of f (sf s) with
          | Some i => flat_map (unnest_row i) (den_gen src env)
          | None => []      (* Go: panic "unnest field not found" at Materialize; excluded by wf_plan *)
          end
      | POst _ keys dirs limit src =>
          let fs := fields_of src in let rows := den_gen src env in
          select (ost_sel (map (fun r => evals keys ((fs, r) :: env)) rows) dirs
                          (option_map (fun e => eval e env) limit)) rows
      | PTvf s f args =>
          filter (fun r => Nat.eqb (length r) (length (sf s))) (tvf_sem f (tvf_arg_vals args env) (tvf_arg_descs args) None)
      | PTvfT s f _ args src =>
          filter (fun r => Nat.eqb (length r) (length (sf s)))
                 (tvf_sem f (tvf_arg_vals args env) (tvf_arg_descs args) (Some (schema_of src, den_gen src env)))
      end.
  End Join.

  Definition den_plan : plan -> venv -> list row := den_gen key_match1.
  Definition den_plan_pinned : plan -> venv -> list row := den_gen key_match1_pinned.
End Den.

(* ---- well-formedness: the static invariant Typecheck establishes and the rules rely on ---- *)
Fixpoint expr_vars (e : expr) : list name :=
  match e with
  | EVar n _ => [n]
  | EConst _ => []
  | ECall _ args | EAnd args | EOr args | EOther _ _ args => flat_map expr_vars args
  | EAssert _ e' | ECast _ e' => expr_vars e'
  end.
Definition mem (n : name) (l : list name) : bool := existsb (name_eqb n) l.
(* every variable of e is a field of one of the schemas in scope *)
Definition resolves (scope : list (list name)) (e : expr) : bool :=
  forallb (fun n => existsb (mem n) scope) (expr_vars e).

Fixpoint nodupb (l : list name) : bool :=
  match l with [] => true | x :: t => negb (mem x t) && nodupb t end.

Definition disjointb (a b : list name) : bool := forallb (fun n => negb (mem n b)) a.

(* the shape invariant: the schema stored in a node agrees with its children, as Typecheck builds it *)
Fixpoint shapeb (p : plan) : bool :=
  match p with
  | PDatasource _ _ _ _ policy _ => policy =? 0   (* a datasource that rejects push-down: every one in the tree *)
  | PTvf _ _ _ => true
  | PTvfT _ _ _ _ src => shapeb src
  | PDistinct s src => schema_eqb s (schema_of src) && shapeb src
  | PFilter s _ src => schema_eqb s (schema_of src) && shapeb src
  | PGroupBy s keys aggs aggargs _ _ src =>
      Nat.eqb (length (sf s)) (length keys + length aggs) && Nat.eqb (length aggs) (length aggargs) && shapeb src
  | PStreamJoin s lk rk l r =>
      list_eqb name_eqb (sf s) (fields_of l ++ fields_of r) && Nat.eqb (length lk) (length rk) && shapeb l && shapeb r
  | PLookupJoin s src joined =>
      list_eqb name_eqb (sf s) (fields_of src ++ fields_of joined) && disjointb (fields_of src) (fields_of joined) &&
      shapeb src && shapeb joined
  | PMap s es src => Nat.eqb (length (sf s)) (length es) && shapeb src
  | PUnnest s f src => list_eqb name_eqb (sf s) (fields_of src) && mem f (sf s) && shapeb src
  | POst s _ _ _ src => schema_eqb s (schema_of src) && shapeb src
  end.
Definition shape_ok (p : plan) : Prop := shapeb p = true.

(* every variable resolves; scope = the record schemas visible from outside (innermost first) *)
Fixpoint resolves_planb (scope : list (list name)) (p : plan) : bool :=
  match p with
  | PDatasource s _ _ _ _ preds => forallb (resolves (sf s :: scope)) preds
  | PDistinct _ src => resolves_planb scope src
  | PFilter _ e src => resolves (fields_of src :: scope) e && resolves_planb scope src
  | PGroupBy _ keys _ aggargs _ _ src =>
      forallb (resolves (fields_of src :: scope)) keys && forallb (resolves (fields_of src :: scope)) aggargs &&
      resolves_planb scope src
  | PStreamJoin _ lk rk l r =>
      forallb (resolves (fields_of l :: scope)) lk && forallb (resolves (fields_of r :: scope)) rk &&
      resolves_planb scope l && resolves_planb scope r
  | PLookupJoin _ src joined => resolves_planb scope src && resolves_planb (fields_of src :: scope) joined
  | PMap _ es src => forallb (resolves (fields_of src :: scope)) es && resolves_planb scope src
  | PUnnest _ _ src => resolves_planb scope src
  | POst _ keys _ limit src =>
      forallb (resolves (fields_of src :: scope)) keys &&
      match limit with Some e => resolves scope e | None => true end && resolves_planb scope src
  | PTvf _ _ args => forallb (fun a => match snd a with TAExpr e => resolves scope e | TADesc _ => true end) args
  | PTvfT _ _ _ args src =>
      forallb (fun a => match snd a with TAExpr e => resolves scope e | TADesc _ => true end) args && resolves_planb scope src
  end.
Definition wf_planb (scope : list (list name)) (p : plan) : bool := shapeb p && resolves_planb scope p.
Definition wf_plan (p : plan) : Prop := wf_planb [] p = true.
