(* Model/SourcesJsonInfer.v — C24: JSON schema inference for nested values.
   getOctoSQLType and the Creator loop of datasources/json/impl.go over the first 100 rows, with
   octosql.TypeSum taken from Model/Types.v (C10's model of octosql/types.go: tsum, including the map-based
   struct merge in which a later field of the same name overwrites an earlier one).
   [dedup] = true follows the code after the fix "repeated keys of a nested object: the first occurrence
   counts"; false is /repo main before it (every occurrence becomes a struct field).
   Executable definitions only. *)
From Octo Require Import Types.
From Octo Require Export SourcesJson.

Definition name_eqb (a b : bytes) : bool := SourcesScan.bytes_eqb a b.

(* sort.Slice(fields, by Name) — insertion keeps the visiting order of equal names *)
Fixpoint insert_field (f : bytes * ty) (l : list (bytes * ty)) : list (bytes * ty) :=
  match l with
  | [] => [f]
  | g :: r => if bytes_cmp (fst f) (fst g) =? -1 then f :: l else g :: insert_field f r
  end.
Definition sort_fields (l : list (bytes * ty)) : list (bytes * ty) := fold_left (fun acc f => insert_field f acc) l [].

Fixpoint has_name (k : bytes) (l : list (bytes * ty)) : bool :=
  match l with [] => false | (k', _) :: r => name_eqb k' k || has_name k r end.

(* getOctoSQLType *)
Fixpoint json_type (dedup : bool) (v : jval) {struct v} : outcome ty :=
  match v with
  | JVNull => Ok TNull
  | JVNum _ => Ok TFloat
  | JVBool _ => Ok TBool
  | JVStr _ (Some _) _ => Ok TTime
  | JVStr _ None _ => Ok TStr
  | JVObj fs =>
      (fix visit (fs : list (bytes * jval)) (acc : list (bytes * ty)) : outcome ty :=
         match fs with
         | [] => Ok (TStruct (sort_fields acc))
         | (k, x) :: r =>
             if dedup && has_name k acc then visit r acc
             else match json_type dedup x with
                  | Ok t => visit r (acc ++ [(k, t)])
                  | Err e => Err e
                  | Panic p => Panic p
                  end
         end) fs []
  | JVArr l =>
      (fix elems (l : list jval) (acc : option ty) : outcome ty :=
         match l with
         | [] => Ok (TList acc)
         | x :: r =>
             match json_type dedup x with
             | Ok t => match acc with
                       | None => elems r (Some t)
                       | Some e => match tsum e t with
                                   | Ok s => elems r (Some s)
                                   | Err e => Err e | Panic p => Panic p
                                   end
                       end
             | Err e => Err e
             | Panic p => Panic p
             end
         end) l None
  end.

Definition nfields : Type := list (bytes * ty).

Fixpoint nfields_get (fs : nfields) (k : bytes) : option ty :=
  match fs with [] => None | (k', t) :: r => if name_eqb k' k then Some t else nfields_get r k end.
Fixpoint nfields_set (fs : nfields) (k : bytes) (t : ty) : nfields :=
  match fs with
  | [] => [(k, t)]
  | (k', t') :: r => if name_eqb k' k then (k', t) :: r else (k', t') :: nfields_set r k t
  end.

(* o.Visit over one row (top level: every occurrence of a key is summed in) *)
Fixpoint nvisit_row (dedup first_row : bool) (fs : nfields) (entries : list (bytes * jval)) : outcome nfields :=
  match entries with
  | [] => Ok fs
  | (k, v) :: r =>
    match json_type dedup v with
    | Ok t =>
      let nt := match nfields_get fs k with
                | Some old => tsum old t
                | None => if first_row then Ok t else tsum t TNull
                end in
      match nt with
      | Ok t' => nvisit_row dedup first_row (nfields_set fs k t') r
      | Err e => Err e
      | Panic p => Panic p
      end
    | Err e => Err e
    | Panic p => Panic p
    end
  end.

(* keys missing from this row are nullable *)
Fixpoint nclose_row (fs : nfields) (obj : list (bytes * jval)) : outcome nfields :=
  match fs with
  | [] => Ok []
  | (k, t) :: r =>
    match nclose_row r obj with
    | Ok r' => match obj_get obj k with
               | Some _ => Ok ((k, t) :: r')
               | None => match tsum t TNull with Ok t' => Ok ((k, t') :: r') | Err e => Err e | Panic p => Panic p end
               end
    | Err e => Err e
    | Panic p => Panic p
    end
  end.

Fixpoint ninfer_rows (dedup first_row : bool) (fs : nfields) (rows : list (list (bytes * jval))) : outcome nfields :=
  match rows with
  | [] => Ok fs
  | obj :: rest =>
    match nvisit_row dedup first_row fs obj with
    | Ok fs' => match nclose_row fs' obj with
                | Ok fs'' => ninfer_rows dedup false fs'' rest
                | Err e => Err e | Panic p => Panic p
                end
    | Err e => Err e
    | Panic p => Panic p
    end
  end.

Definition infer_json_nested (dedup : bool) (rows : list (list (bytes * jval))) : outcome nfields :=
  match ninfer_rows dedup true [] (firstn 100 rows) with
  | Ok fs => Ok (sort_fields fs)
  | Err e => Err e
  | Panic p => Panic p
  end.

(* octosql.Type as the execution model sees it *)
Fixpoint jty_of_ty (t : ty) : jty :=
  match t with
  | TNull => JNull | TInt => JInt | TFloat => JFloat | TBool => JBool | TStr => JStr | TTime => JTime | TDur => JDur
  | TList None => JList None
  | TList (Some e) => JList (Some (jty_of_ty e))
  | TStruct fs => JStruct ((fix go (fs : list (list Z * ty)) : list (bytes * jty) :=
                              match fs with [] => [] | (n, ft) :: r => (n, jty_of_ty ft) :: go r end) fs)
  | TTuple es => JTuple ((fix go (es : list ty) : list jty := match es with [] => [] | e :: r => jty_of_ty e :: go r end) es)
  | TUnion alts => JUnion ((fix go (es : list ty) : list jty := match es with [] => [] | e :: r => jty_of_ty e :: go r end) alts)
  | TAny => JAny
  end.

Definition nschema (fs : nfields) : list (bytes * jty) := map (fun kt => (fst kt, jty_of_ty (snd kt))) fs.

(* "the rows the schema was inferred from are not errors", executable *)
Definition preview_rows_accepted (fields : list (bytes * jty)) (rows : list (list (bytes * jval))) : bool :=
  forallb (fun r => is_ok (exec_json_row true fields r)) (firstn 100 rows).

Fixpoint jty_eqb (a b : jty) {struct a} : bool :=
  match a, b with
  | JNull, JNull | JInt, JInt | JFloat, JFloat | JBool, JBool | JStr, JStr | JTime, JTime | JDur, JDur | JAny, JAny => true
  | JList None, JList None => true
  | JList (Some x), JList (Some y) => jty_eqb x y
  | JStruct fa, JStruct fb =>
      (fix go (fa fb : list (bytes * jty)) : bool :=
         match fa, fb with
         | [], [] => true
         | (n, x) :: ra, (m, y) :: rb => name_eqb n m && jty_eqb x y && go ra rb
         | _, _ => false
         end) fa fb
  | JTuple la, JTuple lb | JUnion la, JUnion lb =>
      (fix go (la lb : list jty) : bool :=
         match la, lb with
         | [], [] => true
         | x :: ra, y :: rb => jty_eqb x y && go ra rb
         | _, _ => false
         end) la lb
  | _, _ => false
  end.

(* differential case: rows (parsed objects), observed schema.  tie: the inference model gives that schema;
   spec: every previewed row is accepted by the execution model under the observed schema *)
Definition jnested_case : Type := list (list (bytes * jval)) * list (bytes * jty).
Definition jnested_tie (c : jnested_case) : bool :=
  let '(rows, ofs) := c in
  match infer_json_nested true rows with
  | Ok fs => list_eqb (fun a b => name_eqb (fst a) (fst b) && jty_eqb (snd a) (snd b)) (nschema fs) ofs
  | _ => false
  end.
Definition jnested_spec (c : jnested_case) : bool :=
  let '(rows, ofs) := c in preview_rows_accepted ofs rows.
