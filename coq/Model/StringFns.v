(* Model/StringFns.v — functions/functions.go: "like", "~", "~*", upper, lower, reverse, substr (2 and 3
   arguments), replace, position, len.  Executable definitions only: the model of the code (fixed tree) and of
   the pinned code (`*_pinned`), the specification (`*_spec`), the differential case type with tie and oracle.
   Strings are byte lists; a rune list is what Go's `for _, r := range s` yields (Strings.decode). *)
From Octo Require Export Strings.
From Octo Require Import GenLike.

(* ---------- error / panic codes (the engine maps Go error texts to these) ---------- *)
Definition e_like_escape : Z := 1.    (* "escaping invalid character in LIKE pattern" *)
Definition e_like_trailing : Z := 2.  (* "pattern ends with an escape character that doesn't escape anything" *)
Definition e_re_compile : Z := 3.     (* regexp.Compile returned an error *)
Definition e_substr_start : Z := 4.   (* substr: negative start index *)
Definition e_substr_length : Z := 5.  (* substr: negative length *)
Definition e_outside : Z := 90.       (* the model left its fragment (never an observation) *)
Definition p_slice_bounds : Z := 1.   (* runtime error: slice bounds out of range *)
Definition p_index : Z := 2.          (* runtime error: index out of range *)

(* =====================================================================================================
   LIKE
   ===================================================================================================== *)

(* ---- specification: what LIKE means, with no regular expression in sight ---- *)
Inductive ltok := LAny | LAll | LLit (c : Z).

(* pattern syntax: `_`, `%`, backslash escapes of `_` `%` `\`; any other escape and a trailing backslash are
   errors (the first one met, left to right); every other character is itself. *)
Fixpoint like_parse (escaping : bool) (p : list Z) : outcome (list ltok) :=
  match p with
  | [] => if escaping then Err e_like_trailing else Ok []
  | r :: t =>
      if escaping then
        if (r =? 95) || (r =? 37) || (r =? 92)
        then obind (like_parse false t) (fun l => Ok (LLit r :: l))
        else Err e_like_escape
      else if r =? 92 then like_parse true t
      else if r =? 95 then obind (like_parse false t) (fun l => Ok (LAny :: l))
      else if r =? 37 then obind (like_parse false t) (fun l => Ok (LAll :: l))
      else obind (like_parse false t) (fun l => Ok (LLit r :: l))
  end.

(* `_` exactly one character, `%` any run of characters (any: newlines included), a literal itself *)
Fixpoint like_match (l : list ltok) (s : list Z) {struct l} : bool :=
  match l with
  | [] => match s with [] => true | _ => false end
  | LAny :: l' => match s with _ :: s' => like_match l' s' | [] => false end
  | LLit c :: l' => match s with x :: s' => (x =? c) && like_match l' s' | [] => false end
  | LAll :: l' =>
      (fix skip (s : list Z) : bool :=
         like_match l' s || match s with _ :: s' => skip s' | [] => false end) s
  end.

(* characters of a string = the runes Go's range loop sees (an invalid byte is one character U+FFFD) *)
Definition like_spec (s p : list Z) : outcome bool :=
  obind (like_parse false (decode p)) (fun l => Ok (like_match l (decode s))).

(* ---- the code: likePatternToRegexp, then regexp.Compile, then MatchString ---- *)
Section LikeToRe.
  Variable needs_escaping : Z -> bool.
  (* the loop over the pattern's runes; the result is what was written to the strings.Builder after the
     opening, including the closing `$`.  (The builder is an accumulator in Go; here the suffix is returned.) *)
  Fixpoint like_loop (escaping : bool) (p : list Z) : outcome (list Z) :=
    match p with
    | [] => if escaping then Err e_like_trailing else Ok [36]
    | r :: t =>
        if escaping then
          if negb (r =? 95) && negb (r =? 37) && negb (r =? 92) then Err e_like_escape
          else obind (like_loop false t) (fun rest => Ok ((if r =? 92 then [r; 92] else [r]) ++ rest))
        else if r =? 92 then like_loop true t
        else if r =? 95 then obind (like_loop false t) (fun rest => Ok (46 :: rest))
        else if r =? 37 then obind (like_loop false t) (fun rest => Ok (46 :: 42 :: rest))
        else if needs_escaping r then obind (like_loop false t) (fun rest => Ok (92 :: r :: rest))
        else obind (like_loop false t) (fun rest => Ok (r :: rest))
    end.
End LikeToRe.

(* ---- Go's regexp, for the fragment a LIKE translation can emit (and a little more for the pinned code) ----
   source runes -> tokens -> alternatives of item sequences -> search.
   Fragment: optional leading flag group (?s) (?i) (?is) (?si); `^` `$` (no m flag: begin / end of text);
   `.`; backslash + ASCII non-alphanumeric = that character; `\s` `\S`; any rune that is not one of
   \.+*?()|[]{}^$ = itself; postfix `*` on a one-character atom; top-level `|`.
   Everything else is FOutside ("not modelled"), except what Go rejects: FCompileErr. *)
Inductive frag (A : Type) := FOk (a : A) | FCompileErr | FOutside.
Arguments FOk {A} a.
Arguments FCompileErr {A}.
Arguments FOutside {A}.
Definition fmap {A B} (f : A -> B) (x : frag A) : frag B :=
  match x with FOk a => FOk (f a) | FCompileErr => FCompileErr | FOutside => FOutside end.

Definition go_regexp_meta : list Z := [92; 46; 43; 42; 63; 40; 41; 124; 91; 93; 123; 125; 94; 36].
Definition is_meta (c : Z) : bool := existsb (Z.eqb c) go_regexp_meta.
(* regexp/syntax parseEscape: "escaped non-word characters are always themselves" *)
Definition escapable (c : Z) : bool := is_ascii c && negb (is_alnum c) .

Inductive rtok := KLit (c : Z) | KDot | KSpace (neg : bool) | KBol | KEol | KStar | KBar.

Fixpoint re_tokenise (src : list Z) : frag (list rtok) :=
  match src with
  | [] => FOk []
  | c :: t =>
      if c =? 92 then
        match t with
        | [] => FCompileErr                                  (* trailing backslash *)
        | d :: t' =>
            if escapable d then fmap (cons (KLit d)) (re_tokenise t')
            else if d =? 115 then fmap (cons (KSpace false)) (re_tokenise t')
            else if d =? 83 then fmap (cons (KSpace true)) (re_tokenise t')
            else FOutside
        end
      else if c =? 46 then fmap (cons KDot) (re_tokenise t)
      else if c =? 94 then fmap (cons KBol) (re_tokenise t)
      else if c =? 36 then fmap (cons KEol) (re_tokenise t)
      else if c =? 42 then fmap (cons KStar) (re_tokenise t)
      else if c =? 124 then fmap (cons KBar) (re_tokenise t)
      else if is_meta c then FOutside
      else fmap (cons (KLit c)) (re_tokenise t)
  end.

Inductive catom := CLit (c : Z) | CDot | CSpace (neg : bool).
Inductive item := IChar (a : catom) | IStar (a : catom) | IBol | IEol.

Definition push_item (i : item) (bs : list (list item)) : list (list item) :=
  match bs with b :: r => (i :: b) :: r | [] => [[i]] end.

Definition catom_of (t : rtok) : option catom :=
  match t with KLit c => Some (CLit c) | KDot => Some CDot | KSpace n => Some (CSpace n) | _ => None end.

(* alternatives (split at `|`) of item sequences; `*` binds to the atom before it.  A `*` with nothing to
   repeat (`**`, `|*`, leading) is Go's "missing argument to repetition operator" / "invalid nested
   repetition operator"; `^*` and `$*` are accepted by Go but not modelled. *)
Fixpoint re_items (ts : list rtok) : frag (list (list item)) :=
  match ts with
  | [] => FOk [[]]
  | KBar :: r => fmap (cons []) (re_items r)
  | KStar :: _ => FCompileErr
  | KBol :: r => match r with KStar :: _ => FOutside | _ => fmap (push_item IBol) (re_items r) end
  | KEol :: r => match r with KStar :: _ => FOutside | _ => fmap (push_item IEol) (re_items r) end
  | KLit c :: r =>
      match r with KStar :: r' => fmap (push_item (IStar (CLit c))) (re_items r')
                 | _ => fmap (push_item (IChar (CLit c))) (re_items r) end
  | KDot :: r =>
      match r with KStar :: r' => fmap (push_item (IStar CDot)) (re_items r')
                 | _ => fmap (push_item (IChar CDot)) (re_items r) end
  | KSpace n :: r =>
      match r with KStar :: r' => fmap (push_item (IStar (CSpace n))) (re_items r')
                 | _ => fmap (push_item (IChar (CSpace n))) (re_items r) end
  end.

Record re_flags := mk_flags { dot_nl : bool; fold_case : bool }.

(* leading flag group *)
Definition re_split_flags (src : list Z) : re_flags * list Z :=
  match src with
  | 40 :: 63 :: 115 :: 41 :: r => (mk_flags true false, r)
  | 40 :: 63 :: 105 :: 41 :: r => (mk_flags false true, r)
  | 40 :: 63 :: 105 :: 115 :: 41 :: r => (mk_flags true true, r)
  | 40 :: 63 :: 115 :: 105 :: 41 :: r => (mk_flags true true, r)
  | _ => (mk_flags false false, src)
  end.

Record regex := mk_regex { re_fl : re_flags; re_alts : list (list item) }.

Definition re_compile (src : list Z) : frag regex :=
  let '(fl, body) := re_split_flags src in
  match re_tokenise body with
  | FOk ts => fmap (mk_regex fl) (re_items ts)
  | FCompileErr => FCompileErr
  | FOutside => FOutside
  end.

Definition is_space (x : Z) : bool := (x =? 9) || (x =? 10) || (x =? 12) || (x =? 13) || (x =? 32).
Definition catom_ok (fl : re_flags) (a : catom) (x : Z) : bool :=
  match a with
  | CLit c => if fold_case fl then ascii_lower x =? ascii_lower c else x =? c
  | CDot => dot_nl fl || negb (x =? 10)
  | CSpace neg => xorb neg (is_space x)
  end.

(* does the item sequence match a prefix of s?  [at_start]: s is the whole text *)
Fixpoint seq_match (fl : re_flags) (items : list item) (at_start : bool) (s : list Z) {struct items} : bool :=
  match items with
  | [] => true
  | IBol :: r => at_start && seq_match fl r at_start s
  | IEol :: r => match s with [] => seq_match fl r at_start s | _ => false end
  | IChar a :: r => match s with x :: s' => catom_ok fl a x && seq_match fl r false s' | [] => false end
  | IStar a :: r =>
      (fix star (at_start : bool) (s : list Z) : bool :=
         seq_match fl r at_start s ||
         match s with x :: s' => catom_ok fl a x && star false s' | [] => false end) at_start s
  end.

(* MatchString: some alternative matches at some position *)
Fixpoint re_search_from (re : regex) (at_start : bool) (s : list Z) : bool :=
  existsb (fun items => seq_match (re_fl re) items at_start s) (re_alts re) ||
  match s with _ :: s' => re_search_from re false s' | [] => false end.
Definition re_search (re : regex) (s : list Z) : bool := re_search_from re true s.

(* Unicode case folding under (?i) is modelled for ASCII only *)
Definition fold_modelled (re : regex) (s : list Z) : bool :=
  negb (fold_case (re_fl re)) ||
  (forallb is_ascii s &&
   forallb (forallb (fun i => match i with IChar (CLit c) | IStar (CLit c) => is_ascii c | _ => true end)) (re_alts re)).

(* regexp.Compile(src) then MatchString(subject), source and subject as rune lists *)
Definition frag_match (src subject : list Z) : frag bool :=
  match re_compile src with
  | FOk re => if fold_modelled re subject then FOk (re_search re subject) else FOutside
  | FCompileErr => FCompileErr
  | FOutside => FOutside
  end.
Definition frag_outcome (r : frag bool) : outcome bool :=
  match r with FOk b => Ok b | FCompileErr => Err e_re_compile | FOutside => Err e_outside end.

Definition like_impl_gen (needs_escaping : Z -> bool) (opening : list Z) (s p : list Z) : outcome bool :=
  obind (like_loop needs_escaping false (decode p))
        (fun body => frag_outcome (frag_match (opening ++ body) (decode s))).

(* the tree under check: needsEscaping as read from the source (Gen/GenLike.v), opening "(?s)^" *)
Definition needs_escaping (r : Z) : bool := existsb (Z.eqb r) needs_escaping_set.
Definition like_opening : list Z := [40; 63; 115; 41; 94].
Definition like_impl : list Z -> list Z -> outcome bool := like_impl_gen needs_escaping like_opening.

(* the pinned tree: no `*`, no `|` in needsEscaping; opening "^" *)
Definition needs_escaping_set_pinned : list Z := [43; 63; 40; 41; 123; 125; 91; 93; 94; 36; 46].
Definition needs_escaping_pinned (r : Z) : bool := existsb (Z.eqb r) needs_escaping_set_pinned.
Definition like_impl_pinned : list Z -> list Z -> outcome bool := like_impl_gen needs_escaping_pinned [94].

(* =====================================================================================================
   ~ and ~*  : the specification is Go's regexp engine, a parameter here
   ===================================================================================================== *)
Definition flag_i : list Z := [40; 63; 105; 41].
Definition tilde_impl (go_match : list Z -> list Z -> outcome bool) (s p : list Z) : outcome bool := go_match p s.
Definition tilde_ci_impl (go_match : list Z -> list Z -> outcome bool) (s p : list Z) : outcome bool :=
  go_match (flag_i ++ p) s.
(* pinned: pattern := strings.ToLower(pattern); MatchString(strings.ToLower(s)).  ASCII strings here. *)
Definition tilde_ci_pinned (go_match : list Z -> list Z -> outcome bool) (s p : list Z) : outcome bool :=
  go_match (map ascii_lower p) (map ascii_lower s).
(* the fragment engine above as an instance of Go's matcher, on byte strings *)
Definition frag_go_match (p s : list Z) : outcome bool :=
  if valid_utf8b p then frag_outcome (frag_match (decode p) (decode s))
  else Err e_re_compile.                                   (* regexp/syntax: "invalid UTF-8" *)

(* =====================================================================================================
   reverse
   ===================================================================================================== *)
Fixpoint set_nth (i : nat) (x : Z) (l : list Z) : option (list Z) :=
  match l, i with
  | [], _ => None
  | _ :: t, O => Some (x :: t)
  | h :: t, S i' => match set_nth i' x t with Some t' => Some (h :: t') | None => None end
  end.

(* `for i, ch := range xs { out[len(out)-i-1] = ch }` over (index, rune) pairs; an index outside out panics *)
Fixpoint fill_reversed (n : nat) (xs : list (nat * Z)) (out : list Z) : outcome (list Z) :=
  match xs with
  | [] => Ok out
  | (i, ch) :: t =>
      if (n <=? i)%nat then Panic p_index            (* len(out)-i-1 < 0 *)
      else match set_nth (n - i - 1)%nat ch out with
           | Some out' => fill_reversed n t out'
           | None => Panic p_index
           end
  end.

Fixpoint enumerate_from (i : nat) (l : list Z) : list (nat * Z) :=
  match l with [] => [] | x :: t => (i, x) :: enumerate_from (S i) t end.

(* fixed: runes := []rune(s); out := make([]rune, len(runes)); for i, ch := range runes {...}; string(out) *)
Definition reverse_impl (s : list Z) : outcome (list Z) :=
  let runes := decode s in
  let n := length runes in
  obind (fill_reversed n (enumerate_from 0 runes) (repeat 0 n)) (fun out => Ok (encode out)).

(* pinned: out := make([]rune, len(s)) — byte length — and i is the byte offset of the rune *)
Definition reverse_pinned (s : list Z) : outcome (list Z) :=
  let n := length s in
  obind (fill_reversed n (map (fun x => (fst (fst x), snd (fst x))) (range_str s)) (repeat 0 n))
        (fun out => Ok (encode out)).

Definition reverse_spec (s : list Z) : outcome (list Z) := Ok (encode (rev (decode s))).

(* =====================================================================================================
   substr, position, replace, len, upper, lower
   ===================================================================================================== *)
Definition blen (s : list Z) : Z := Z.of_nat (length s).

(* s[lo:hi] with Go's bounds check *)
Definition go_slice (s : list Z) (lo hi : Z) : outcome (list Z) :=
  if (0 <=? lo) && (lo <=? hi) && (hi <=? blen s)
  then Ok (firstn (Z.to_nat (hi - lo)) (skipn (Z.to_nat lo) s))
  else Panic p_slice_bounds.

Definition substr2_pinned (s : list Z) (i : Z) : outcome (list Z) :=
  if blen s <=? i then Ok [] else go_slice s i (blen s).
Definition substr3_pinned (s : list Z) (i n : Z) : outcome (list Z) :=
  if blen s <=? i then Ok []
  else let e := wrap64 (i + n) in
       let e := if e >? blen s then blen s else e in
       go_slice s i e.

(* fixed: negative start / length are errors; the end is computed without overflow *)
Definition substr2_impl (s : list Z) (i : Z) : outcome (list Z) :=
  if i <? 0 then Err e_substr_start
  else if blen s <=? i then Ok [] else go_slice s i (blen s).
Definition substr3_impl (s : list Z) (i n : Z) : outcome (list Z) :=
  if i <? 0 then Err e_substr_start
  else if n <? 0 then Err e_substr_length
  else if blen s <=? i then Ok []
  else let e := if n <? wrap64 (blen s - i) then wrap64 (i + n) else blen s in
       go_slice s i e.

(* firstn / skipn with a Z count, structural on the list (Z.to_nat of an int64 must never be computed);
   StringFnsProofs.ztake_firstn / zdrop_skipn relate them to firstn / skipn *)
Fixpoint ztake (n : Z) (l : list Z) : list Z :=
  match l with [] => [] | x :: t => if n <=? 0 then [] else x :: ztake (n - 1) t end.
Fixpoint zdrop (n : Z) (l : list Z) : list Z :=
  match l with [] => [] | x :: t => if n <=? 0 then l else zdrop (n - 1) t end.
Definition substr_spec (s : list Z) (i n : Z) : list Z := ztake n (zdrop i s).

Definition position_impl (s t : list Z) : outcome (option Z) :=
  Ok (match index_of t s with Some i => Some (Z.of_nat i) | None => None end).

(* executable specification of "replace every occurrence, leftmost first, not overlapping": scan; at each
   position either an occurrence starts (emit new, step over it) or the byte is copied.  [skip] = bytes of
   the occurrence still to step over. *)
Fixpoint replace_scan (old new : list Z) (skip : nat) (s : list Z) : list Z :=
  match s with
  | [] => []
  | b :: t =>
      match skip with
      | S k => replace_scan old new k t
      | O => if is_prefix old s then new ++ replace_scan old new (pred (length old)) t
             else b :: replace_scan old new 0 t
      end
  end.
Definition replace_spec (s old new : list Z) : list Z := replace_scan old new 0 s.

Definition replace_impl (s old new : list Z) : outcome (list Z) :=
  match replace_all s old new with Some r => Ok r | None => Err e_outside end.

Definition len_impl (s : list Z) : outcome Z := Ok (blen s).

(* strings.ToUpper / ToLower: modelled on ASCII strings only (None otherwise; the engine compares the rest
   with unicode.ToUpper / ToLower rune by rune) *)
Definition upper_impl (s : list Z) : option (list Z) :=
  if forallb is_ascii s then Some (map ascii_upper s) else None.
Definition lower_impl (s : list Z) : option (list Z) :=
  if forallb is_ascii s then Some (map ascii_lower s) else None.

(* =====================================================================================================
   differential cases: input + the implementation's observation
   ===================================================================================================== *)
Inductive c12_case :=
| CLike (s p : list Z) (obs : outcome bool)
| CTilde (ci : bool) (s p : list Z) (obs : outcome bool)     (* patterns inside the fragment tie the matcher to Go's regexp *)
| CReverse (s : list Z) (obs : outcome (list Z))
| CSubstr2 (s : list Z) (i : Z) (obs : outcome (list Z))
| CSubstr3 (s : list Z) (i n : Z) (obs : outcome (list Z))
| CReplace (s old new : list Z) (obs : outcome (list Z))
| CPosition (s t : list Z) (obs : outcome (option Z))
| CLen (s : list Z) (obs : outcome Z)
| CUpper (s : list Z) (obs : outcome (list Z))
| CLower (s : list Z) (obs : outcome (list Z))
| CUtf8 (s : list Z) (runes : list Z) (valid : bool) (reenc : list Z).  (* []rune(s), utf8.ValidString(s), string([]rune(s)) *)

Definition outcome_eqb {A} (eqb : A -> A -> bool) (a b : outcome A) : bool :=
  match a, b with
  | Ok x, Ok y => eqb x y
  | Err x, Err y => x =? y
  | Panic x, Panic y => x =? y
  | _, _ => false
  end.
Definition obytes_eqb := outcome_eqb bytes_eqb.
Definition obool_eqb := outcome_eqb Bool.eqb.
Definition optz_eqb (a b : option Z) : bool :=
  match a, b with Some x, Some y => x =? y | None, None => true | _, _ => false end.

(* tie: the model's output equals the observation *)
Definition c12_tie (c : c12_case) : bool :=
  match c with
  | CLike s p obs => obool_eqb (like_impl s p) obs
  | CTilde ci s p obs =>
      let r := (if ci then tilde_ci_impl else tilde_impl) frag_go_match s p in
      (* outside the modelled fragment: the engine's Go-side oracle covers it *)
      obool_eqb r (Err e_outside) || obool_eqb r obs
  | CReverse s obs => obytes_eqb (reverse_impl s) obs
  | CSubstr2 s i obs => obytes_eqb (substr2_impl s i) obs
  | CSubstr3 s i n obs => obytes_eqb (substr3_impl s i n) obs
  | CReplace s o n obs => obytes_eqb (replace_impl s o n) obs
  | CPosition s t obs => outcome_eqb optz_eqb (position_impl s t) obs
  | CLen s obs => outcome_eqb Z.eqb (len_impl s) obs
  | CUpper s obs => match upper_impl s with Some r => obytes_eqb (Ok r) obs | None => true end
  | CLower s obs => match lower_impl s with Some r => obytes_eqb (Ok r) obs | None => true end
  | CUtf8 s runes valid reenc =>
      bytes_eqb (decode s) runes && Bool.eqb (valid_utf8b s) valid && bytes_eqb (encode (decode s)) reenc
  end.

(* spec: the property's oracle applied to the observation (independent of the model of the code) *)
Definition c12_spec (c : c12_case) : bool :=
  match c with
  | CLike s p obs => obool_eqb (like_spec s p) obs
  | CTilde _ _ _ obs => negb (is_panic obs)
  | CReverse s obs => obytes_eqb (reverse_spec s) obs
  | CSubstr2 s i obs =>
      negb (is_panic obs) && (negb (0 <=? i) || obytes_eqb (Ok (zdrop i s)) obs)
  | CSubstr3 s i n obs =>
      negb (is_panic obs) && (negb ((0 <=? i) && (0 <=? n)) || obytes_eqb (Ok (substr_spec s i n)) obs)
  | CReplace s o n obs =>
      match o with [] => negb (is_panic obs) | _ => obytes_eqb (Ok (replace_spec s o n)) obs end
  | CPosition s t obs =>
      outcome_eqb optz_eqb (Ok (match index_of t s with Some i => Some (Z.of_nat i) | None => None end)) obs
  | CLen s obs => outcome_eqb Z.eqb (Ok (blen s)) obs
  | CUpper s obs => negb (forallb is_ascii s) || obytes_eqb (Ok (map ascii_upper s)) obs
  | CLower s obs => negb (forallb is_ascii s) || obytes_eqb (Ok (map ascii_lower s)) obs
  | CUtf8 _ _ _ _ => true
  end.

(* tie of the `*_pinned` definitions against the pinned tree (used once, to validate the refutation models;
   ./check runs c12_tie) *)
Definition c12_tie_pinned (c : c12_case) : bool :=
  match c with
  | CLike s p obs => obool_eqb (like_impl_pinned s p) (Err e_outside) || obool_eqb (like_impl_pinned s p) obs
  | CTilde true s p obs =>
      let r := tilde_ci_pinned frag_go_match s p in
      negb (forallb is_ascii s && forallb is_ascii p) || obool_eqb r (Err e_outside) || obool_eqb r obs
  | CReverse s obs => obytes_eqb (reverse_pinned s) obs
  | CSubstr2 s i obs => obytes_eqb (substr2_pinned s i) obs
  | CSubstr3 s i n obs => obytes_eqb (substr3_pinned s i n) obs
  | _ => c12_tie c
  end.

(* declarative reading of like_match (StringFnsProofs.like_match_iff): `%` stands for an arbitrary run *)
Inductive LikeMatches : list ltok -> list Z -> Prop :=
| LM_nil : LikeMatches [] []
| LM_any : forall l x s, LikeMatches l s -> LikeMatches (LAny :: l) (x :: s)
| LM_lit : forall l c s, LikeMatches l s -> LikeMatches (LLit c :: l) (c :: s)
| LM_all : forall l run s, LikeMatches l s -> LikeMatches (LAll :: l) (run ++ s).
