(* Model/Values.v — octosql/values.go: Value, Compare, Equal, the hash feed; execution/group_key.go.
   Executable definitions only.  Follows the code of /repo construct by construct. *)
From Octo Require Export Base.

(* float64 is its 64-bit pattern (0 <= bits < 2^64; every definition below reads bits mod 2^64, which is
   the identity on the patterns Go can hold, so no well-formedness side condition is needed). *)
Definition f_mag (bits : Z) : Z := bits mod two63.
Definition f_neg (bits : Z) : bool := two63 <=? bits mod two64.
Definition f_inf_mag : Z := 9218868437227405312.        (* 0x7FF0000000000000 *)
Definition f_is_nan (bits : Z) : bool := f_inf_mag <? f_mag bits.
Definition f_key (bits : Z) : Z := if f_neg bits then - f_mag bits else f_mag bits.   (* -0 and +0 -> 0 *)
Definition f_canon_nan : Z := 9221120237041090561.      (* math.Float64bits(math.NaN()) = 0x7FF8000000000001 *)

(* Go's  a < b  on float64 (false when either is NaN) *)
Definition f_lt (a b : Z) : bool := negb (f_is_nan a) && negb (f_is_nan b) && (f_key a <? f_key b).

Inductive value : Type :=
| VNull
| VInt (z : Z)
| VFloat (bits : Z)
| VBool (b : bool)
| VStr (s : list Z)              (* bytes *)
| VTime (ns : Z) (loc : Z)       (* instant, opaque location identity *)
| VDur (z : Z)
| VList (l : list value)
| VStruct (l : list value)
| VTuple (l : list value).

(* TypeID order of octosql/types.go (regenerated and re-checked in Gen/GenTypeIDs.v) *)
Definition tid (v : value) : Z :=
  match v with
  | VNull => 0 | VInt _ => 1 | VFloat _ => 2 | VBool _ => 3 | VStr _ => 4
  | VTime _ _ => 5 | VDur _ => 6 | VList _ => 7 | VStruct _ => 8 | VTuple _ => 9
  end.

Definition zcmp (a b : Z) : Z := if a <? b then -1 else if b <? a then 1 else 0.

(* Value.Compare, Float case (after the C09 fix: NaN is below every other float and equal to itself) *)
Definition fcompare (a b : Z) : Z :=
  if f_is_nan a then (if f_is_nan b then 0 else -1)
  else if f_is_nan b then 1
  else zcmp (f_key a) (f_key b).

(* the pinned code:  if a < b {-1} else if a > b {1} else {0}  *)
Definition fcompare_pinned (a b : Z) : Z :=
  if f_lt a b then -1 else if f_lt b a then 1 else 0.

Definition bcompare (a b : bool) : Z :=
  if Bool.eqb a b then 0 else if negb a then -1 else 1.

(* the three identical "maxLen" loops of Compare *)
Definition lex_cmp {A} (cmp : A -> A -> Z) : list A -> list A -> Z :=
  fix go (la lb : list A) : Z :=
    match la, lb with
    | [], [] => 0
    | [], _ :: _ => -1
    | _ :: _, [] => 1
    | x :: xs, y :: ys => let c := cmp x y in if c =? 0 then go xs ys else c
    end.

(* Go string comparison is bytewise *)
Definition bytes_cmp : list Z -> list Z -> Z := lex_cmp zcmp.

Section Compare.
  Variable fcmp : Z -> Z -> Z.
  Fixpoint vcompare_gen (a b : value) {struct a} : Z :=
    if negb (tid a =? tid b) then (if tid a <? tid b then -1 else 1)
    else match a, b with
         | VNull, VNull => 0
         | VInt x, VInt y => zcmp x y
         | VFloat x, VFloat y => fcmp x y
         | VBool x, VBool y => bcompare x y
         | VStr x, VStr y => bytes_cmp x y
         | VTime x _, VTime y _ => zcmp x y
         | VDur x, VDur y => zcmp x y
         | VList la, VList lb => lex_cmp vcompare_gen la lb
         | VStruct la, VStruct lb => lex_cmp vcompare_gen la lb
         | VTuple la, VTuple lb => lex_cmp vcompare_gen la lb
         | _, _ => 0
         end.
End Compare.

Definition vcompare : value -> value -> Z := vcompare_gen fcompare.
Definition vcompare_pinned : value -> value -> Z := vcompare_gen fcompare_pinned.

(* Value.Equal: NULL is never equal to NULL *)
Definition vequal (a b : value) : bool :=
  match a, b with
  | VNull, VNull => false
  | _, _ => vcompare a b =? 0
  end.

(* Hash feed: the sequence of items handed to fnv1a (AddUint64 words / AddString64 byte strings). *)
Inductive feed_item := FW (w : Z) | FS (s : list Z).
Definition feed_item_eqb (a b : feed_item) : bool :=
  match a, b with
  | FW x, FW y => x =? y
  | FS x, FS y => list_eqb Z.eqb x y
  | _, _ => false
  end.

Definition f_hash_bits (bits : Z) : Z :=
  if f_is_nan bits then f_canon_nan else if f_mag bits =? 0 then 0 else bits mod two64.

Definition u64 (z : Z) : Z := z mod two64.

Section Enc.
  Variable fbits : Z -> Z.
  Fixpoint enc_gen (v : value) : list feed_item :=
    match v with
    | VNull => [FW 0]
    | VInt z => [FW (u64 z)]
    | VFloat b => [FW (fbits b)]
    | VBool b => [FW (if b then 1 else 0)]
    | VStr s => [FS s]
    | VTime ns _ => [FW (u64 ns)]
    | VDur z => [FW (u64 z)]
    | VList l => flat_map enc_gen l
    | VStruct _ => []        (* the code ranges over value.List, which is empty for a struct *)
    | VTuple _ => []         (* likewise *)
    end.
End Enc.
Definition enc : value -> list feed_item := enc_gen f_hash_bits.
Definition enc_pinned : value -> list feed_item := enc_gen (fun b => b).
Definition enc_many (vs : list value) : list feed_item := flat_map enc vs.

Definition feed_eqb (a b : list feed_item) : bool := list_eqb feed_item_eqb a b.

(* fnv1a 64 as in segmentio/fasthash *)
Definition fnv_offset : Z := 14695981039346656037.
Definition fnv_prime : Z := 1099511628211.
Definition fnv_byte (h b : Z) : Z := ((Z.lxor h b) * fnv_prime) mod two64.
(* AddUint64 mixes the eight bytes most significant first *)
Definition u64_bytes_be (w : Z) : list Z :=
  map (fun k => (w / 2 ^ k) mod 256) [56; 48; 40; 32; 24; 16; 8; 0].
Definition fnv_item (h : Z) (it : feed_item) : Z :=
  match it with
  | FW w => fold_left fnv_byte (u64_bytes_be w) h
  | FS s => fold_left fnv_byte s h
  end.
Definition fnv_feed (l : list feed_item) : Z := fold_left fnv_item l fnv_offset.
Definition vhash (v : value) : Z := fnv_feed (enc v).
Definition vhash_many (vs : list value) : Z := fnv_feed (enc_many vs).

(* execution.CompareValueSlices: "key < than" *)
Fixpoint slices_less (a b : list value) : bool :=
  match a, b with
  | [], [] => false
  | [], _ :: _ => true
  | _ :: _, [] => false
  | x :: xs, y :: ys => let c := vcompare x y in if c =? 0 then slices_less xs ys else c =? -1
  end.

(* the equality closures handed to the hashmaps: for i := range a { a[i].Compare(b[i]) != 0 -> false } *)
Fixpoint slices_eq (a b : list value) : bool :=
  match a, b with
  | [], _ => true
  | x :: xs, y :: ys => (vcompare x y =? 0) && slices_eq xs ys
  | _ :: _, [] => false    (* the Go code would index out of range; callers pass equal lengths *)
  end.

(* row equivalence used by every consolidated-bag statement: same length, pairwise Compare = 0 *)
Definition row_eqb (a b : list value) : bool := (lex_cmp vcompare a b =? 0).

(* structural, used by the differential harness to compare observed and modelled values.
   Floats by bit pattern; locations ignored (the harness does not project them). *)
Fixpoint value_eqb (a b : value) {struct a} : bool :=
  match a, b with
  | VNull, VNull => true
  | VInt x, VInt y => x =? y
  | VFloat x, VFloat y => x =? y
  | VBool x, VBool y => Bool.eqb x y
  | VStr x, VStr y => list_eqb Z.eqb x y
  | VTime x _, VTime y _ => x =? y
  | VDur x, VDur y => x =? y
  | VList la, VList lb => list_eqb value_eqb la lb
  | VStruct la, VStruct lb => list_eqb value_eqb la lb
  | VTuple la, VTuple lb => list_eqb value_eqb la lb
  | _, _ => false
  end.
