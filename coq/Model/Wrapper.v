(* Model/Wrapper.v — outputs/stream/internally_consistent_output_stream_wrapper.go.  Executable only.
   [pending] is the slice of the same name; a flush is sendPendingLessOrEqualWatermark. *)
From Octo Require Export Changelog.

(* findRetractionLoop: the first later, not crossed-out retraction whose values Compare equal on
   range pending[i].Values; returns the list without it. *)
Fixpoint remove_first_retraction (r : rec) (l : list rec) : option (list rec) :=
  match l with
  | [] => None
  | x :: xs =>
      if retr x && slices_eq (vals r) (vals x) then Some xs
      else match remove_first_retraction r xs with Some xs' => Some (x :: xs') | None => None end
  end.

(* pendingLoop over the records at or below the watermark; crossing out = removal. Fuel = length. *)
Fixpoint cancel_fuel (n : nat) (l : list rec) : list rec :=
  match n with
  | O => []
  | S n' =>
      match l with
      | [] => []
      | x :: xs =>
          if retr x then x :: cancel_fuel n' xs
          else match remove_first_retraction x xs with
               | Some xs' => cancel_fuel n' xs'
               | None => x :: cancel_fuel n' xs
               end
      end
  end.
Definition cancel (l : list rec) : list rec := cancel_fuel (length l) l.

Definition after_wm (w : Z) (r : rec) : bool := w <? et r.       (* EventTime.After(watermark) *)

Definition flush (w : Z) (pending : list rec) : list rec * list rec :=
  (cancel (filter (fun r => negb (after_wm w r)) pending), filter (after_wm w) pending).

Definition icw_step (pending : list rec) (e : event) : list rec * list event :=
  match e with
  | Rec r => (pending ++ [r], [])
  | WM w => let '(out, rest) := flush w pending in (rest, map Rec out ++ [WM w])
  end.

Fixpoint icw_run_from (pending : list rec) (es : list event) : list rec * list event :=
  match es with
  | [] => (pending, [])
  | e :: rest =>
      let '(p1, o1) := icw_step pending e in
      let '(p2, o2) := icw_run_from p1 rest in (p2, o1 ++ o2)
  end.

(* output while the source runs *)
Definition icw_run (es : list event) : list event := snd (icw_run_from [] es).
(* output including the final sendPendingLessOrEqualWatermark(WatermarkMaxValue) *)
Definition icw_run_finish (es : list event) : list event :=
  let '(p, o) := icw_run_from [] es in o ++ map Rec (fst (flush max_wm p)).

(* ---- the pinned code, kept for the refutation witnesses ----
   newPending := make([]Record, afterWatermarkCount) followed by append: count zero records in front;
   the retraction search does not skip crossed-out entries (already matched, or above the watermark). *)
Definition zero_rec : rec := mkrec [] false zero_ns.

(* index-based, as the Go code: [co] is crossedOut *)
Fixpoint find_retraction_pinned (r : rec) (j : nat) (l : list rec) : option nat :=
  match l with
  | [] => None
  | x :: xs => if retr x && slices_eq (vals r) (vals x) then Some j else find_retraction_pinned r (S j) xs
  end.
Fixpoint set_true (i : nat) (co : list bool) : list bool :=
  match co, i with
  | [], _ => []
  | _ :: t, O => true :: t
  | h :: t, S i' => h :: set_true i' t
  end.
Fixpoint pinned_loop (n : nat) (i : nat) (pending : list rec) (co : list bool) : list rec :=
  match n with
  | O => []
  | S n' =>
      match nth_error pending i, nth_error co i with
      | Some x, Some c =>
          if c then pinned_loop n' (S i) pending co
          else if retr x then x :: pinned_loop n' (S i) pending co
          else match find_retraction_pinned x (S i) (skipn (S i) pending) with
               | Some j => pinned_loop n' (S i) pending (set_true j (set_true i co))
               | None => x :: pinned_loop n' (S i) pending co
               end
      | _, _ => []
      end
  end.
Definition flush_pinned (w : Z) (pending : list rec) : list rec * list rec :=
  let gt := filter (after_wm w) pending in
  (pinned_loop (length pending) 0 pending (map (after_wm w) pending),
   repeat zero_rec (length gt) ++ gt).
Definition icw_step_pinned (pending : list rec) (e : event) : list rec * list event :=
  match e with
  | Rec r => (pending ++ [r], [])
  | WM w => let '(out, rest) := flush_pinned w pending in (rest, map Rec out ++ [WM w])
  end.
Fixpoint icw_run_from_pinned (pending : list rec) (es : list event) : list rec * list event :=
  match es with
  | [] => (pending, [])
  | e :: rest =>
      let '(p1, o1) := icw_step_pinned pending e in
      let '(p2, o2) := icw_run_from_pinned p1 rest in (p2, o1 ++ o2)
  end.
Definition icw_run_finish_pinned (es : list event) : list event :=
  let '(p, o) := icw_run_from_pinned [] es in o ++ map Rec (fst (flush_pinned max_wm p)).

(* ---- executable oracles: the property's three clauses read on an observed output ---- *)

(* (records before the k-th watermark, that watermark) for every watermark of the stream *)
Fixpoint at_watermarks (seen : list rec) (es : list event) : list (list rec * Z) :=
  match es with
  | [] => []
  | Rec r :: rest => at_watermarks (seen ++ [r]) rest
  | WM w :: rest => (seen, w) :: at_watermarks seen rest
  end.

Fixpoint forallb2 {A B} (f : A -> B -> bool) (a : list A) (b : list B) : bool :=
  match a, b with
  | [], [] => true
  | x :: xs, y :: ys => f x y && forallb2 f xs ys
  | _, _ => false
  end.

Definition spec_at_watermark (inp out : list event) : bool :=
  forallb2 (fun i o => (snd i =? snd o) &&
                       bag_eqb (fst o) (filter (fun r => negb (after_wm (snd i) r)) (fst i)))
           (at_watermarks [] inp) (at_watermarks [] out).

Definition spec_no_invention (inp out : list event) : bool :=
  forallb (fun r => existsb (rec_eqb r) (records inp)) (records out).

Definition spec_complete (inp out : list event) : bool := bag_eqb (records out) (records inp).

Definition c22_input_ok (n : Z) (inp : list event) : bool :=
  arity_ok n (records inp) && monotone_wms inp && forallb (fun r => et r <=? max_wm) (records inp).

(* one differential case: (arity, input script, observed output incl. the final flush) *)
Definition c22_case : Type := Z * list event * list event.
Definition c22_tie (c : c22_case) : bool :=
  let '(n, inp, out) := c in events_eqb (icw_run_finish inp) out.
Definition c22_spec (c : c22_case) : bool :=
  let '(n, inp, out) := c in
  negb (c22_input_ok n inp) ||
  (spec_at_watermark inp out && spec_no_invention inp out && spec_complete inp out).
