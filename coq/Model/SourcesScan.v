(* Model/SourcesScan.v — C23 (1): the lines datasource.
   datasources/lines/execution.go (the custom split function, the produce loop, the final error) and the
   driver loop of bufio.Scanner.Scan (go1.23 bufio/scan.go), abstracted to: a window of unconsumed bytes
   (buf[start:end]), the reader's remaining bytes, the reader's chunking, the sticky EOF flag.
   Executable definitions only. *)
From Octo Require Export Base.

Definition bytes := list Z.

Fixpoint bytes_eqb (a b : bytes) : bool :=
  match a, b with
  | [], [] => true
  | x :: xs, y :: ys => (x =? y) && bytes_eqb xs ys
  | _, _ => false
  end.

(* bytes.HasPrefix(d, p) *)
Fixpoint prefixb (p d : bytes) : bool :=
  match p, d with
  | [], _ => true
  | x :: xs, y :: ys => (x =? y) && prefixb xs ys
  | _ :: _, [] => false
  end.

(* bytes.Index(d, sep): least i with d[i:i+len(sep)] = sep; -1 (None) when there is none; 0 for sep = "" *)
Fixpoint index_of (sep d : bytes) : option nat :=
  if prefixb sep d then Some O
  else match d with
       | [] => None
       | _ :: rest => match index_of sep rest with Some i => Some (S i) | None => None end
       end.

(* bufio's dropCR: one trailing \r is removed (default separator only) *)
Definition drop_cr (t : bytes) : bytes :=
  match rev t with
  | 13 :: r => rev r
  | _ => t
  end.

(* ---- the split function ------------------------------------------------------------------------- *)
(* result of one call: (advance, token); token = None is Go's nil token ("request more data").
   [fixed] = false is the pinned code (advance i + 1), true the code after the fix (advance i + len(sep)).
   [dropcr] = true is bufio.ScanLines (separator "\n", used when no ?sep= option is given). *)
Definition split_fn_gen (fixed dropcr : bool) (sep : bytes) (data : bytes) (atEOF : bool) : Z * option bytes :=
  let post := fun t => if dropcr then drop_cr t else t in
  match data, atEOF with
  | [], true => (0, None)                                          (* if atEOF && len(data) == 0 *)
  | _, _ =>
    match index_of sep data with
    | Some i =>                                                    (* a full separator-terminated line *)
        (Z.of_nat i + (if fixed then Z.of_nat (length sep) else 1), Some (post (firstn i data)))
    | None =>
        if atEOF then (Z.of_nat (length data), Some (post data))   (* final, non-terminated line *)
        else (0, None)                                             (* request more data *)
    end
  end.

Definition split_fn (sep : bytes) := split_fn_gen true false sep.          (* custom separator, fixed *)
Definition split_fn_pinned (sep : bytes) := split_fn_gen false false sep.  (* custom separator, pinned *)
Definition scan_lines := split_fn_gen true true [10].                      (* bufio.ScanLines *)

(* ---- bufio.Scanner.Scan, as a loop over (window, rest of the reader) ------------------------------ *)
Inductive scan_end : Type :=
| EndOk               (* Scan returned false with sc.Err() == nil *)
| EndTooLong          (* bufio.ErrTooLong: the window fills the largest buffer and split wants more *)
| EndBadAdvance       (* ErrNegativeAdvance / ErrAdvanceTooFar *)
| EndEmptiesPanic     (* panic("bufio.Scan: too many empty tokens without progressing") *)
| EndOutOfFuel.       (* the model's loop bound was too small (excluded by the theorems) *)

Definition scan_end_eqb (a b : scan_end) : bool :=
  match a, b with
  | EndOk, EndOk | EndTooLong, EndTooLong | EndBadAdvance, EndBadAdvance
  | EndEmptiesPanic, EndEmptiesPanic | EndOutOfFuel, EndOutOfFuel => true
  | _, _ => false
  end.

(* The reader: [chunks] gives the size (S c) the k-th Read would return if unconstrained; it is clipped to
   the free buffer space (at most maxtok - |window|) and to what is left; an exhausted list means one byte
   per Read.  [eofl] = the reader reports io.EOF together with the last bytes (true) or by a separate
   (0, EOF) Read (false).  Reads returning (0, nil) are absorbed by Scan's inner retry loop and not modelled. *)
Record reader := mkreader { chunks : list nat; eofl : bool }.

Definition is_nil {A} (l : list A) : bool := match l with [] => true | _ => false end.

(* one Read into the free space; returns (bytes delivered, rest, remaining chunks, eof now) *)
Definition read_step (maxtok : nat) (rd : reader) (win rest : bytes) : bytes * bytes * reader * bool :=
  match rest with
  | [] => ([], [], rd, true)
  | _ =>
    let want := match chunks rd with [] => 1%nat | c :: _ => S c end in
    let n := Nat.min want (maxtok - length win) in
    let got := firstn n rest in
    let rest' := skipn n rest in
    (got, rest', mkreader (tl (chunks rd)) (eofl rd), eofl rd && is_nil rest')
  end.

Section Scan.
  Variable split : bytes -> bool -> Z * option bytes.
  Variable maxtok : nat.

  (* acc = tokens returned by the successful Scan calls so far (sc.Bytes() at each), in order *)
  Fixpoint scan_loop (fuel : nat) (rd : reader) (win rest : bytes) (eof : bool) (empties : nat)
           (acc : list bytes) : list bytes * scan_end :=
    match fuel with
    | O => (acc, EndOutOfFuel)
    | S fuel' =>
      (* "if s.end > s.start || s.err != nil": give split a chance *)
      let called := negb (is_nil win) || eof in
      let '(adv, tok) := if called then split win eof else (0, None) in
      if (adv <? 0) || (Z.of_nat (length win) <? adv) then (acc, EndBadAdvance)
      else
        let win' := skipn (Z.to_nat adv) win in
        match tok with
        | Some t =>
            if eof && (adv =? 0) then
              if (100 <? S empties)%nat then (acc, EndEmptiesPanic)
              else scan_loop fuel' rd win' rest eof (S empties) (acc ++ [t])
            else scan_loop fuel' rd win' rest eof O (acc ++ [t])
        | None =>
            if eof then (acc, EndOk)                               (* "if s.err != nil": shut it down *)
            else if (maxtok <=? length win')%nat then (acc, EndTooLong)
            else
              let '(got, rest', rd', eof') := read_step maxtok rd win' rest in
              scan_loop fuel' rd' (win' ++ got) rest' eof' O acc
        end
    end.
End Scan.

(* enough iterations for every run that advances on each token: each iteration emits a token and consumes
   at least one byte of the window, or moves at least one byte from the reader to the window, or sees EOF *)
Definition scan_fuel (data : bytes) : nat := 3 * length data + 3.

Definition scan (split : bytes -> bool -> Z * option bytes) (maxtok : nat) (rd : reader) (data : bytes)
  : list bytes * scan_end :=
  scan_loop split maxtok (scan_fuel data) rd [] data false O [].

(* ---- specification: what "splits exactly at the separator" means -------------------------------- *)
(* cut at the first occurrence, continue after it; the remainder after the last separator is a piece
   unless it is empty *)
Fixpoint split_spec_fuel (fuel : nat) (sep data : bytes) : list bytes :=
  match fuel with
  | O => []
  | S f =>
    match data with
    | [] => []
    | _ => match index_of sep data with
           | None => [data]
           | Some i => firstn i data :: split_spec_fuel f sep (skipn (i + length sep) data)
           end
    end
  end.
Definition split_spec (sep data : bytes) : list bytes := split_spec_fuel (S (length data)) sep data.

(* ---- DatasourceExecuting.Run of the lines source ------------------------------------------------ *)
(* records are (number, text); the run ends with an error or nil.
   [errfixed] = false is the pinned `if sc.Err() != nil { return err }` (err is the nil of OpenLocalFile),
   true is `return sc.Err()`. *)
Definition lines_run_gen (fixed errfixed : bool) (sep : bytes) (maxtok : nat) (rd : reader) (data : bytes)
  : list (Z * bytes) * outcome unit :=
  let split := if bytes_eqb sep [10] then scan_lines else split_fn_gen fixed false sep in
  let '(toks, e) := scan split maxtok rd data in
  let recs := combine (map Z.of_nat (seq 0 (length toks))) toks in
  (recs,
   match e with
   | EndOk => Ok tt
   | EndEmptiesPanic => Panic 1
   | EndTooLong => if errfixed then Err 1 else Ok tt
   | EndBadAdvance => if errfixed then Err 2 else Ok tt
   | EndOutOfFuel => Err 99
   end).
Definition lines_run := lines_run_gen true true.
Definition lines_run_pinned := lines_run_gen false false.

Definition lines_spec (sep data : bytes) : list (Z * bytes) :=
  let toks := if bytes_eqb sep [10] then map drop_cr (split_spec sep data) else split_spec sep data in
  combine (map Z.of_nat (seq 0 (length toks))) toks.

(* ---- differential case: (separator, max token size, chunking, data, observed texts, observed error) - *)
Definition rec_eqb (a b : Z * bytes) : bool := (fst a =? fst b) && bytes_eqb (snd a) (snd b).
Definition lines_case : Type := bytes * Z * (list Z * bool) * bytes * list (Z * bytes) * Z.
(* observed error enum: 0 = nil, 1 = ErrTooLong, 2 = other *)
Definition lines_obs_of (r : list (Z * bytes) * outcome unit) : list (Z * bytes) * Z :=
  (fst r, match snd r with Ok _ => 0 | Err 1 => 1 | Err _ => 2 | Panic _ => 3 end).
Definition lines_tie (c : lines_case) : bool :=
  let '(sep, maxtok, (ch, el), data, obs, oerr) := c in
  let '(recs, e) := lines_obs_of (lines_run sep (Z.to_nat maxtok) (mkreader (map Z.to_nat ch) el) data) in
  list_eqb rec_eqb recs obs && (e =? oerr).
(* oracle: when the implementation reports no error its records are exactly the separator-delimited pieces *)
Definition lines_spec_ok (c : lines_case) : bool :=
  let '(sep, maxtok, _, data, obs, oerr) := c in
  is_nil sep || negb (oerr =? 0) || list_eqb rec_eqb obs (lines_spec sep data).
