(* Model/Triggers.v — execution/triggers.go: CountingTrigger, WatermarkTrigger, EndOfStreamTrigger,
   MultiTrigger.  Executable definitions only.

   google/btree is modelled by its abstract behaviour under the comparator the Go code passes in: an
   association list kept in ascending order, in which two items are "the same item" when neither is
   Less than the other (exactly the test the tree makes).  Get = first equivalent item;
   Delete = remove the equivalent items; ReplaceOrInsert = Delete, then insert in order. *)
From Octo Require Export Changelog.

Notation gkey := (list value) (only parsing).   (* execution.GroupKey; GroupKey.Less = slices_less *)

Section AssocMap.
  Context {K V : Type}.
  Variable less : K -> K -> bool.

  Definition m_eqv (a b : K) : bool := negb (less a b) && negb (less b a).

  Fixpoint m_get (k : K) (m : list (K * V)) : option (K * V) :=
    match m with
    | [] => None
    | e :: r => if m_eqv k (fst e) then Some e else m_get k r
    end.

  Definition m_mem (k : K) (m : list (K * V)) : bool := existsb (fun e => m_eqv k (fst e)) m.

  Definition m_del (k : K) (m : list (K * V)) : list (K * V) :=
    filter (fun e => negb (m_eqv k (fst e))) m.

  (* insertion in ascending order (after the equivalent items were removed) *)
  Fixpoint m_sins (k : K) (v : V) (m : list (K * V)) : list (K * V) :=
    match m with
    | [] => [(k, v)]
    | e :: r => if less k (fst e) then (k, v) :: e :: r else e :: m_sins k v r
    end.

  Definition m_put (k : K) (v : V) (m : list (K * V)) : list (K * V) := m_sins k v (m_del k m).
End AssocMap.

Fixpoint take_while {A} (p : A -> bool) (l : list A) : list A :=
  match l with
  | [] => []
  | x :: r => if p x then x :: take_while p r else []
  end.

(* ---- trigger configuration: what TRIGGER clauses a GROUP BY carries (logical/group_by.go) ---- *)
Inductive tkind := TCounting (n : Z) | TWatermark | TEndOfStream.

(* watermarkTriggerKey{Time, GroupKey}; a time.Time is (instant, location identity) *)
Definition wkey : Type := (Z * Z) * gkey.
Definition wk_ns (a : wkey) : Z := fst (fst a).
Definition wk_loc (a : wkey) : Z := snd (fst a).

(* watermarkTriggerKey.Less after the fix: key.Time.Equal(than.Time) *)
Definition wless (a b : wkey) : bool :=
  if wk_ns a =? wk_ns b then slices_less (snd a) (snd b) else wk_ns a <? wk_ns b.
(* the pinned code: key.Time == than.Time is struct equality (instant and location pointer) *)
Definition wless_pinned (a b : wkey) : bool :=
  if (wk_ns a =? wk_ns b) && (wk_loc a =? wk_loc b) then slices_less (snd a) (snd b) else wk_ns a <? wk_ns b.

(* the .Time field of an octosql.Value: the zero time.Time unless the value is a Time *)
Definition vtime (v : value) : Z * Z :=
  match v with VTime ns loc => (ns, loc) | _ => (zero_ns, 0) end.

(* key[timeFieldKeyIndex].Time.  The index is inside the key for every configuration the planner
   builds (wf_config / cfg_ok below); run_group_by answers Panic for any other configuration. *)
Definition key_time (idx : nat) (k : gkey) : Z * Z :=
  match nth_error k idx with Some v => vtime v | None => (zero_ns, 0) end.

Section Triggers.
  Variable wl : wkey -> wkey -> bool.      (* wless or wless_pinned *)

  Inductive tstate :=
  | SCount (n : Z) (counts : list (gkey * Z)) (eos : bool) (fire : list gkey)   (* triggerAfter, counts, endOfStreamReached, toTrigger *)
  | SWm (idx : nat) (tks : list (wkey * unit)) (eos : bool) (wm : Z)           (* timeFieldKeyIndex, timeKeys, endOfStreamReached, watermark *)
  | SEos (keys : list (gkey * unit)) (eos : bool).

  Definition t_init (idx : nat) (k : tkind) : tstate :=
    match k with
    | TCounting n => SCount n [] false []
    | TWatermark => SWm idx [] false zero_ns
    | TEndOfStream => SEos [] false
    end.

  (* KeyReceived.  Count is a uint: Count++ wraps at 2^64. *)
  Definition t_key (k : gkey) (s : tstate) : tstate :=
    match s with
    | SCount n counts eos fire =>
        let '(sk, c) := match m_get slices_less k counts with Some e => e | None => (k, 0) end in
        let c' := (c + 1) mod two64 in
        if c' =? n then SCount n (m_del slices_less sk counts) eos (fire ++ [sk])
        else SCount n (m_put slices_less sk c' counts) eos fire
    | SWm idx tks eos wm => SWm idx (m_put wl (key_time idx k, k) tt tks) eos wm
    | SEos keys eos => SEos (m_put slices_less k tt keys) eos
    end.

  Definition t_wm (w : Z) (s : tstate) : tstate :=
    match s with SWm idx tks eos _ => SWm idx tks eos w | _ => s end.

  Definition t_eos (s : tstate) : tstate :=
    match s with
    | SCount n counts _ fire => SCount n counts true fire
    | SWm idx tks _ wm => SWm idx tks true wm
    | SEos keys _ => SEos keys true
    end.

  (* Poll: the keys to trigger now, and the state afterwards *)
  Definition t_poll (s : tstate) : list gkey * tstate :=
    match s with
    | SCount n counts eos fire =>
        (fire ++ (if eos then map fst counts else []), SCount n counts eos [])
    | SWm idx tks eos wm =>
        let sel := if eos then tks
                   else take_while (fun e => negb (wm <? wk_ns (fst e))) tks in   (* stop at the first Time.After(watermark) *)
        let ks := map (fun e => snd (fst e)) sel in
        (ks, SWm idx (fold_left (fun m k => m_del wl (key_time idx k, k) m) ks tks) eos wm)
    | SEos keys eos => (if eos then map fst keys else [], s)
    end.

  (* MultiTrigger over the configured list.  A single trigger used directly and a MultiTrigger of one
     behave identically (Poll copies), so "one -> it; several -> Multi" is a list in both cases. *)
  Definition mt_init (idx : nat) (ks : list tkind) : list tstate := map (t_init idx) ks.
  Definition mt_key (k : gkey) (l : list tstate) : list tstate := map (t_key k) l.
  Definition mt_wm (w : Z) (l : list tstate) : list tstate := map (t_wm w) l.
  Definition mt_eos (l : list tstate) : list tstate := map t_eos l.
  Fixpoint mt_poll (l : list tstate) : list gkey * list tstate :=
    match l with
    | [] => ([], [])
    | s :: r => let '(o, s') := t_poll s in let '(o2, r') := mt_poll r in (o ++ o2, s' :: r')
    end.
End Triggers.

(* physical/nodes.go: SimpleGroupBy is chosen when the assembled trigger is END OF STREAM, i.e. for no
   TRIGGER clause (logical/group_by.go defaults to EndOfStream) or a single ON END OF STREAM. *)
Definition is_simple (ts : list tkind) : bool :=
  match ts with [] => true | [TEndOfStream] => true | _ => false end.
