(* Model/SourcesCsv.v — C24, CSV/TSV: schema inference (datasources/csv/impl.go, the first 100 records,
   strconv parsers) against execution (datasources/csv/execution.go, type-guarded cascade, fastfloat).
   Column types of a CSV file are flat: a primitive type or a union of primitives.  octosql.TypeSum,
   Type.Is and Type.Equals are modelled on that fragment, following octosql/types.go branch by branch.
   Integer acceptance languages (strconv.ParseInt base 10, fastfloat.ParseInt64) and strconv.ParseBool are
   modelled exactly from the cell text; float and RFC3339Nano parsing are carried by the cell as observed
   results of the Go parsers (the engine records them; the theorems quantify over all of them).
   Executable definitions only. *)
From Octo Require Export Values.
From Octo Require Export SourcesScan.   (* bytes, is_nil, bytes_eqb *)

(* ---- flat types ------------------------------------------------------------------------------------ *)
Inductive fty : Type :=
| FPrim (id : Z)                (* Type{TypeID: id}, id one of Null..Time *)
| FUnion (alts : list Z).       (* Type{TypeID: Union, Alternatives: primitives} *)

Definition t_null : Z := 0.
Definition t_int : Z := 1.
Definition t_float : Z := 2.
Definition t_bool : Z := 3.
Definition t_str : Z := 4.
Definition t_time : Z := 5.

(* (Type{p}).Is(t) == TypeRelationIs for a primitive p: same id, or (other is a union) some alternative Is *)
Definition prim_is (p : Z) (t : fty) : bool :=
  match t with FPrim q => p =? q | FUnion alts => existsb (Z.eqb p) alts end.
(* t.Is(Type{p}) == TypeRelationIs: same id, or (t is a union) all alternatives fit *)
Definition is_prim (t : fty) (p : Z) : bool :=
  match t with FPrim q => q =? p | FUnion alts => forallb (fun a => a =? p) alts end.
(* t.Equals(Type{p}) *)
Definition equals_prim (t : fty) (p : Z) : bool := is_prim t p && prim_is p t.

Fixpoint insert_sorted (p : Z) (l : list Z) : list Z :=
  match l with
  | [] => [p]
  | x :: xs => if p <? x then p :: l else x :: insert_sorted p xs
  end.
Definition sort_ids (l : list Z) : list Z := fold_right insert_sorted [] l.

(* octosql.TypeSum(t, Type{p}) on flat types *)
Definition type_sum_prim (t : fty) (p : Z) : fty :=
  if is_prim t p then FPrim p                       (* t1.Is(t2) == Is -> t2 *)
  else if prim_is p t then t                        (* t2.Is(t1) == Is -> t1 *)
  else match t with
       | FUnion alts => FUnion (sort_ids (alts ++ [p]))      (* append and sort by TypeID *)
       | FPrim q => FUnion (sort_ids [q; p])
       end.

Definition fty_eqb (a b : fty) : bool :=
  match a, b with
  | FPrim x, FPrim y => x =? y
  | FUnion x, FUnion y => list_eqb Z.eqb x y
  | _, _ => false
  end.

(* ---- cells ----------------------------------------------------------------------------------------- *)
Record cell : Type := mkcell {
  ctext : bytes;
  cfloat_s : option Z;          (* strconv.ParseFloat(text, 64): bits, None = error *)
  cfloat_f : option Z;          (* fastfloat.Parse(text) *)
  ctime : option (Z * Z)        (* time.Parse(RFC3339Nano, text): (ns, location id) *)
}.

Definition is_digit (c : Z) : bool := (48 <=? c) && (c <=? 57).

Fixpoint digits_val (s : bytes) (acc : Z) : option Z :=
  match s with
  | [] => Some acc
  | c :: r => if is_digit c then digits_val r (acc * 10 + (c - 48)) else None
  end.

(* strconv.ParseInt(s, 10, 64): [+-]?[0-9]+ (no underscores with an explicit base), value within int64 *)
Definition strconv_int (s : bytes) : option Z :=
  match s with
  | [] => None
  | c :: r =>
    let '(neg, body) := if c =? 43 then (false, r) else if c =? 45 then (true, r) else (false, s) in
    match body with
    | [] => None
    | _ => match digits_val body 0 with
           | None => None
           | Some u => if neg then (if u <=? two63 then Some (- u) else None)
                       else (if u <? two63 then Some u else None)
           end
    end
  end.

(* fastfloat.ParseInt64: the digit loop with its position counter and the fall-back to strconv at i > 18 *)
Inductive ffres : Type := FFallback | FStop (i : nat) (d : Z) (rest : bytes).
Fixpoint ff_loop (s : bytes) (i : nat) (d : Z) : ffres :=
  match s with
  | [] => FStop i d []
  | c :: r =>
    if is_digit c then
      let d' := wrap64 (d * 10 + (c - 48)) in
      if (18 <? S i)%nat then FFallback else ff_loop r (S i) d'
    else FStop i d s
  end.
Definition ff_int (s : bytes) : option Z :=
  match s with
  | [] => None
  | c :: r =>
    let minus := c =? 45 in
    let start := if minus then 1%nat else 0%nat in
    let body := if minus then r else s in
    if minus && is_nil r then None
    else match ff_loop body start 0 with
         | FFallback => strconv_int s
         | FStop i d rest =>
             if (i <=? start)%nat then None
             else if negb (is_nil rest) then None
             else Some (if minus then wrap64 (- d) else d)
         end
  end.

(* strconv.ParseBool *)
Definition parse_bool (s : bytes) : option bool :=
  if bytes_eqb s [49] || bytes_eqb s [116] || bytes_eqb s [84] || bytes_eqb s [84;82;85;69]
     || bytes_eqb s [116;114;117;101] || bytes_eqb s [84;114;117;101] then Some true
  else if bytes_eqb s [48] || bytes_eqb s [102] || bytes_eqb s [70] || bytes_eqb s [70;65;76;83;69]
     || bytes_eqb s [102;97;108;115;101] || bytes_eqb s [70;97;108;115;101] then Some false
  else None.

(* ---- inference: csv/impl.go ------------------------------------------------------------------------ *)
Inductive ckind : Type := KNull | KInt | KFloat | KBool | KTime | KStr.
Definition kid (k : ckind) : Z :=
  match k with KNull => t_null | KInt => t_int | KFloat => t_float | KBool => t_bool | KTime => t_time | KStr => t_str end.

(* the cascade of the inference loop *)
Definition cell_kind (c : cell) : ckind :=
  if is_nil (ctext c) then KNull
  else match strconv_int (ctext c) with
       | Some _ => KInt
       | None =>
         match cfloat_s c with
         | Some _ => KFloat
         | None =>
           match parse_bool (ctext c) with
           | Some _ => KBool
           | None => match ctime c with Some _ => KTime | None => KStr end
           end
         end
       end.

(* per column: (filled, type); the unfilled type is the zero Type, whose TypeID is Null *)
Definition colst : Type := (bool * fty)%type.
Definition colst0 : colst := (false, FPrim t_null).

Definition infer_cell (st : colst) (c : cell) : colst :=
  let '(filled, t) := st in
  match cell_kind c with
  | KNull => if negb filled then (true, FPrim t_null)
             else if negb (equals_prim t t_null) then (true, type_sum_prim t t_null) else st
  | KInt => if negb filled then (true, FPrim t_int)
            else if negb (equals_prim t t_float) then (true, type_sum_prim t t_int) else st
  | KFloat => if negb filled then (true, FPrim t_float)
              else if equals_prim t t_int then (true, FPrim t_float)
              else (true, type_sum_prim t t_float)
  | k => if negb filled then (true, FPrim (kid k)) else (true, type_sum_prim t (kid k))
  end.

Fixpoint zip_with {A B C} (f : A -> B -> C) (a : list A) (b : list B) : list C :=
  match a, b with
  | x :: xs, y :: ys => f x y :: zip_with f xs ys
  | _, _ => []
  end.

(* encoding/csv fixes the number of fields per record with the first record it reads (the header, or the
   first row when header=false); a record of another length is csv.ErrFieldCount -> Err 10 *)
Definition e_fieldcount : Z := 10.
Definition e_null_in_nonnull : Z := 11.   (* after the fix: empty cell in a column whose type has no NULL *)
Definition e_no_alternative : Z := 12.    (* after the fix: the cell parses as none of the column's types *)

Fixpoint infer_rows (sts : list colst) (rows : list (list cell)) : outcome (list colst) :=
  match rows with
  | [] => Ok sts
  | r :: rest =>
    if (length r =? length sts)%nat then infer_rows (zip_with infer_cell sts r) rest
    else Err e_fieldcount
  end.

(* Creator: the schema inferred from the first 100 records of a file with [ncols] columns *)
Definition infer_csv (ncols : nat) (rows : list (list cell)) : outcome (list fty) :=
  match infer_rows (repeat colst0 ncols) (firstn 100 rows) with
  | Ok sts => Ok (map snd sts)
  | Err e => Err e
  | Panic p => Panic p
  end.

(* ---- execution: csv/execution.go ------------------------------------------------------------------- *)
Definition first_some {A} (a b : option A) : option A := match a with Some _ => a | None => b end.

(* [fixed] = false: the pinned code.  true: after the fix commits — (1) a cell that none of the column's
   types accepts and an empty cell in a column without NULL are errors; (2) when fastfloat rejects a text,
   the strconv parser the inference used is tried before giving up (so "+5", "0x1p-2" agree). *)
Definition exec_cell_gen (fixed : bool) (t : fty) (c : cell) : outcome value :=
  let s := ctext c in
  if is_nil s then
    (if fixed && negb (prim_is t_null t) then Err e_null_in_nonnull else Ok VNull)
  else
    let r_int := if prim_is t_int t
                 then option_map VInt (if fixed then first_some (ff_int s) (strconv_int s) else ff_int s)
                 else None in
    let r_float := if prim_is t_float t
                   then option_map VFloat (if fixed then first_some (cfloat_f c) (cfloat_s c) else cfloat_f c)
                   else None in
    let r_bool := if prim_is t_bool t then option_map VBool (parse_bool s) else None in
    let r_time := if prim_is t_time t then option_map (fun p => VTime (fst p) (snd p)) (ctime c) else None in
    match first_some r_int (first_some r_float (first_some r_bool r_time)) with
    | Some v => Ok v
    | None => if fixed && negb (prim_is t_str t) then Err e_no_alternative else Ok (VStr s)
    end.
Definition exec_cell := exec_cell_gen true.
Definition exec_cell_pinned := exec_cell_gen false.

Fixpoint exec_cells (fixed : bool) (tys : list fty) (r : list cell) : outcome (list value) :=
  match tys, r with
  | [], [] => Ok []
  | t :: ts, c :: cs =>
      match exec_cell_gen fixed t c with
      | Ok v => match exec_cells fixed ts cs with Ok vs => Ok (v :: vs) | e => e end
      | Err e => Err e
      | Panic p => Panic p
      end
  | _, _ => Err e_fieldcount
  end.
Definition exec_row := exec_cells true.
Definition exec_row_pinned := exec_cells false.

(* ---- the property, executable ---------------------------------------------------------------------- *)
Definition has_ftype (v : value) (t : fty) : bool := prim_is (tid v) t.

Fixpoint all2 {A B} (f : A -> B -> bool) (a : list A) (b : list B) : bool :=
  match a, b with
  | [], [] => true
  | x :: xs, y :: ys => f x y && all2 f xs ys
  | _, _ => false
  end.

(* cell oracle sanity the theorems assume (and the engine checks on every generated cell): a text
   strconv.ParseInt accepts is also accepted by strconv.ParseFloat *)
Definition cell_wf (c : cell) : bool :=
  match strconv_int (ctext c) with Some _ => match cfloat_s c with Some _ => true | None => false end | None => true end.

(* ---- differential cases ---------------------------------------------------------------------------- *)
(* (a) parser tie: text with the observed results of strconv.ParseInt, fastfloat.ParseInt64, ParseBool *)
Definition intparse_case : Type := bytes * option Z * option Z * option bool.
Definition oz_eqb (a b : option Z) : bool :=
  match a, b with Some x, Some y => x =? y | None, None => true | _, _ => false end.
Definition ob_eqb (a b : option bool) : bool :=
  match a, b with Some x, Some y => Bool.eqb x y | None, None => true | _, _ => false end.
Definition intparse_tie (c : intparse_case) : bool :=
  let '(s, sc, ff, pb) := c in
  oz_eqb (strconv_int s) sc && oz_eqb (ff_int s) ff && ob_eqb (parse_bool s) pb.

(* (b) file case: number of columns, data rows, observed schema, observed run: per row the values, or
   the index of the first row that failed (rows before it were produced) *)
Definition value_eqb_flat (a b : value) : bool :=
  match a, b with
  | VNull, VNull => true
  | VInt x, VInt y => x =? y
  | VFloat x, VFloat y => x =? y
  | VBool x, VBool y => Bool.eqb x y
  | VStr x, VStr y => bytes_eqb x y
  | VTime x _, VTime y _ => x =? y
  | _, _ => false
  end.

Fixpoint exec_rows (fixed : bool) (tys : list fty) (rows : list (list cell)) : list (list value) * bool :=
  match rows with
  | [] => ([], true)
  | r :: rest =>
    match exec_cells fixed tys r with
    | Ok vs => let '(out, ok) := exec_rows fixed tys rest in (vs :: out, ok)
    | _ => ([], false)
    end
  end.

(* csv_case: (ncols, rows, observed types, observed records, observed "run ended without error") *)
Definition csv_case : Type := nat * list (list cell) * list fty * list (list value) * bool.
Definition csv_tie (c : csv_case) : bool :=
  let '(ncols, rows, otys, orecs, ook) := c in
  match infer_csv ncols rows with
  | Ok tys =>
      list_eqb fty_eqb tys otys &&
      (let '(recs, ok) := exec_rows true tys rows in
       Bool.eqb ok ook && list_eqb (list_eqb value_eqb_flat) recs orecs)
  | _ => false
  end.
(* oracle: every produced value matches the type the datasource reported for its column *)
Definition csv_spec (c : csv_case) : bool :=
  let '(ncols, rows, otys, orecs, ook) := c in
  forallb (fun vs => all2 has_ftype vs otys) orecs &&
  (* and a run that reported no error produced one record per row *)
  (negb ook || (length orecs =? length rows)%nat).
Definition csv_cells_wf (c : csv_case) : bool :=
  let '(ncols, rows, otys, orecs, ook) := c in forallb (forallb cell_wf) rows.
