(* Model/ExprCases.v — case formats, tie functions and executable oracles of the c11 engine (and the pieces the
   c08 engine shares).  Executable definitions only.  Imports the GENERATED descriptor table. *)
From Octo Require Export Expr.
From Octo Require Export GenFunctions.

(* the engine names a descriptor by (name, position); the row comes from the table generated from the code *)
Definition pcall (t : sty) (n : string) (i : Z) (args : list pexpr) : pexpr :=
  PCall t (find_desc function_table n i) args.

(* boolean trees over TRUE / FALSE / NULL leaves: what the engine built as a logical expression *)
Inductive btree := BLeaf (t : tv) | BNotT (a : btree) | BAndT (a b : btree) | BOrT (a b : btree).
Fixpoint keval (b : btree) : tv :=
  match b with
  | BLeaf t => t
  | BNotT a => k_not (keval a)
  | BAndT a b => k_and (keval a) (keval b)
  | BOrT a b => k_or (keval a) (keval b)
  end.

Inductive c11_case :=
(* an expression typechecked by the real code (as pexpr), the variable frames, the observed evaluation;
   [tree]: the boolean tree it was built from, if it is one;  [nary]: for a directly built n-ary And/Or node,
   (is_and, operand truth values) *)
| CExpr (tree : option btree) (nary : option (bool * list tv)) (pe : pexpr) (ctx : vctx) (obs : outcome value)
(* as CExpr for a root function call, plus the separately observed RUNTIME values of its argument expressions
   (the arguments may be calls themselves: a NULL produced at run time by a function whose declared type
   excludes NULL must still propagate) *)
| CCall (pe : pexpr) (ctx : vctx) (arg_obs : list (outcome value)) (obs : outcome value)
(* Filter node: predicate, outer frames, input rows, the separately observed predicate value per row,
   the rows the node produced, whether it ended with an error (Err class) / panic *)
| CFilter (pe : pexpr) (outer : vctx) (rows : list (list value)) (row_obs : list (outcome value))
          (out_rows : list (list value)) (out_res : outcome unit).

Definition res_eqb (a b : outcome unit) : bool :=
  match a, b with
  | Ok _, Ok _ => true
  | Err x, Err y => x =? y
  | Panic _, Panic _ => true
  | _, _ => false
  end.
Definition rows_eqb (a b : list (list value)) : bool := list_eqb (list_eqb value_eqb) a b.

(* correspondence: the model evaluates to what the implementation did.  An expression that calls a descriptor
   whose body has no model yields Err E_NOT_MODELLED in the model and is not compared (counted by the engine). *)
Definition tie_outcome (m obs : outcome value) : bool :=
  match m with
  | Err e => if e =? E_NOT_MODELLED then true else outcome_eqb m obs
  | _ => outcome_eqb m obs
  end.

Definition c11_tie (c : c11_case) : bool :=
  match c with
  | CExpr _ _ pe ctx obs => tie_outcome (peval no_oracle ctx pe) obs
  | CCall pe ctx _ obs => tie_outcome (peval no_oracle ctx pe) obs
  | CFilter pe outer rows _ out_rows out_res =>
      let '(m_rows, m_res) := filter_run (materialize no_oracle pe) outer rows in
      match m_res with
      | Err e => if e =? E_NOT_MODELLED then true else rows_eqb m_rows out_rows && res_eqb m_res out_res
      | _ => rows_eqb m_rows out_rows && res_eqb m_res out_res
      end
  end.

(* oracle 1: AND / OR / NOT follow Kleene logic (on the implementation's observation) *)
Definition c11_spec_kleene (c : c11_case) : bool :=
  match c with
  | CExpr tree nary _ _ obs =>
      match tree with Some b => outcome_eqb obs (Ok (tv_val (keval b))) | None => true end &&
      match nary with
      | Some (true, l) => outcome_eqb obs (Ok (tv_val (kleene_and l)))
      | Some (false, l) => outcome_eqb obs (Ok (tv_val (kleene_or l)))
      | None => true
      end
  | _ => true
  end.

(* oracle 2: a call of a Strict descriptor (per the generated table) with a NULL argument is NULL; a call of
   "is null" / "is not null" is never NULL.  Applied when the root is a call whose arguments are leaves. *)
Definition leaf_value (ctx : vctx) (e : pexpr) : option value :=
  match e with
  | PConst _ v => Some v
  | PVar _ l i => match lookup_var ctx l i with Ok v => Some v | _ => None end
  | _ => None
  end.
Definition is_leaf (e : pexpr) : bool := match e with PConst _ _ | PVar _ _ _ => true | _ => false end.

Local Open Scope string_scope.
(* the clause on RUNTIME argument values: [vs] = the values the arguments evaluated to (None: that argument
   failed, then nothing is required) *)
Definition null_clause (d : fdesc) (vs : list (option value)) (obs : outcome value) : bool :=
  let all_ok := forallb (fun o => match o with Some _ => true | None => false end) vs in
  let has_null := existsb (fun o => match o with Some VNull => true | _ => false end) vs in
  if negb all_ok then true else
  (if fd_strict d && has_null then outcome_eqb obs (Ok VNull) else true) &&
  (* comparisons propagate NULL whatever the table says about their Strict flag *)
  (if existsb (name_is d) ["="; "!="; "<"; "<="; ">"; ">="] && has_null then outcome_eqb obs (Ok VNull) else true) &&
  (if name_is d "is null" || name_is d "is not null"
   then match obs with Ok (VBool _) => true | _ => false end else true).

Definition c11_spec_null (c : c11_case) : bool :=
  match c with
  | CExpr _ _ (PCall _ d args) ctx obs =>
      if forallb is_leaf args then null_clause d (map (leaf_value ctx) args) obs else true
  | CCall (PCall _ d args) _ arg_obs obs =>
      Nat.eqb (length args) (length arg_obs) &&
      null_clause d (map (fun o => match o with Ok v => Some v | _ => None end) arg_obs) obs
  | _ => true
  end.
Local Close Scope string_scope.

(* oracle 3: the Filter node produced exactly the rows whose (separately observed) predicate value is TRUE,
   in order, up to the first evaluation error, and failed iff some evaluation failed *)
Fixpoint expected_filter (rows : list (list value)) (row_obs : list (outcome value)) : list (list value) * bool :=
  match rows, row_obs with
  | r :: rs, Ok v :: os => let '(out, failed) := expected_filter rs os in
                            ((if is_true v then r :: out else out), failed)
  | _ :: _, _ :: _ => ([], true)
  | _, _ => ([], false)
  end.
Definition c11_spec_filter (c : c11_case) : bool :=
  match c with
  | CFilter _ _ rows row_obs out_rows out_res =>
      Nat.eqb (length rows) (length row_obs) &&
      let '(exp_rows, failed) := expected_filter rows row_obs in
      rows_eqb exp_rows out_rows && Bool.eqb failed (negb (is_ok out_res))
  | _ => true
  end.
