(* Model/C15Cases.v — the differential cases of engine c15 after the strengthening round.
   Property C15 names filter, map, distinct, group by, stream / outer / lookup join and order by.  The
   single-input nodes are modelled in Model/Operators.v (theorems in Properties/C15.v); the group-by nodes are
   modelled in Model/GroupBy.v (theorems: C16) and the two-input joins in Model/Joins.v (theorems: C19).  The
   c15 engine runs all of them on valid changelogs and applies the same two clauses of the property to what the
   implementation emitted: the output is a valid changelog, and it consolidates to the batch operator applied
   to the consolidated input.  Executable definitions only; GroupBy / Joins are used read-only. *)
From Octo Require Export LimitOrder.
From Octo Require GroupBy Joins.

Inductive c15x_case :=
| XNode (c : c15_case)                 (* a node of Model/Operators.v *)
| XGroup (c : GroupBy.gb_case)         (* SimpleGroupBy / CustomTriggerGroupBy through the planner path *)
| XJoin (c : Joins.c19_case)           (* StreamJoin / OuterJoin under a prescribed schedule *)
| XBuffered (c : c15_case).            (* a node (or pipeline) of Model/Operators.v feeding an EventTimeBuffer: a consumer
                                          that keeps the records it is handed until a watermark releases them *)

(* model output == observed output (exact events; hash-ordered block of SimpleGroupBy as a bag) *)
Definition c15x_tie (c : c15x_case) : bool :=
  match c with
  | XNode c' => c15_tie c'
  | XGroup g => GroupBy.gb_tie g
  | XJoin j => Joins.c19_tie j
  | XBuffered (arity, nd, inp, ob) =>
      arity_ok (Z.of_nat arity) (records inp) && node_params_ok arity nd inp &&
      match run_node nd inp with
      | ObsEvents m => obs_eqb (ObsEvents (GroupBy.etb_run_finish m)) ob
      | o => obs_eqb o ob
      end
  end.

(* ORDER BY ... LIMIT / LIMIT inside C15: the consolidated output is the batch operator (top n of the
   sort order, duplicates counted individually) on the consolidated input — the oracle of C05 *)
Definition c15_limit_clause (c : c15_case) : bool :=
  let '(_, nd, _, _) := c in
  match nd with
  | NLimit _ | NOst _ (Some _) _ | NPrinter _ (Some _) _ | NPipe _ (NLimit _) | NPipe _ (NOst _ (Some _) _) => c05_spec (InProc c)
  | _ => true
  end.

Definition join_inputs_valid (j : Joins.c19_case) : bool :=
  Joins.c19_input_ok j && Joins.ends_closed (Joins.c_left j) && Joins.ends_closed (Joins.c_right j) &&
  (Joins.c_status j =? 0) &&
  valid_changelog (Joins.msg_recs (Joins.c_left j)) && valid_changelog (Joins.msg_recs (Joins.c_right j)).

Definition c15x_spec (c : c15x_case) : bool :=
  match c with
  | XNode c' => c15_spec c' && c15_limit_clause c'
  | XGroup g =>
      (* consolidated output = grouping of the consolidated input; output never retracts an absent row *)
      GroupBy.c16_spec g &&
      (negb (GroupBy.gb_input_ok g) || valid_changelog (records (GroupBy.case_out g)))
  | XJoin j =>
      (* consolidated output = (outer) join of the complete inputs; output never retracts an absent row *)
      Joins.c19_spec_final j &&
      (negb (join_inputs_valid j) || valid_changelog (records (concat (Joins.c_steps j))))
  | XBuffered (arity, nd, inp, ob) =>
      (* the buffer only delays: at end of stream its consolidated output is the node's batch result *)
      negb (valid_changelog (records inp)) ||
      match ob with
      | ObsEvents out =>
          match batch_of nd (expand (records inp)) with Some b => bag_eqb (records out) b | None => true end
      | _ => false
      end
  end.
