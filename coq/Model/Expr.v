(* Model/Expr.v — execution/expressions.go (Constant, Variable, TypeAssertion, TypeCast, FunctionCall, And, Or,
   Coalesce), physical/expression.go Materialize (nullCheckIndices from static types for Strict descriptors,
   expectedTypeIDs of a TypeAssertion), the bodies of the modelled function descriptors of
   functions/functions.go, execution/nodes/filter.go.  Executable definitions only; follows the Go code
   construct by construct.  Oracles and tie functions of C11 at the end. *)
From Octo Require Export ExprTypes.

(* error / panic enums of this engine *)
Definition E_ASSERT : Z := 1.        (* TypeAssertion: "invalid type" *)
Definition E_FUNCTION : Z := 2.      (* the function body returned an error *)
Definition E_ABSTRACT : Z := 98.     (* an abstractly modelled body returned a value outside its declared result kinds *)
Definition E_NOT_MODELLED : Z := 99. (* the body of this descriptor has no model: evaluation is not claimed *)
Definition P_VAR : Z := 1.           (* variable level/index outside the variable context *)
Definition P_ARGS : Z := 2.          (* values[i] / argValues[index] out of range *)
Definition P_DIVZERO : Z := 3.       (* integer division by zero: the pinned tree panicked; main returns an error (E_FUNCTION) *)
Definition P_LAYOUT : Z := 4.        (* ObjectLayoutFixer reached a nil mapping *)

(* Go reads struct fields of octosql.Value without looking at TypeID; values are built by the New*
   constructors, so the fields of the other kinds are zero *)
Definition vboolean (v : value) : bool := match v with VBool b => b | _ => false end.
Definition vint (v : value) : Z := match v with VInt z => z | _ => 0 end.
Definition vdur (v : value) : Z := match v with VDur z => z | _ => 0 end.
Definition vstr (v : value) : list Z := match v with VStr s => s | _ => [] end.
Definition is_null (v : value) : bool := match v with VNull => true | _ => false end.

(* ---- function bodies ---- *)
Inductive cmpop := OLt | OLe | OGe | OGt.
Inductive body :=
| BCmp (op : cmpop) | BEq | BNe | BIsNull | BIsNotNull | BNot
| BAddInt | BSubInt | BNegInt | BMulInt | BDivInt | BAbsInt
| BAddDur | BSubDur | BNegDur | BMulDurInt | BMulIntDur | BDivDurInt
| BConcat | BLenStr
| BIntOfInt | BIntOfBool | BIntOfDur | BIntOfStr | BFloatOfFloat
(* a body modelled only by the kinds of value it may return ("returns some Float"): the value itself comes from
   [f], an oracle — in the differential run, the results the real body returned on this very case; in the
   theorems, ANY function.  The wrapper in apply_body enforces the kinds, so nothing is assumed about f. *)
| BAbstract (ks : list Z) (nargs : nat) (f : list value -> outcome value)   (* nargs: how many arguments the real body reads *)
| BUnmodelled.

Definition arg1 (vs : list value) (k : value -> outcome value) : outcome value :=
  match vs with a :: _ => k a | _ => Panic P_ARGS end.
Definition arg2 (vs : list value) (k : value -> value -> outcome value) : outcome value :=
  match vs with a :: b :: _ => k a b | _ => Panic P_ARGS end.

Definition cmp_holds (op : cmpop) (c : Z) : bool :=
  match op with OLt => c <? 0 | OLe => c <=? 0 | OGe => c >=? 0 | OGt => c >? 0 end.

(* strconv.ParseInt(s, 10, 64): optional sign, then one or more decimal digits, value within int64 *)
Fixpoint digits_val (acc : Z) (s : list Z) : option Z :=
  match s with
  | [] => Some acc
  | c :: r => if (48 <=? c) && (c <=? 57) then digits_val (acc * 10 + (c - 48)) r else None
  end.
Definition parse_int (s : list Z) : option Z :=
  match s with
  | [] => None
  | c :: r =>
      let neg := c =? 45 in
      let body := if (c =? 43) || (c =? 45) then r else s in
      match body with
      | [] => None
      | _ => match digits_val 0 body with
             | None => None
             | Some un => if neg then (if un >? two63 then None else Some (- un))
                          else (if un >=? two63 then None else Some un)
             end
      end
  end.

Definition apply_body (b : body) (vs : list value) : outcome value :=
  match b with
  | BCmp op => arg2 vs (fun x y => Ok (VBool (cmp_holds op (vcompare x y))))
  | BEq => arg2 vs (fun x y => Ok (VBool (vequal x y)))
  | BNe => arg2 vs (fun x y => Ok (VBool (negb (vequal x y))))
  | BIsNull => arg1 vs (fun x => Ok (VBool (is_null x)))
  | BIsNotNull => arg1 vs (fun x => Ok (VBool (negb (is_null x))))
  | BNot => arg1 vs (fun x => Ok (VBool (negb (vboolean x))))
  | BAddInt => arg2 vs (fun x y => Ok (VInt (wrap64 (vint x + vint y))))
  | BSubInt => arg2 vs (fun x y => Ok (VInt (wrap64 (vint x - vint y))))
  | BNegInt => arg1 vs (fun x => Ok (VInt (wrap64 (- vint x))))
  | BMulInt => arg2 vs (fun x y => Ok (VInt (wrap64 (vint x * vint y))))
  | BDivInt => arg2 vs (fun x y => if vint y =? 0 then Err E_FUNCTION else Ok (VInt (wrap64 (Z.quot (vint x) (vint y)))))
  | BAbsInt => arg1 vs (fun x => if vint x >? 0 then Ok x else Ok (VInt (wrap64 (vint x * -1))))
  | BAddDur => arg2 vs (fun x y => Ok (VDur (wrap64 (vdur x + vdur y))))
  | BSubDur => arg2 vs (fun x y => Ok (VDur (wrap64 (vdur x - vdur y))))
  | BNegDur => arg1 vs (fun x => Ok (VDur (wrap64 (- vdur x))))
  | BMulDurInt => arg2 vs (fun x y => Ok (VDur (wrap64 (vdur x * vint y))))
  | BMulIntDur => arg2 vs (fun x y => Ok (VDur (wrap64 (vdur y * vint x))))
  | BDivDurInt => arg2 vs (fun x y => if vint y =? 0 then Err E_FUNCTION else Ok (VDur (wrap64 (Z.quot (vdur x) (vint y)))))
  | BConcat => arg2 vs (fun x y => Ok (VStr (vstr x ++ vstr y)))
  | BLenStr => arg1 vs (fun x => Ok (VInt (Z.of_nat (length (vstr x)))))
  | BIntOfInt => arg1 vs (fun x => Ok x)
  | BIntOfBool => arg1 vs (fun x => Ok (VInt (if vboolean x then 1 else 0)))
  | BIntOfDur => arg1 vs (fun x => Ok (VInt (vdur x)))
  | BIntOfStr => arg1 vs (fun x => match parse_int (vstr x) with Some n => Ok (VInt n) | None => Ok VNull end)
  | BFloatOfFloat => arg1 vs (fun x => Ok x)
  | BAbstract ks nargs f =>
      if Nat.ltb (length vs) nargs then Panic P_ARGS else
      match f vs with
                      | Ok v => if kmem (tid v) ks then Ok v else Err E_ABSTRACT
                      | Err e => Err e
                      | Panic p => Panic p
                      end
  | BUnmodelled => Err E_NOT_MODELLED
  end.

(* which body a row of the generated descriptor table has: by name and declared argument types *)
Definition prim (k : Z) : sty := STSet [k].
Definition args_are (d : fdesc) (ts : list sty) : bool :=
  tfkind_eqb (fd_typefn d) TFNone && list_eqb sty_eqb (fd_args d) ts.
Definition name_is (d : fdesc) (s : string) : bool := String.eqb (fd_name d) s.

(* the behaviour of the abstractly modelled bodies: descriptor name, position, argument values -> result *)
Definition oracle : Type := string -> Z -> list value -> outcome value.
Definition no_oracle : oracle := fun _ _ _ => Err E_NOT_MODELLED.

Local Open Scope string_scope.
Definition body_of (orc : oracle) (d : fdesc) : body :=
  let n := name_is d in
  let ab := fun ks => BAbstract ks (length (fd_args d)) (orc (fd_name d) (fd_idx d)) in
  let abn := fun ks n => BAbstract ks n (orc (fd_name d) (fd_idx d)) in
  let fl := prim K_FLOAT in let tm := prim K_TIME in
  let ns := tfkind_eqb (fd_typefn d) TFNoScalar in
  let tf := tfkind_eqb (fd_typefn d) TFEq in
  let i := prim K_INT in let du := prim K_DUR in let s := prim K_STR in
  if n "<" && tf then BCmp OLt
  else if n "<=" && tf then BCmp OLe
  else if n ">=" && tf then BCmp OGe
  else if n ">" && tf then BCmp OGt
  else if n "=" && args_are d [STAny; STAny] then BEq
  else if n "!=" && args_are d [STAny; STAny] then BNe
  else if n "is null" && args_are d [STAny] then BIsNull
  else if n "is not null" && args_are d [STAny] then BIsNotNull
  else if n "not" && args_are d [prim K_BOOL] then BNot
  else if n "+" && args_are d [i; i] then BAddInt
  else if n "+" && args_are d [du; du] then BAddDur
  else if n "+" && args_are d [s; s] then BConcat
  else if n "-" && args_are d [i; i] then BSubInt
  else if n "-" && args_are d [i] then BNegInt
  else if n "-" && args_are d [du; du] then BSubDur
  else if n "-" && args_are d [du] then BNegDur
  else if n "*" && args_are d [i; i] then BMulInt
  else if n "*" && args_are d [du; i] then BMulDurInt
  else if n "*" && args_are d [i; du] then BMulIntDur
  else if n "/" && args_are d [i; i] then BDivInt
  else if n "/" && args_are d [du; i] then BDivDurInt
  else if n "abs" && args_are d [i] then BAbsInt
  else if n "len" && args_are d [s] then BLenStr
  else if n "int" && args_are d [i] then BIntOfInt
  else if n "int" && args_are d [prim K_BOOL] then BIntOfBool
  else if n "int" && args_are d [du] then BIntOfDur
  else if n "int" && args_are d [s] then BIntOfStr
  else if n "float" && args_are d [prim K_FLOAT] then BFloatOfFloat
  (* abstract bodies: result kinds only *)
  else if n "+" && args_are d [fl; fl] then ab [K_FLOAT]
  else if n "-" && args_are d [fl; fl] then ab [K_FLOAT]
  else if n "-" && args_are d [fl] then ab [K_FLOAT]
  else if n "*" && args_are d [fl; fl] then ab [K_FLOAT]
  else if n "/" && args_are d [fl; fl] then ab [K_FLOAT]
  else if n "/" && args_are d [du; du] then ab [K_FLOAT]
  else if n "+" && args_are d [tm; du] then ab [K_TIME]
  else if n "+" && args_are d [du; tm] then ab [K_TIME]
  else if n "-" && args_are d [tm; du] then ab [K_TIME]
  else if n "*" && args_are d [s; i] then ab [K_STR]
  else if n "*" && args_are d [i; s] then ab [K_STR]
  else if n "abs" && args_are d [fl] then ab [K_FLOAT]
  else if (n "sqrt" || n "ceil" || n "floor" || n "log" || n "log2" || n "log10") && args_are d [fl] then ab [K_FLOAT]
  else if n "pow" && args_are d [fl; fl] then ab [K_FLOAT]
  else if n "float" && args_are d [i] then ab [K_FLOAT]
  else if n "float" && args_are d [du] then ab [K_FLOAT]
  else if n "float" && args_are d [s] then ab [K_NULL; K_FLOAT]
  else if n "int" && args_are d [fl] then ab [K_INT]
  else if (n "like" || n "~" || n "~*") && args_are d [s; s] then ab [K_BOOL]
  else if (n "upper" || n "lower" || n "reverse") && args_are d [s] then ab [K_STR]
  else if n "replace" && args_are d [s; s; s] then ab [K_STR]
  else if n "substr" && args_are d [s; i] then ab [K_STR]
  else if n "substr" && args_are d [s; i; i] then ab [K_STR]
  else if n "position" && args_are d [s; s] then ab [K_NULL; K_INT]
  else if n "parse_time" && args_are d [s; s] then ab [K_NULL; K_TIME]
  else if n "string" && args_are d [STAny] then ab [K_STR]
  else if n "now" && args_are d [] then ab [K_TIME]
  else if n "time_from_unix" && args_are d [i] then ab [K_TIME]
  else if n "time_from_unix" && args_are d [fl] then ab [K_TIME]
  else if n "time_to_unix" && args_are d [tm] then ab [K_INT]
  else if n "panic" && args_are d [STAny] then ab []
  else if (n "in" || n "not in") && ns then abn [K_BOOL] 2%nat
  else if n "len" && ns then abn [K_INT] 1%nat
  else BUnmodelled.
Local Close Scope string_scope.

(* the kinds a body can return (None: it returns its first argument unchanged) *)
Definition body_result_kinds (b : body) : option (list Z) :=
  match b with
  | BCmp _ | BEq | BNe | BIsNull | BIsNotNull | BNot => Some [K_BOOL]
  | BAddInt | BSubInt | BNegInt | BMulInt | BDivInt | BAbsInt | BLenStr | BIntOfBool | BIntOfDur => Some [K_INT]
  | BAddDur | BSubDur | BNegDur | BMulDurInt | BMulIntDur | BDivDurInt => Some [K_DUR]
  | BConcat => Some [K_STR]
  | BIntOfStr => Some [K_NULL; K_INT]
  | BIntOfInt | BFloatOfFloat => None
  | BAbstract ks _ _ => Some ks
  | BUnmodelled => Some []
  end.

(* how many arguments a body reads (values[0], values[1]); with fewer it panics (index out of range) *)
Definition body_min_args (b : body) : nat :=
  match b with
  | BCmp _ | BEq | BNe | BAddInt | BSubInt | BMulInt | BDivInt | BAddDur | BSubDur | BMulDurInt | BMulIntDur
  | BDivDurInt | BConcat => 2
  | BUnmodelled => 0
  | BAbstract _ n _ => n
  | _ => 1
  end.

Definition body_modelled (b : body) : bool := match b with BUnmodelled => false | _ => true end.
Definition desc_modelled (d : fdesc) : bool := body_modelled (body_of no_oracle d).

(* ---- execution expressions ---- *)
Inductive eexpr : Type :=
| EConst (v : value)
| EVar (level index : nat)
| EAssert (ids : list Z) (e : eexpr)
| ECast (id : Z) (e : eexpr)
| ECall (b : body) (args : list eexpr) (null_idx : list nat)
| EAnd (args : list eexpr)
| EOr (args : list eexpr)
| ECoalesce (args : list eexpr).

(* variable context: frame 0 is the current record, frame k+1 its Parent *)
Definition vctx := list (list value).

Definition lookup_var (ctx : vctx) (level index : nat) : outcome value :=
  match nth_error ctx level with
  | None => Panic P_VAR
  | Some frame => match nth_error frame index with None => Panic P_VAR | Some v => Ok v end
  end.

(* for _, index := range nullCheckIndices { if argValues[index].TypeID == Null { return NULL } } *)
Fixpoint null_check (vs : list value) (idx : list nat) : outcome bool :=
  match idx with
  | [] => Ok false
  | i :: rest => match nth_error vs i with
                 | None => Panic P_ARGS
                 | Some v => if is_null v then Ok true else null_check vs rest
                 end
  end.

(* ObjectLayoutFixer.FixLayout with the empty mapping that scalar-typed arguments produce *)
Definition fix_layout_scalar (v : value) : outcome value :=
  match v with
  | VStruct _ => Panic P_LAYOUT
  | VList (_ :: _) => Panic P_LAYOUT
  | VTuple (_ :: _) => Panic P_LAYOUT
  | _ => Ok v
  end.

Section Loops.
  Variable ev : eexpr -> outcome value.

  Fixpoint evals (l : list eexpr) : outcome (list value) :=
    match l with
    | [] => Ok []
    | x :: xs => obind (ev x) (fun v => obind (evals xs) (fun vs => Ok (v :: vs)))
    end.

  (* And.Evaluate *)
  Fixpoint and_loop (l : list eexpr) (nullEncountered : bool) : outcome value :=
    match l with
    | [] => Ok (if nullEncountered then VNull else VBool true)
    | x :: xs =>
        obind (ev x) (fun v =>
          if is_null v then and_loop xs true                 (* nullEncountered = true; continue *)
          else if negb (vboolean v) then Ok v                (* return value, nil *)
          else and_loop xs nullEncountered)
    end.

  (* Or.Evaluate *)
  Fixpoint or_loop (l : list eexpr) (nullEncountered : bool) : outcome value :=
    match l with
    | [] => Ok (if nullEncountered then VNull else VBool false)
    | x :: xs =>
        obind (ev x) (fun v =>
          if vboolean v then Ok v
          else or_loop xs (if is_null v then true else nullEncountered))
    end.

  (* Coalesce.Evaluate *)
  Fixpoint coalesce_loop (l : list eexpr) : outcome value :=
    match l with
    | [] => Ok VNull
    | x :: xs => obind (ev x) (fun v => if negb (is_null v) then fix_layout_scalar v else coalesce_loop xs)
    end.
End Loops.

Fixpoint eval (ctx : vctx) (e : eexpr) {struct e} : outcome value :=
  match e with
  | EConst v => Ok v
  | EVar l i => lookup_var ctx l i
  | EAssert ids a => obind (eval ctx a) (fun v => if kmem (tid v) ids then Ok v else Err E_ASSERT)
  | ECast id a => obind (eval ctx a) (fun v => if negb (tid v =? id) then Ok VNull else Ok v)
  | ECall b args nidx =>
      obind (evals (eval ctx) args) (fun vs =>
        obind (null_check vs nidx) (fun hit =>
          if hit then Ok VNull
          else match apply_body b vs with
               | Ok v => Ok v
               | Err e => if e =? E_NOT_MODELLED then Err E_NOT_MODELLED else Err E_FUNCTION
               | Panic p => Panic p
               end))
  | EAnd args => and_loop (eval ctx) args false
  | EOr args => or_loop (eval ctx) args false
  | ECoalesce args => coalesce_loop (eval ctx) args
  end.

(* ---- physical expressions (typechecked; every node carries its static Type) ---- *)
Inductive pexpr : Type :=
| PConst (t : sty) (v : value)
| PVar (t : sty) (level index : nat)     (* the position Materialize resolves the unique name to *)
| PCall (t : sty) (d : fdesc) (args : list pexpr)
| PAnd (t : sty) (args : list pexpr)
| POr (t : sty) (args : list pexpr)
| PCoalesce (t : sty) (args : list pexpr)
| PAssert (t : sty) (target : sty) (e : pexpr)
| PCast (t : sty) (target : Z) (e : pexpr).

Definition ptype (e : pexpr) : sty :=
  match e with
  | PConst t _ | PVar t _ _ | PCall t _ _ | PAnd t _ | POr t _ | PCoalesce t _ | PAssert t _ _ | PCast t _ _ => t
  end.

(* nullCheckIndices: for i := range Arguments { if Null.Is(Arguments[i].Type) == Is { append i } }, Strict only *)
Fixpoint null_indices_from (i : nat) (ts : list sty) : list nat :=
  match ts with
  | [] => []
  | t :: rest => if allows_null t then i :: null_indices_from (S i) rest else null_indices_from (S i) rest
  end.
Definition null_check_indices (d : fdesc) (arg_types : list sty) : list nat :=
  if fd_strict d then null_indices_from 0 arg_types else [].

Definition K_ANY : Z := 11.
Definition expected_ids (target : sty) : list Z :=
  match target with STAny => [K_ANY] | STSet ks => ks end.

Fixpoint materialize (orc : oracle) (e : pexpr) : eexpr :=
  match e with
  | PConst _ v => EConst v
  | PVar _ l i => EVar l i
  | PCall _ d args => ECall (body_of orc d) (map (materialize orc) args) (null_check_indices d (map ptype args))
  | PAnd _ args => EAnd (map (materialize orc) args)
  | POr _ args => EOr (map (materialize orc) args)
  | PCoalesce _ args => ECoalesce (map (materialize orc) args)
  | PAssert _ target a => EAssert (expected_ids target) (materialize orc a)
  | PCast _ id a => ECast id (materialize orc a)
  end.

Definition peval (orc : oracle) (ctx : vctx) (e : pexpr) : outcome value := eval ctx (materialize orc e).
(* all arguments, left to right, stopping at the first failure (what FunctionCall.Evaluate does first) *)
Definition pevals (orc : oracle) (ctx : vctx) (args : list pexpr) : outcome (list value) := evals (eval ctx) (map (materialize orc) args).

(* every call in the expression uses a descriptor whose body is modelled *)
Fixpoint pmodelled (e : pexpr) : bool :=
  match e with
  | PConst _ _ | PVar _ _ _ => true
  | PCall _ d args => desc_modelled d && forallb pmodelled args
  | PAnd _ args | POr _ args | PCoalesce _ args => forallb pmodelled args
  | PAssert _ _ a | PCast _ _ a => pmodelled a
  end.

(* ---- Filter.Run: rows in order; a row is produced iff the predicate is Boolean TRUE; the first evaluation
   error ends the run with that error (rows already produced stay produced) ---- *)
Definition is_true (v : value) : bool := match v with VBool true => true | _ => false end.

Fixpoint filter_run (p : eexpr) (outer : vctx) (rows : list (list value)) : list (list value) * outcome unit :=
  match rows with
  | [] => ([], Ok tt)
  | r :: rest =>
      match eval (r :: outer) p with
      | Ok v => let '(out, res) := filter_run p outer rest in
                ((if is_true v then r :: out else out), res)
      | Err e => ([], Err e)
      | Panic s => ([], Panic s)
      end
  end.

(* ---- Kleene connectives (the specification side) ---- *)
Inductive tv := TT | FF | NN.
Definition tv_of (v : value) : option tv :=
  match v with VBool true => Some TT | VBool false => Some FF | VNull => Some NN | _ => None end.
Definition tv_val (t : tv) : value := match t with TT => VBool true | FF => VBool false | NN => VNull end.
Definition k_and (a b : tv) : tv :=
  match a, b with FF, _ | _, FF => FF | TT, TT => TT | _, _ => NN end.
Definition k_or (a b : tv) : tv :=
  match a, b with TT, _ | _, TT => TT | FF, FF => FF | _, _ => NN end.
Definition k_not (a : tv) : tv := match a with TT => FF | FF => TT | NN => NN end.
Definition kleene_and (l : list tv) : tv := fold_right k_and TT l.
Definition kleene_or (l : list tv) : tv := fold_right k_or FF l.

Definition is_tv (v : value) : bool := match tv_of v with Some _ => true | None => false end.
Definition to_tv (v : value) : tv := match tv_of v with Some t => t | None => NN end.

(* ---- lookups used by the generated cases ---- *)
Definition desc_eqb_key (n : string) (i : Z) (d : fdesc) : bool := String.eqb (fd_name d) n && (fd_idx d =? i).
Definition no_desc : fdesc := mk_fdesc ""%string (-1) [] STAny false TFOther false.
Definition find_desc (table : list fdesc) (n : string) (i : Z) : fdesc :=
  match find (desc_eqb_key n i) table with Some d => d | None => no_desc end.

(* comparison of outcomes as the harness projects them: value, error class, panic (any site) *)
Definition outcome_eqb (a b : outcome value) : bool :=
  match a, b with
  | Ok x, Ok y => value_eqb x y
  | Err x, Err y => x =? y
  | Panic _, Panic _ => true
  | _, _ => false
  end.

(* ---- the oracle of a differential case: the calls of abstractly modelled bodies the implementation made while
   evaluating this case (descriptor name, position, argument values, what the body returned) ---- *)
Definition call_rec : Type := (string * Z * list value * outcome value)%type.
Definition orc_of (calls : list call_rec) : oracle :=
  fun n i vs =>
    match find (fun c => let '(cn, ci, cvs, _) := c in String.eqb n cn && (i =? ci) && list_eqb value_eqb vs cvs) calls with
    | Some (_, _, _, r) => r
    | None => Err E_NOT_MODELLED
    end.
