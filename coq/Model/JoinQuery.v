(* Model/JoinQuery.v — query-level meaning of JOIN (C02): what parser.ParseJoinTableExpression / logical/join.go
   build (StreamJoin + Filter(ON), OuterJoin with the ON equalities as keys, LookupJoin + Filter(ON)), the
   relational reference they must agree with, and lookup_join.go.  Executable definitions only. *)
From Octo Require Export Joins.

Definition row := list value.

(* a table read as a batch: insert-only, no event time, then end of stream *)
Definition ins (v : row) : rec := mkrec v false zero_ns.
Definition batch (t : list row) : list msg := map (fun v => MRec (ins v)) t ++ [MClose].

(* ---- ON / WHERE conjuncts over the concatenated row (three-valued: None = NULL) ---- *)
Inductive cond :=
| CEq (i j : nat)            (* col_i = col_j *)
| CLt (i j : nat)            (* col_i < col_j *)
| CGtC (i : nat) (c : value) (* col_i > constant *)
| CNotNull (i : nat)         (* col_i IS NOT NULL *)
| CEqCat (i j k : nat).      (* col_i + col_j = col_k, `+` on strings (strict: NULL if an operand is NULL) *)

Definition col (i : nat) (x : row) : value := nth i x VNull.
Definition isnull (v : value) : bool := match v with VNull => true | _ => false end.

Definition eval_cond (c : cond) (x : row) : option bool :=
  match c with
  | CEq i j => if isnull (col i x) || isnull (col j x) then None else Some (vcompare (col i x) (col j x) =? 0)
  | CLt i j => if isnull (col i x) || isnull (col j x) then None else Some (vcompare (col i x) (col j x) =? -1)
  | CGtC i c => if isnull (col i x) || isnull c then None else Some (vcompare (col i x) c =? 1)
  | CNotNull i => Some (negb (isnull (col i x)))
  | CEqCat i j k =>
      match col i x, col j x, col k x with
      | VStr a, VStr b, VStr c => Some (vcompare (VStr (a ++ b)) (VStr c) =? 0)
      | _, _, _ => None
      end
  end.
(* a Filter keeps the rows on which its predicate is TRUE; a conjunction is TRUE iff every conjunct is *)
Definition holds (c : cond) (x : row) : bool := match eval_cond c x with Some true => true | _ => false end.
Definition all_hold (cs : list cond) (x : row) : bool := forallb (fun c => holds c x) cs.

(* ---- the relational reference ---- *)
Definition rel_inner (p : row -> bool) (L R : list row) : list row :=
  flat_map (fun l => map (app l) (filter (fun r => p (l ++ r)) R)) L.
Definition rel_left_pads (p : row -> bool) (nr : nat) (L R : list row) : list row :=
  flat_map (fun l => if existsb (fun r => p (l ++ r)) R then [] else [l ++ nulls nr]) L.
Definition rel_right_pads (p : row -> bool) (nl : nat) (L R : list row) : list row :=
  flat_map (fun r => if existsb (fun l => p (l ++ r)) L then [] else [nulls nl ++ r]) R.
(* kind: 0 inner, 1 left, 2 right, 3 full outer, 4 lookup (inner) *)
Definition rel_join (kind : Z) (p : row -> bool) (nl nr : nat) (L R : list row) : list row :=
  rel_inner p L R ++
  (if (kind =? 1) || (kind =? 3) then rel_left_pads p nr L R else []) ++
  (if (kind =? 2) || (kind =? 3) then rel_right_pads p nl L R else []).

Definition count_rows (rows : list row) (x : row) : Z := consolidate (map ins rows) x.

(* ---- LookupJoin.Run: the joined side is run once per source record, with that record in scope ---- *)
Section Lookup.
  Variable joined : rec -> list rec.
  Definition lookup_join (src : list rec) : list rec :=
    flat_map (fun s => map (fun j => mkrec (vals s ++ vals j)
                                           ((retr s || retr j) && negb (retr s && retr j)) (et s)) (joined s)) src.
End Lookup.

(* ---- differential cases: SELECT * FROM t0 x0 <join1> t1 x1 ON ... [<join2> t2 x2 ON ...] [WHERE ...] ---- *)
Record jstepq := mkjs { j_kind : Z; j_on : list cond; j_table : list row; j_arity : nat }.
Record c02_case := mkc02 {
  q_first : list row; q_arity : nat;
  q_joins : list jstepq;
  q_where : list cond;
  q_out : list rec;           (* observed rows, with the retraction flag the sink printed (stream_native) *)
  (* node-level part (empty for CLI cases): LookupJoin run in-process over a scripted source changelog and a scripted
     joined side (the same changelog for every source record), with retractions on both *)
  q_lsrc : list rec; q_ljoined : list rec; q_lout : list event;
  (* node-level part: StreamJoin / OuterJoin run in-process under a prescribed schedule (a case of Model/Joins.v) *)
  q_node : option c19_case
}.

Fixpoint run_joins (acc : list row) (n : nat) (js : list jstepq) : list row :=
  match js with
  | [] => acc
  | j :: js' => run_joins (rel_join (j_kind j) (all_hold (j_on j)) n (j_arity j) acc (j_table j)) (n + j_arity j) js'
  end.

Definition c02_expected (c : c02_case) : list row :=
  filter (all_hold (q_where c)) (run_joins (q_first c) (q_arity c) (q_joins c)).

Definition c02_spec (c : c02_case) : bool := bag_eqb (q_out c) (map ins (c02_expected c)).

(* LookupJoin on changelogs: exact emissions (tie) and the consolidated result (spec): every source record against every
   joined record, retracted iff exactly one of the two is a retraction *)
Definition c02_lookup_model (c : c02_case) : list rec := lookup_join (fun _ => q_ljoined c) (q_lsrc c).
Definition c02_lookup_tie (c : c02_case) : bool := events_eqb (map Rec (c02_lookup_model c)) (q_lout c).
Definition c02_lookup_spec (c : c02_case) : bool := bag_eqb (records (q_lout c)) (c02_lookup_model c).

(* StreamJoin / OuterJoin on changelogs with retractions and event times: exact emissions against the node model, and
   the relational oracle (join / outer join of the complete inputs at end of stream, of the records at or below W at
   every forwarded watermark) on the node's output *)
Definition c02_node_tie (c : c02_case) : bool := match q_node c with Some n => c19_tie n | None => true end.
Definition c02_node_spec (c : c02_case) : bool :=
  match q_node c with Some n => c19_spec_final n && c19_spec_at_wm n | None => true end.

(* ---- node level: the equalities of ON as join keys ---- *)
Fixpoint eq_conds (is js : list nat) : list cond :=
  match is, js with
  | i :: is', j :: js' => CEq i j :: eq_conds is' js'
  | _, _ => []
  end.

(* the pinned-tree witness: x JOIN y ON x.a = y.a with a NULL key on both sides *)
Definition wq_left : list row := [[VNull; VInt 100]].
Definition wq_right : list row := [[VNull; VInt 200]].
