(* Model/TVF.v — table_valued_functions/{max_diff_watermark,tumble,range,poll}.go.  Executable only.
   Instants are Z nanoseconds since the Unix epoch (Go's time.Time holds int64 *seconds* + nanoseconds, so
   Time.Add / Time.After / Time.Truncate are exact on every instant used here); UnixNano() wraps to int64
   and is written [unixnano]; Durations are int64.  Models follow the code after this round's `fix:`
   commits; the pinned behaviour is kept in the [*_pinned] variants for the refutation witnesses. *)
From Octo Require Export Changelog.

Definition panic_index : Z := 1.      (* record.Values[i] out of range *)
Definition panic_divzero : Z := 2.    (* integer divide by zero *)
Definition err_bad_argument : Z := 1. (* argument validation at the start of Run *)
Definition err_source : Z := 2.       (* the source returned an error *)
Definition err_fuel : Z := 9.

(* record.Values[idx].Time: the Time field of an octosql.Value that is not a Time is Go's zero Time *)
Definition time_at (idx : nat) (r : rec) : outcome (Z * Z) :=
  match nth_error (vals r) idx with
  | None => Panic panic_index
  | Some (VTime ns loc) => Ok (ns, loc)
  | Some _ => Ok (zero_ns, 0)
  end.
Definition has_time (idx : nat) (r : rec) : bool :=
  match nth_error (vals r) idx with Some (VTime _ _) => true | _ => false end.
(* only used under the guard [has_time] *)
Definition time_of (idx : nat) (r : rec) : Z :=
  match time_at idx r with Ok (t, _) => t | _ => zero_ns end.

Definition set_et (r : rec) (t : Z) : rec := mkrec (vals r) (retr r) t.

Definition unixnano (t : Z) : Z := wrap64 t.

(* ------------------------------------------------------------------------------------------------ *)
(* max_diff_watermark                                                                                 *)

(* pinned:  time.Unix(0, t.UnixNano()/int64(res)*int64(res))  — Go's / truncates toward zero *)
Definition round_pinned (res t : Z) : Z := wrap64 (wrap64 (Z.quot (unixnano t) res) * res).
(* fixed:   ns := t.UnixNano(); rem := ns % res; if rem < 0 { rem += res }; time.Unix(0, ns-rem) *)
Definition round_fixed (res t : Z) : Z :=
  let ns := unixnano t in
  let rem := Z.rem ns res in
  let rem' := if rem <? 0 then rem + res else rem in
  wrap64 (ns - rem').

Definition mdw_state : Type := Z * Z.            (* maxValue, curWatermark *)
Definition mdw_init : mdw_state := (zero_ns, zero_ns).

(* the produce / metaSend callbacks handed to the source *)
Definition mdw_step (rnd : Z -> outcome Z) (md : Z) (idx : nat) (st : mdw_state) (e : event)
  : outcome (mdw_state * list event) :=
  match e with
  | WM _ => Ok (st, [])                                         (* source watermarks are swallowed *)
  | Rec r =>
      obind (time_at idx r) (fun tl =>
        let t := fst tl in
        let o1 := if snd st <? t then [Rec (set_et r t)] else [] in      (* Time.After(curWatermark) *)
        obind (rnd t) (fun rounded =>
          if fst st <? rounded                                            (* rounded.After(maxValue) *)
          then let cur' := rounded + wrap64 (- md) in                     (* rounded.Add(-maxDifference) *)
               Ok ((rounded, cur'), o1 ++ [WM cur'])
          else Ok (st, o1)))
  end.

Fixpoint mdw_loop (rnd : Z -> outcome Z) (md : Z) (idx : nat) (st : mdw_state) (es : list event)
  : outcome (list event) :=
  match es with
  | [] => Ok []
  | e :: rest =>
      obind (mdw_step rnd md idx st e) (fun so =>
        obind (mdw_loop rnd md idx (fst so) rest) (fun o2 => Ok (snd so ++ o2)))
  end.

Definition mdw_run (md res : Z) (idx : nat) (inp : list event) : outcome (list event) :=
  if res <=? 0 then Err err_bad_argument
  else mdw_loop (fun t => Ok (round_fixed res t)) md idx mdw_init inp.

Definition mdw_run_pinned (md res : Z) (idx : nat) (inp : list event) : outcome (list event) :=
  mdw_loop (fun t => if res =? 0 then Panic panic_divzero else Ok (round_pinned res t)) md idx mdw_init inp.

(* ---- what the property says, written without the step function ---- *)
Definition floor_to (res t : Z) : Z := res * (t / res).       (* Coq's / on Z rounds down for res > 0 *)

Fixpoint run_max (cur : Z) (ts : list Z) : list Z :=
  match ts with [] => [] | t :: r => Z.max cur t :: run_max (Z.max cur t) r end.
Definition running_max (ts : list Z) : list Z :=
  match ts with [] => [] | t :: r => t :: run_max t r end.

Fixpoint increases (last : Z) (l : list Z) : list Z :=
  match l with [] => [] | x :: r => if last <? x then x :: increases x r else increases last r end.
(* the first element and every later one that is strictly above all before it *)
Definition strict_subseq (l : list Z) : list Z :=
  match l with [] => [] | x :: r => x :: increases x r end.

Definition mdw_wm_spec (md res : Z) (ts : list Z) : list Z :=
  strict_subseq (map (fun m => floor_to res m - md) (running_max ts)).

(* [mx] = largest time among the records that arrived before (None: no record yet, no watermark yet) *)
Fixpoint mdw_rec_spec (md res : Z) (idx : nat) (mx : option Z) (rs : list rec) : list rec :=
  match rs with
  | [] => []
  | r :: rest =>
      let t := time_of idx r in
      let keep := match mx with None => true | Some m => floor_to res m - md <? t end in
      (if keep then [set_et r t] else []) ++
      mdw_rec_spec md res idx (Some (match mx with None => t | Some m => Z.max m t end)) rest
  end.

Definition two62 : Z := 4611686018427387904.
Definition in_range62 (z : Z) : bool := (- two62 <? z) && (z <? two62).
Definition mdw_input_ok (idx : nat) (inp : list event) : bool :=
  forallb (fun r => has_time idx r && in_range62 (time_of idx r)) (records inp).
Definition mdw_args_ok (md res : Z) : bool := (0 <? res) && (res <? two62) && in_range62 md.

Definition recs_eqb : list rec -> list rec -> bool := list_eqb rec_eqb.
Definition zlist_eqb : list Z -> list Z -> bool := list_eqb Z.eqb.

(* observed outcome of an implementation run: 0 = returned nil, 1 = returned an error, 2 = panicked *)
Definition kind_of {A} (o : outcome A) : Z := match o with Ok _ => 0 | Err _ => 1 | Panic _ => 2 end.
Definition tie_outcome (m : outcome (list event)) (kind : Z) (out : list event) : bool :=
  match m with
  | Ok o => (kind =? 0) && events_eqb o out
  | Err _ => kind =? 1
  | Panic _ => kind =? 2
  end.

Definition c20_case : Type := Z * Z * nat * list event * Z * list event.   (* md, res, idx, input, kind, output *)
Definition c20_tie (c : c20_case) : bool :=
  let '(md, res, idx, inp, kind, out) := c in tie_outcome (mdw_run md res idx inp) kind out.
Definition c20_tie_pinned (c : c20_case) : bool :=
  let '(md, res, idx, inp, kind, out) := c in tie_outcome (mdw_run_pinned md res idx inp) kind out.
Definition c20_spec (c : c20_case) : bool :=
  let '(md, res, idx, inp, kind, out) := c in
  negb (kind =? 2) &&                                               (* never a crash *)
  (if res <=? 0 then kind =? 1                                      (* a resolution that cannot round is rejected *)
   else negb (mdw_args_ok md res && mdw_input_ok idx inp) ||
        ((kind =? 0) &&
         zlist_eqb (watermarks out) (mdw_wm_spec md res (map (time_of idx) (records inp))) &&
         recs_eqb (records out) (mdw_rec_spec md res idx None (records inp)))).

(* ------------------------------------------------------------------------------------------------ *)
(* tumble                                                                                             *)

(* Time.Truncate(d): rounds down to a multiple of d since the zero Time; d <= 0 returns t unchanged *)
Definition go_truncate (t d : Z) : Z := if d <=? 0 then t else t - (t - zero_ns) mod d.

Definition tumble_rec (len off : Z) (idx : nat) (r : rec) : outcome rec :=
  obind (time_at idx r) (fun tl =>
    let s := go_truncate (fst tl + wrap64 (-1 * off)) len + off in
    let e := s + len in
    Ok (mkrec (vals r ++ [VTime s (snd tl); VTime e (snd tl)]) (retr r) (et r))).

Fixpoint tumble_loop (len off : Z) (idx : nat) (es : list event) : outcome (list event) :=
  match es with
  | [] => Ok []
  | WM w :: rest => obind (tumble_loop len off idx rest) (fun o => Ok (WM w :: o))
  | Rec r :: rest =>
      obind (tumble_rec len off idx r) (fun r' =>
        obind (tumble_loop len off idx rest) (fun o => Ok (Rec r' :: o)))
  end.

Definition tumble_run (len off : Z) (idx : nat) (inp : list event) : outcome (list event) :=
  if len <=? 0 then Err err_bad_argument else tumble_loop len off idx inp.
Definition tumble_run_pinned (len off : Z) (idx : nat) (inp : list event) : outcome (list event) :=
  tumble_loop len off idx inp.

(* the property, read on one input event and the event emitted for it *)
Definition split_last2 (l : list value) : option (list value * value * value) :=
  match rev l with
  | e :: s :: front => Some (rev front, s, e)
  | _ => None
  end.
Definition values_eqb : list value -> list value -> bool := list_eqb value_eqb.

Definition tumble_event_ok (len off : Z) (idx : nat) (i o : event) : bool :=
  match i, o with
  | WM a, WM b => a =? b
  | Rec r, Rec r' =>
      match split_last2 (vals r') with
      | Some (front, VTime s _, VTime e _) =>
          let t := time_of idx r in
          values_eqb front (vals r) && Bool.eqb (retr r) (retr r') && (et r =? et r') &&
          (s <=? t) && (t <? e) && (e - s =? len) && ((s - off - zero_ns) mod len =? 0)
      | _ => false
      end
  | _, _ => false
  end.
Fixpoint forallb2 {A B} (f : A -> B -> bool) (a : list A) (b : list B) : bool :=
  match a, b with
  | [], [] => true
  | x :: xs, y :: ys => f x y && forallb2 f xs ys
  | _, _ => false
  end.

Definition tumble_args_ok (len off : Z) : bool := (0 <? len) && (len <? two62) && in_range62 off.

(* ------------------------------------------------------------------------------------------------ *)
(* range                                                                                              *)

Definition range_rec (i : Z) : event := Rec (mkrec [VInt i] false zero_ns).

(* for i := start; i < end; i++ *)
Fixpoint range_loop (fuel : nat) (i e : Z) : outcome (list event) :=
  match fuel with
  | O => Err err_fuel
  | S f => if i <? e then obind (range_loop f (wrap64 (i + 1)) e) (fun o => Ok (range_rec i :: o)) else Ok []
  end.
Definition range_run (a b : Z) : outcome (list event) := range_loop (S (Z.to_nat (b - a))) a b.

Fixpoint zseq (a : Z) (n : nat) : list Z := match n with O => [] | S n' => a :: zseq (a + 1) n' end.
Definition int_values (es : list event) : option (list Z) :=
  fold_right (fun e acc => match e, acc with
                           | Rec (mkrec [VInt i] false t), Some l => if t =? zero_ns then Some (i :: l) else None
                           | _, _ => None end) (Some []) es.

(* ------------------------------------------------------------------------------------------------ *)
(* poll over an abstract clock: [now k] is what the k-th call of time.Now() returns                  *)

Definition stamp (n loc : Z) (row : list value) : list value := VTime n loc :: row.

Section Poll.
  Variable now : nat -> Z.
  Variable nowloc : Z.
  (* pinned: the retractions of the previous snapshot carry event time lastNow; fixed: now *)
  Variable retract_time : Z -> Z -> Z.     (* lastNow -> now -> event time of the retractions *)

  Definition poll_src_event (n : Z) (e : event) : event * list (list value) :=
    match e with
    | Rec r => (Rec (mkrec (stamp n nowloc (vals r)) false n), [stamp n nowloc (vals r)])   (* NewRecord(values, false, now) *)
    | WM w => (WM w, [])                                                                    (* metaSend passed through *)
    end.

  (* srcs: what each successive run of the source emits; after the last one the source fails,
     which is the only way poll ever returns *)
  Fixpoint poll_rounds (k : nat) (last_now : Z) (last_vals : list (list value)) (srcs : list (list event))
    : list event :=
    let n := now k in
    let retractions :=
      if last_now =? zero_ns then []                                   (* !lastNow.IsZero() *)
      else map (fun v => Rec (mkrec v true (retract_time last_now n))) last_vals in
    match srcs with
    | [] => retractions
    | s :: rest =>
        let pe := map (poll_src_event n) s in
        retractions ++ map fst pe ++ [WM n] ++ poll_rounds (S k) n (flat_map snd pe) rest
    end.
End Poll.

Definition poll_run (now : nat -> Z) (nowloc : Z) (srcs : list (list event)) : list event :=
  poll_rounds now nowloc (fun _ n => n) 0 zero_ns [] srcs.
Definition poll_run_pinned (now : nat -> Z) (nowloc : Z) (srcs : list (list event)) : list event :=
  poll_rounds now nowloc (fun l _ => l) 0 zero_ns [] srcs.

(* the documented shape of round k (k >= 0) for snapshots given as rows *)
Definition poll_round_spec (now : nat -> Z) (nowloc : Z) (k : nat) (prev cur : list (list value)) : list event :=
  (match k with
   | O => []
   | S k' => map (fun row => Rec (mkrec (stamp (now k') nowloc row) true (now k))) prev
   end) ++
  map (fun row => Rec (mkrec (stamp (now k) nowloc row) false (now k))) cur ++ [WM (now k)].

Fixpoint poll_spec_from (now : nat -> Z) (nowloc : Z) (k : nat) (prev : list (list value)) (snaps : list (list (list value)))
  : list event :=
  match snaps with
  | [] => match k with
          | O => []
          | S k' => map (fun row => Rec (mkrec (stamp (now k') nowloc row) true (now k))) prev
          end
  | cur :: rest => poll_round_spec now nowloc k prev cur ++ poll_spec_from now nowloc (S k) cur rest
  end.

Definition rows_as_events (rows : list (list value)) : list event := map (fun v => Rec (mkrec v false zero_ns)) rows.
Definition clock_of (nows : list Z) : nat -> Z := fun k => nth k nows 0.    (* cases carry one instant per round and one more *)
Fixpoint strictly_increasing_from (last : Z) (l : list Z) : bool :=
  match l with [] => true | x :: r => (last <? x) && strictly_increasing_from x r end.

(* ------------------------------------------------------------------------------------------------ *)
(* C21 cases                                                                                          *)
Inductive c21_case :=
| CTumble (len off : Z) (idx : nat) (inp : list event) (kind : Z) (out : list event)
| CRange (a b : Z) (kind : Z) (out : list event)
| CPoll (nows : list Z) (srcs : list (list event)) (kind : Z) (out : list event).

Definition c21_tie (c : c21_case) : bool :=
  match c with
  | CTumble len off idx inp kind out => tie_outcome (tumble_run len off idx inp) kind out
  | CRange a b kind out => tie_outcome (range_run a b) kind out
  | CPoll nows srcs kind out =>
      (* poll returns the source's error of round |srcs| *)
      (kind =? 1) && (Z.of_nat (length nows) =? Z.of_nat (S (length srcs))) &&
      events_eqb (poll_run (clock_of nows) 0 srcs) out
  end.
Definition c21_tie_pinned (c : c21_case) : bool :=
  match c with
  | CTumble len off idx inp kind out => tie_outcome (tumble_run_pinned len off idx inp) kind out
  | CRange a b kind out => tie_outcome (range_run a b) kind out
  | CPoll nows srcs kind out =>
      (kind =? 1) && events_eqb (poll_run_pinned (clock_of nows) 0 srcs) out
  end.

Definition src_rows (s : list event) : list (list value) := map vals (records s).
Definition no_wms (s : list event) : bool := match watermarks s with [] => true | _ => false end.

Definition c21_spec (c : c21_case) : bool :=
  match c with
  | CTumble len off idx inp kind out =>
      negb (kind =? 2) &&
      (if len <=? 0 then kind =? 1                       (* a window length that cannot contain its records is rejected *)
       else negb (tumble_args_ok len off && mdw_input_ok idx inp) ||
            ((kind =? 0) && forallb2 (tumble_event_ok len off idx) inp out))
  | CRange a b kind out =>
      (kind =? 0) &&
      match int_values out with
      | Some l => zlist_eqb l (zseq a (Z.to_nat (b - a)))
      | None => false
      end
  | CPoll nows srcs kind out =>
      negb (kind =? 2) &&
      (negb (forallb no_wms srcs && strictly_increasing_from zero_ns nows) ||
       events_eqb out (poll_spec_from (clock_of nows) 0 0 [] (map src_rows srcs)))
  end.
