(* Model/ExprDeepTypes.v — octosql types WITH element / field / alternative types, and the judgement "value v
   matches type t" all the way down (what `--describe` promises about a column): used by the c08 engine's oracle
   for structured values (objects, lists, tuples).  Executable definitions only.
   Field names are dropped: a Struct value is positional, it matches a Struct type when it has exactly as many
   fields and each field value matches the field's type.  A List type without element type (the type of the empty
   list literal) is matched only by the empty list. *)
From Octo Require Export Values.

Inductive dty : Type :=
| DNull | DInt | DFloat | DBool | DStr | DTime | DDur
| DList (elem : option dty)
| DStruct (fields : list dty)
| DTuple (elems : list dty)
| DUnion (alts : list dty)
| DAny.

Fixpoint conforms (t : dty) (v : value) {struct t} : bool :=
  let all2 := fix all2 (ts : list dty) (vs : list value) {struct ts} : bool :=
    match ts, vs with
    | [], [] => true
    | t1 :: ts', v1 :: vs' => conforms t1 v1 && all2 ts' vs'
    | _, _ => false
    end in
  let any := fix any (ts : list dty) {struct ts} : bool :=
    match ts with
    | [] => false
    | t1 :: ts' => conforms t1 v || any ts'
    end in
  match t, v with
  | DAny, _ => true
  | DUnion alts, _ => any alts
  | DNull, VNull => true
  | DInt, VInt _ => true
  | DFloat, VFloat _ => true
  | DBool, VBool _ => true
  | DStr, VStr _ => true
  | DTime, VTime _ _ => true
  | DDur, VDur _ => true
  | DList None, VList l => match l with [] => true | _ => false end
  | DList (Some e), VList l => forallb (conforms e) l
  | DStruct fs, VStruct vs => all2 fs vs
  | DTuple es, VTuple vs => all2 es vs
  | _, _ => false
  end.

