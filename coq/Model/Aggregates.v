(* Model/Aggregates.v — aggregates/{count,sum,average,min,max,array,distinct,table}.go and the
   nodes.Aggregate interface (Add(retraction, value) / Trigger()).  Executable definitions only.
   Every aggregate is (init, add : st -> bool(retraction) -> value -> st, trig : st -> outcome value);
   Trigger on a state the code cannot serve is a Go panic, kept as a value (Panic site). *)
From Coq Require Floats.SpecFloat.
From Octo Require Export Values.

Record agg : Type := mkagg {
  st : Type;
  init : st;
  add : st -> bool -> value -> st;
  trig : st -> outcome value
}.

Definition hist : Type := list (bool * value).       (* (retraction, value) in arrival order *)

Definition run (W : agg) (h : hist) : st W :=
  fold_left (fun s e => add W s (fst e) (snd e)) h (init W).

(* Trigger() called after every Add *)
Fixpoint obs_from (W : agg) (s : st W) (h : hist) : list (outcome value) :=
  match h with
  | [] => []
  | e :: t => let s' := add W s (fst e) (snd e) in trig W s' :: obs_from W s' t
  end.
Definition run_obs (W : agg) (h : hist) : list (outcome value) := obs_from W (init W) h.

Definition panic_nil_assert : Z := 1.   (* type assertion on the nil item that Min()/Max() return for an empty tree: interface conversion of nil *)
Definition panic_div_zero : Z := 2.     (* integer divide by zero *)

(* octosql.Value is a struct with one field per kind; reading the field of another kind yields its zero value *)
Definition int_of (v : value) : Z := match v with VInt z => z | _ => 0 end.
Definition dur_of (v : value) : Z := match v with VDur z => z | _ => 0 end.
Definition float_of (v : value) : Z := match v with VFloat b => b | _ => 0 end.   (* bits of +0.0 *)

(* ---- float64 arithmetic on bit patterns, through Coq.Floats.SpecFloat (binary64: prec 53, emax 1024) ---- *)
Definition two52 : Z := 4503599627370496.

Definition fl_dec (bits : Z) : SpecFloat.spec_float :=
  let b := bits mod two64 in
  let s := two63 <=? b in
  let e := (b / two52) mod 2048 in
  let m := b mod two52 in
  if e =? 0 then match m with Zpos p => SpecFloat.S754_finite s p (-1074) | _ => SpecFloat.S754_zero s end
  else if e =? 2047 then (if m =? 0 then SpecFloat.S754_infinity s else SpecFloat.S754_nan)
  else match m + two52 with
       | Zpos p => SpecFloat.S754_finite s p (e - 1075)
       | _ => SpecFloat.S754_nan      (* not reachable: m + 2^52 > 0 *)
       end.

(* every NaN is encoded as the canonical one; observations are compared modulo NaN payload (obs_eqb) *)
Definition fl_enc (x : SpecFloat.spec_float) : Z :=
  match x with
  | SpecFloat.S754_zero s => if s then two63 else 0
  | SpecFloat.S754_infinity s => (if s then two63 else 0) + f_inf_mag
  | SpecFloat.S754_nan => f_canon_nan
  | SpecFloat.S754_finite s m e =>
      (if s then two63 else 0) +
      (if Zpos m <? two52 then Zpos m else (e + 1075) * two52 + (Zpos m - two52))
  end.

Definition fl_add (a b : Z) : Z := fl_enc (SpecFloat.SFadd 53 1024 (fl_dec a) (fl_dec b)).
Definition fl_sub (a b : Z) : Z := fl_enc (SpecFloat.SFsub 53 1024 (fl_dec a) (fl_dec b)).
Definition fl_div (a b : Z) : Z := fl_enc (SpecFloat.SFdiv 53 1024 (fl_dec a) (fl_dec b)).
Definition fl_of_int (z : Z) : Z := fl_enc (SpecFloat.binary_normalize 53 1024 z 0 false).   (* float64(int64) *)

Definition fl_finite (bits : Z) : bool :=
  match fl_dec bits with SpecFloat.S754_zero _ | SpecFloat.S754_finite _ _ _ => true | _ => false end.
(* the exact value of a finite float, in units of 2^-1074 (an integer); +0 and -0 are 0 *)
Definition fl_units (bits : Z) : Z :=
  match fl_dec bits with
  | SpecFloat.S754_finite s m e => (if s then -1 else 1) * (Zpos m * 2 ^ (e + 1074))
  | _ => 0
  end.

(* ---- count.go ---- *)
Definition Count : agg :=
  mkagg Z 0 (fun c r _ => wrap64 (if r then c - 1 else c + 1)) (fun c => Ok (VInt c)).

(* ---- sum.go: the three Sum* types are one algorithm over three carriers ---- *)
Definition SumG {G : Type} (gadd gsub : G -> G -> G) (g0 : G) (f : value -> G) (mk : G -> value) : agg :=
  mkagg G g0 (fun s r v => if r then gsub s (f v) else gadd s (f v)) (fun s => Ok (mk s)).

Definition add64 (a b : Z) : Z := wrap64 (a + b).
Definition sub64 (a b : Z) : Z := wrap64 (a - b).

Definition SumInt : agg := SumG add64 sub64 0 int_of VInt.
Definition SumDur : agg := SumG add64 sub64 0 dur_of VDur.
Definition SumFloat : agg := SumG fl_add fl_sub 0 float_of VFloat.
(* the same algorithm over exact integers (used for the exact statement about float sums) *)
Definition SumExact (f : value -> Z) : agg := SumG Z.add Z.sub 0 f VInt.

(* ---- average.go: a Sum* and a Count side by side; Trigger divides ---- *)
Definition AvgG {G : Type} (gadd gsub : G -> G -> G) (g0 : G) (f : value -> G)
                (divide : G -> Z -> outcome value) : agg :=
  mkagg (G * Z) (g0, 0)
        (fun s r v => (if r then gsub (fst s) (f v) else gadd (fst s) (f v), add Count (snd s) r v))
        (fun s => divide (fst s) (snd s)).

(* Go's int64 / truncates toward zero, panics on a zero divisor and wraps for MinInt64 / -1 *)
Definition div64 (mk : Z -> value) (s c : Z) : outcome value :=
  if c =? 0 then Panic panic_div_zero else Ok (mk (wrap64 (Z.quot s c))).
Definition divf (s c : Z) : outcome value := Ok (VFloat (fl_div s (fl_of_int c))).

Definition AvgInt : agg := AvgG add64 sub64 0 int_of (div64 VInt).
Definition AvgDur : agg := AvgG add64 sub64 0 dur_of (div64 VDur).
Definition AvgFloat : agg := AvgG fl_add fl_sub 0 float_of divf.

(* ---- min.go / max.go / array.go: google/btree of (value, count) items ordered by
   Less(a, b) := a.Compare(b) == -1, abstracted as an association list kept sorted under that Less,
   "equal" meaning neither is less.  One pass = Get, ReplaceOrInsert of a fresh item with count 0 when
   absent, the in-place count update through the item pointer, Delete when the count reaches 0.
   The stored key is the first value of its Compare-class that was inserted.  Counts are Go ints
   (never near 2^63 for any history that fits in memory). *)
Definition vless (a b : value) : bool := vcompare a b =? -1.
Definition delta (r : bool) : Z := if r then -1 else 1.

Fixpoint tree_add (t : list (value * Z)) (r : bool) (v : value) : list (value * Z) :=
  match t with
  | [] => [(v, delta r)]
  | (k, c) :: rest =>
      if vless k v then (k, c) :: tree_add rest r v
      else if vless v k then (v, delta r) :: (k, c) :: rest
      else let c' := c + delta r in if c' =? 0 then rest else (k, c') :: rest
  end.

Fixpoint last_key (t : list (value * Z)) : option value :=
  match t with
  | [] => None
  | [(k, _)] => Some k
  | _ :: rest => last_key rest
  end.

(* for i := 0; i < count; i++ { append } over Ascend *)
Fixpoint expand (t : list (value * Z)) : list value :=
  match t with
  | [] => []
  | (k, c) :: rest => repeat k (Z.to_nat c) ++ expand rest
  end.

Definition Min : agg :=
  mkagg (list (value * Z)) [] tree_add
        (fun t => match t with [] => Panic panic_nil_assert | (k, _) :: _ => Ok k end).
Definition Max : agg :=
  mkagg (list (value * Z)) [] tree_add
        (fun t => match last_key t with None => Panic panic_nil_assert | Some k => Ok k end).
Definition Array : agg :=
  mkagg (list (value * Z)) [] tree_add (fun t => Ok (VList (expand t))).

(* ---- distinct.go: zyedidia hashmap value -> pointer to distinctKey{count}, abstracted as an association list
   searched by "same hash and Compare == 0" (iteration order is never used by the code) ---- *)
(* (the conjunction is written with [if] so that evaluation hashes only Compare-equal keys) *)
Definition hm_same (k v : value) : bool := if vcompare k v =? 0 then vhash k =? vhash v else false.

(* One Add on the map, in one pass = Get (Put of a fresh distinctKey{0} when absent), the count update through
   the stored pointer, Remove at 0; and what is forwarded to the wrapped aggregate:
     if item.count == 1 && !retraction { wrapped.Add(false, value) }
     else if item.count == 0           { items.Remove(value); if retraction { wrapped.Add(true, value) } }
   [guard] = false is the code before the fix (the inner `if retraction` absent): an addition that cancels an
   earlier out-of-order retraction (count -1 -> 0) forwarded a retraction the wrapped aggregate never saw. *)
Definition dist_entry (guard : bool) (k : value) (c1 : Z) (r : bool) (v : value) (rest : list (value * Z))
  : list (value * Z) * option (bool * value) :=
  if (c1 =? 1) && negb r then ((k, c1) :: rest, Some (false, v))
  else if c1 =? 0 then (rest, if r || negb guard then Some (true, v) else None)
  else ((k, c1) :: rest, None).

Fixpoint dist_upd (guard : bool) (m : list (value * Z)) (r : bool) (v : value)
  : list (value * Z) * option (bool * value) :=
  match m with
  | [] => dist_entry guard v (delta r) r v []
  | (k, c) :: rest =>
      if hm_same k v then dist_entry guard k (c + delta r) r v rest
      else let '(rest', fw) := dist_upd guard rest r v in ((k, c) :: rest', fw)
  end.
Definition dist_step : list (value * Z) -> bool -> value -> list (value * Z) * option (bool * value) :=
  dist_upd true.

Definition DistinctG (guard : bool) (W : agg) : agg :=
  mkagg (list (value * Z) * st W) ([], init W)
        (fun s r v => let '(m', fw) := dist_upd guard (fst s) r v in
                      (m', match fw with Some e => add W (snd s) (fst e) (snd e) | None => snd s end))
        (fun s => trig W (snd s)).
Definition Distinct : agg -> agg := DistinctG true.
Definition Distinct_pinned : agg -> agg := DistinctG false.

(* ---- table.go: the prototypes behind aggregates.Aggregates ---- *)
Inductive agg_kind : Type :=
| KCount | KSumInt | KSumFloat | KSumDur | KAvgInt | KAvgFloat | KAvgDur | KMin | KMax | KArray
| KDistinct (k : agg_kind).

Fixpoint agg_of (k : agg_kind) : agg :=
  match k with
  | KCount => Count | KSumInt => SumInt | KSumFloat => SumFloat | KSumDur => SumDur
  | KAvgInt => AvgInt | KAvgFloat => AvgFloat | KAvgDur => AvgDur
  | KMin => Min | KMax => Max | KArray => Array
  | KDistinct k' => Distinct (agg_of k')
  end.

(* ================= the specification side: the net multiset and aggregates computed from scratch ======== *)

Definition veq (a b : value) : bool := vcompare a b =? 0.       (* same Compare-class *)

(* number of elements of l in the class of v *)
Fixpoint ccount (l : list value) (v : value) : Z :=
  match l with [] => 0 | x :: xs => (if veq x v then 1 else 0) + ccount xs v end.
(* signed multiplicity of the class of v after the history *)
Fixpoint net (h : hist) (v : value) : Z :=
  match h with [] => 0 | (r, x) :: t => (if veq x v then delta r else 0) + net t v end.

(* a list of values represents the net multiset of a history *)
Definition represents (l : list value) (h : hist) : Prop := forall v, ccount l v = net h v.
(* W reports, after every history — any interleaving of additions and retractions, retractions may come before
   the additions they cancel — whose net multiset is a non-empty multiset, a value satisfying [spec] of every
   list that represents that multiset.  ([represents l h] forces every class of h to have net >= 0.) *)
Definition agg_correct (W : agg) (spec : list value -> outcome value -> Prop) : Prop :=
  forall h l, represents l h -> l <> [] -> spec l (trig W (run W h)).

(* executable: the members present and the retractions still owed (classes whose net is negative) *)
Fixpoint remove_class (l : list value) (v : value) : option (list value) :=
  match l with
  | [] => None
  | x :: xs => if veq x v then Some xs
               else match remove_class xs v with Some xs' => Some (x :: xs') | None => None end
  end.
Definition netl_step (s : list value * list value) (e : bool * value) : list value * list value :=
  let '(l, d) := s in
  if fst e
  then match remove_class l (snd e) with Some l' => (l', d) | None => (l, d ++ [snd e]) end
  else match remove_class d (snd e) with Some d' => (l, d') | None => (l ++ [snd e], d) end.
Definition netl (h : hist) : list value * list value := fold_left netl_step h ([], []).

(* one representative per Compare-class: the support of the multiset *)
Fixpoint vnub (l : list value) : list value :=
  match l with
  | [] => []
  | x :: xs => x :: filter (fun y => negb (veq x y)) (vnub xs)
  end.
Definition support_of (l' l : list value) : Prop :=
  forall v, ccount l' v = if 0 <? ccount l v then 1 else 0.

Fixpoint lsum (f : value -> Z) (l : list value) : Z :=
  match l with [] => 0 | x :: xs => f x + lsum f xs end.
Fixpoint hsum (f : value -> Z) (h : hist) : Z :=
  match h with [] => 0 | (r, x) :: t => delta r * f x + hsum f t end.
Definition zlen (l : list value) : Z := Z.of_nat (length l).

(* from-scratch aggregates of a non-empty list *)
Definition scr_count (l : list value) : outcome value := Ok (VInt (wrap64 (zlen l))).
Definition scr_sum (f : value -> Z) (mk : Z -> value) (l : list value) : outcome value :=
  Ok (mk (wrap64 (lsum f l))).
Definition scr_avg (f : value -> Z) (mk : Z -> value) (l : list value) : outcome value :=
  Ok (mk (Z.quot (wrap64 (lsum f l)) (zlen l))).         (* truncation toward zero *)

Definition is_least (m : value) (l : list value) : bool :=
  existsb (fun x => veq m x) l && forallb (fun x => vcompare m x <=? 0) l.
Definition is_greatest (m : value) (l : list value) : bool :=
  existsb (fun x => veq m x) l && forallb (fun x => vcompare x m <=? 0) l.
Fixpoint sortedb (l : list value) : bool :=
  match l with
  | [] => true
  | x :: xs => match xs with [] => true | y :: _ => (vcompare x y <=? 0) && sortedb xs end
  end.
(* e is the ascending expansion of l: sorted, and every class has the same multiplicity *)
Definition is_sorted_expansion (e l : list value) : bool :=
  sortedb e && forallb (fun v => ccount e v =? ccount l v) (e ++ l).

Definition outcome_eqb (a b : outcome value) : bool :=
  match a, b with
  | Ok x, Ok y => value_eqb x y
  | Err x, Err y => x =? y
  | Panic x, Panic y => x =? y
  | _, _ => false
  end.

(* ---- float sums: compared with the exact sum within a rounding-error bound ----
   n operations of relative error 2^-53 on partial sums bounded by A = sum of |x| over the whole history:
   |computed - exact| <= n 2^-53 A (1 + o(1)); the oracle allows (n + 3) 2^-52 A. *)
Definition fl_max_units : Z := (2 ^ 53 - 1) * 2 ^ 2045.        (* MaxFloat64 in units of 2^-1074 *)
Definition fl_overflow_units : Z := (2 ^ 54 - 1) * 2 ^ 2044.   (* MaxFloat64 + half an ulp: from here on a sum rounds to Inf *)
Definition is_inf (bits : Z) (neg : bool) : bool :=
  (f_mag bits =? f_inf_mag) && Bool.eqb (f_neg bits) neg.

Definition float_list_finite (l : list value) : bool := forallb (fun v => fl_finite (float_of v)) l.
Definition has_nan (l : list value) : bool := existsb (fun v => f_is_nan (float_of v)) l.
Definition has_inf (l : list value) (neg : bool) : bool := existsb (fun v => is_inf (float_of v) neg) l.

(* what IEEE addition yields on a list with non-finite members, whatever the order *)
Definition nonfinite_sum_ok (l : list value) (o : Z) : bool :=
  if has_nan l || (has_inf l false && has_inf l true) then f_is_nan o
  else if has_inf l false then is_inf o false else is_inf o true.

(* obs is the computed sum (times cnt = the number of summands when obs is an average) *)
Definition float_close (n A S cnt : Z) (o : Z) : bool :=
  let tol := (n + 3) * A + cnt * 2 ^ 52 in
  if fl_finite o then Z.abs (fl_units o * cnt - S) * 2 ^ 52 <=? tol
  else if f_is_nan o then false
  else (* +-Inf is right only when the exact sum itself rounds to it *)
       (fl_overflow_units <=? Z.abs S) && Bool.eqb (f_neg o) (S <? 0).

Definition scr_sum_float_ok (n A : Z) (l : list value) (o : outcome value) : bool :=
  match o with
  | Ok (VFloat b) =>
      if float_list_finite l then float_close n A (lsum (fun v => fl_units (float_of v)) l) 1 b
      else nonfinite_sum_ok l b
  | _ => false
  end.
Definition scr_avg_float_ok (n A : Z) (l : list value) (o : outcome value) : bool :=
  match o with
  | Ok (VFloat b) =>
      if float_list_finite l then float_close n A (lsum (fun v => fl_units (float_of v)) l) (zlen l) b
      else nonfinite_sum_ok l b
  | _ => false
  end.

(* the oracle: does [o] equal the aggregate [k] of the non-empty list [l] computed from scratch?
   n = number of Adds so far, A = sum of |x| over them (only used by the float sums) *)
Fixpoint scratch_ok (k : agg_kind) (n A : Z) (l : list value) (o : outcome value) : bool :=
  match k with
  | KCount => outcome_eqb o (scr_count l)
  | KSumInt => outcome_eqb o (scr_sum int_of VInt l)
  | KSumDur => outcome_eqb o (scr_sum dur_of VDur l)
  | KAvgInt => outcome_eqb o (scr_avg int_of VInt l)
  | KAvgDur => outcome_eqb o (scr_avg dur_of VDur l)
  | KSumFloat => scr_sum_float_ok n A l o
  | KAvgFloat => scr_avg_float_ok n A l o
  | KMin => match o with Ok m => is_least m l | _ => false end
  | KMax => match o with Ok m => is_greatest m l | _ => false end
  | KArray => match o with Ok (VList e) => is_sorted_expansion e l | _ => false end
  | KDistinct k' => scratch_ok k' n A (vnub l) o
  end.

Fixpoint float_free (k : agg_kind) : bool :=
  match k with KSumFloat | KAvgFloat => false | KDistinct k' => float_free k' | _ => true end.

(* ---- one differential case: (aggregate, history, Trigger() observed after every Add) ---- *)
Definition c14_case : Type := agg_kind * hist * list (outcome value).

(* observations are compared structurally, floats by bit pattern except that all NaNs are one
   (the payload a hardware addition propagates is not modelled by SpecFloat) *)
Fixpoint obs_value_eqb (a b : value) {struct a} : bool :=
  match a, b with
  | VFloat x, VFloat y => (x =? y) || (f_is_nan x && f_is_nan y)
  | VList la, VList lb => list_eqb obs_value_eqb la lb
  | VStruct la, VStruct lb => list_eqb obs_value_eqb la lb
  | VTuple la, VTuple lb => list_eqb obs_value_eqb la lb
  | _, _ => value_eqb a b
  end.
Definition obs_eqb (a b : outcome value) : bool :=
  match a, b with
  | Ok x, Ok y => obs_value_eqb x y
  | Err x, Err y => x =? y
  | Panic x, Panic y => x =? y
  | _, _ => false
  end.

Definition c14_tie (c : c14_case) : bool :=
  let '(k, h, obs) := c in list_eqb obs_eqb (run_obs (agg_of k) h) obs.

Definition abs_units (v : value) : Z :=
  match v with VFloat b => if fl_finite b then Z.abs (fl_units b) else 0 | _ => 0 end.

(* after every Add that leaves a net multiset with no negative class and at least one member, the observed
   value must be the aggregate of that multiset computed from scratch (all interleavings are in scope) *)
Fixpoint spec_from (k : agg_kind) (n A : Z) (s : list value * list value) (h : hist) (obs : list (outcome value)) : bool :=
  match h, obs with
  | [], [] => true
  | e :: t, o :: os =>
      let s' := netl_step s e in
      let n' := n + 1 in
      let A' := A + abs_units (snd e) in
      (match s' with
       | (x :: l', []) => scratch_ok k n' A' (x :: l') o
       | _ => true
       end) && spec_from k n' A' s' t os
  | _, _ => false
  end.
Definition c14_spec (c : c14_case) : bool :=
  let '(k, h, obs) := c in spec_from k 0 0 ([], []) h obs.
