(* Model/ExprTcCases.v — case format, tie functions and oracles of the c08 engine.  Executable only. *)
From Octo Require Export ExprTc.
From Octo Require Export ExprCases.
From Octo Require Export ExprDeepTypes.

(* column types, the logical expression, what the REAL typechecker produced (as pexpr) or that it panicked,
   evaluations: (variable frames, the calls of abstractly modelled bodies made during this evaluation with their
   results, observed outcome) *)
Inductive c08_case :=
| C8 (env : list sty) (le : option lexpr) (tc_obs : tcres pexpr) (runs : list (vctx * list call_rec * outcome value))
(* query slice: the schema a typechecked plan reports (what --describe shows), as kind sets, and the records
   the materialised plan produced *)
| C8Q (schema : list sty) (rows : list (list value))
(* structured-value slice: the static type (with element / field types) the real typechecker reported for an
   object / list / tuple valued expression, and the values it evaluated to on conforming rows *)
| C8S (t : dty) (observed : list value).

(* correspondence 1: the typechecker model produces the physical expression the implementation produced
   (same shape, same descriptor, same static type at every node; types compared as kind sets) *)
Definition c08_tie_tc (c : c08_case) : bool :=
  match c with
  | C8 env (Some le) tc_obs _ => tcres_eqb (tc type_inter_aliasing function_table env le) tc_obs
  | C8 _ None _ _ => true
  | C8Q _ _ => true
  | C8S _ _ => true
  end.

(* correspondence 2: the evaluation model agrees on every run *)
Definition c08_tie_eval (c : c08_case) : bool :=
  match c with
  | C8 _ _ (TcOk pe) runs => forallb (fun r => let '(ctx, calls, obs) := r in tie_outcome (peval (orc_of calls) ctx pe) obs) runs
  | _ => true
  end.

(* correspondence 3: what the real typechecker produced passes the local well-typedness check the soundness
   theorem is proved from (claimed only for expressions all of whose calls have modelled bodies) *)
Definition c08_tie_pwt (c : c08_case) : bool :=
  match c with
  | C8 env _ (TcOk pe) _ => if pmodelled pe && forallb sty_scalar env then pwt env pe else true
  | _ => true
  end.

(* oracle: on a conforming row, the observed value is allowed by the static type the typechecker reported *)
Definition c08_spec_type (c : c08_case) : bool :=
  match c with
  | C8 env _ (TcOk pe) runs =>
      forallb (fun r => let '(ctx, _, obs) := r in
                        if ctx_conforms ctx env
                        then match obs with Ok v => has_type v (ptype pe) | _ => true end
                        else true) runs
  | C8Q schema rows => forallb (fun r => row_conforms r schema) rows
  | C8S t vs => forallb (conforms t) vs
  | _ => true
  end.
