(* Model/LimitOrder.v — which of the three LIMIT / ORDER BY implementations runs (cmd/root.go's output switch,
   physical/nodes.go Materialize of NodeTypeOrderSensitiveTransform), what ends up printed, and the executable
   oracles of property C05.  Executable definitions only.  The three implementations themselves
   (run_limit, run_ost, run_printer) are in Model/Operators.v. *)
From Octo Require Export Operators.

(* live_table prints the same final frame as batch_table (its intermediate frames are timing dependent
   and not part of the property) *)
Inductive out_mode := BatchTable | Csv | Json | StreamNative.

Definition is_nil {A} (l : list A) : bool := match l with [] => true | _ => false end.

(* csv / json / stream_native at top level, and every nested use (subquery, WITH):
     if len(orderBy) > 0 || (limit != nil && !NoRetractions) -> OrderSensitiveTransform
     else if limit != nil                                    -> Limit
   the eager and stream printers then write record.Values of every record they receive. *)
Definition eager_choice (ks : okeys) (limit : option Z) (noretr : bool) (inp : list event) : outcome (list event) :=
  if negb (is_nil ks) || (match limit with Some _ => negb noretr | None => false end)
  then run_ost ks limit noretr inp
  else match limit with Some n => Ok (run_limit n inp) | None => Ok inp end.

(* live_table / batch_table at top level: negative limit is an error; a Limit node is put below the printer
   when there is no ORDER BY and no retraction is possible ("we want short-circuiting"); the printer gets
   keys, limit and NoRetractions and limits again at print time. *)
Definition table_choice (ks : okeys) (limit : option Z) (noretr : bool) (inp : list event) : outcome (list row) :=
  match limit with
  | Some n =>
      if n <? 0 then Err 1
      else run_printer ks limit noretr (if is_nil ks && noretr then run_limit n inp else inp)
  | None => run_printer ks None noretr inp
  end.

(* nested: the OrderSensitiveTransform plan node is materialised by the eager rule and its schema says
   NoRetractions; the enclosing query has no ORDER BY / LIMIT of its own. *)
Definition printed (mode : out_mode) (nested : bool) (ks : okeys) (limit : option Z) (noretr : bool)
           (inp : list event) : outcome (list row) :=
  if nested then
    obind (eager_choice ks limit noretr inp) (fun inner =>
      match mode with
      | BatchTable => run_printer [] None true inner
      | _ => Ok (rows_of inner)
      end)
  else match mode with
       | BatchTable => table_choice ks limit noretr inp
       | _ => obind (eager_choice ks limit noretr inp) (fun out => Ok (rows_of out))
       end.

(* the pinned tree: Limit without the zero guard, produceOrderByItems counting items *)
Definition eager_choice_pinned (ks : okeys) (limit : option Z) (noretr : bool) (inp : list event) : outcome (list event) :=
  if negb (is_nil ks) || (match limit with Some _ => negb noretr | None => false end)
  then run_ost_pinned ks limit noretr inp
  else match limit with Some n => Ok (run_limit_pinned n inp) | None => Ok inp end.

(* ---- executable oracles ---- *)
Definition sub_bagb (out rows : list row) : bool := forallb (fun x => count_rows out x <=? count_rows rows x) out.
Definition is_limit_ofb (n : Z) (rows out : list row) : bool :=
  sub_bagb out rows && (Z.of_nat (length out) =? Z.min n (Z.of_nat (length rows))).
Fixpoint remove_one (x : row) (l : list row) : list row :=
  match l with
  | [] => []
  | y :: ys => if row_eqb y x then ys else y :: remove_one x ys
  end.
Definition bag_minus (rows out : list row) : list row := fold_left (fun acc x => remove_one x acc) out rows.
(* every printed row sorts at or before every row left out *)
Definition boundary_ok (ks : okeys) (rows out : list row) : bool :=
  let rest := bag_minus rows out in forallb (fun a => forallb (fun b => key_le ks a b) rest) out.
Definition is_top_nb (ks : okeys) (n : Z) (rows out : list row) : bool :=
  is_limit_ofb n rows out && sorted_by ks out && boundary_ok ks rows out.
(* the same without the order of printing (a nested ORDER BY does not order the enclosing query's output) *)
Definition is_top_n_setb (ks : okeys) (n : Z) (rows out : list row) : bool :=
  is_limit_ofb n rows out && boundary_ok ks rows out.

(* ---- the differential cases of engine c05 ---- *)
Inductive c05_case :=
| InProc (c : c15_case)        (* one implementation, in-process, exact events *)
| Cli (mode : out_mode) (nested : bool) (noretr : bool) (ks : list (bool * expr)) (n : Z) (src_rows : list row) (ob : observation)
                               (* the built CLI: SELECT ... FROM S [ORDER BY ks] LIMIT n, where the source S is a JSON file
                                  (noretr = true) or a GROUP BY ... TRIGGER COUNTING k over it (noretr = false: it retracts);
                                  src_rows = the final bag of S *)
| CliLimitOf (n : Z) (ref_rows : list row) (ob : observation)
                               (* the built CLI: Q LIMIT n against Q itself (run without the LIMIT) for queries Q that are
                                  not modelled here (an end-of-stream flushing GROUP BY above an inner LIMIT ...) *)
| Cli2 (mode : out_mode) (iks : list (bool * expr)) (ilimit : option Z) (oks : list (bool * expr)) (n : Z)
       (file_rows : list row) (ob : observation)
                               (* SELECT .. FROM (SELECT .. FROM f [ORDER BY iks] [LIMIT m]) t [ORDER BY oks] LIMIT n:
                                  LIMIT and ORDER BY on both sides of a subquery boundary *)
| CliBag (expected : list row) (ob : observation).
                               (* a query whose result bag the harness computes itself (a LIMIT subquery on the right of a
                                  LOOKUP JOIN: it is run again for every left row) *)

Definition c05_tie (c : c05_case) : bool :=
  match c with
  | InProc c' => c15_tie c'
  | Cli mode nested noretr ks n rows ob =>
      (* with ORDER BY, or when the source retracts, the printed list depends on the bag only (sorted by keys, then
         values); a retraction-free source without ORDER BY is printed in arrival order = the file's order *)
      forallb (fun k => forallb (fun x => expr_ok (length x) (snd k)) rows) ks &&
      obs_eqb (obs_of_rows (printed mode nested (okeys_of ks) (Some n) noretr (map (fun x => Rec (ins x)) rows))) ob
  | CliLimitOf _ _ _ => true
  | Cli2 mode iks ilimit oks n rows ob =>
      (* the subquery is materialised by the nested rule (its result never retracts), the outer query by the top-level rule *)
      forallb (fun k => forallb (fun x => expr_ok (length x) (snd k)) rows) (iks ++ oks) &&
      obs_eqb (obs_of_rows (obind (eager_choice (okeys_of iks) ilimit true (map (fun x => Rec (ins x)) rows))
                                  (fun mid => printed mode false (okeys_of oks) (Some n) true mid))) ob
  | CliBag _ _ => true
  end.

Definition c05_spec (c : c05_case) : bool :=
  match c with
  | InProc (arity, nd, inp, ob) =>
      negb (valid_changelog (records inp)) ||
      let rows := expand (records inp) in
      match nd, ob with
      | NLimit n, ObsEvents out => (n <? 0) || negb (insert_only (records inp)) || is_limit_ofb n rows (rows_of out)
      (* a LIMIT above other nodes (e.g. above an ORDER BY of a subquery): when what is below has a batch meaning that
         is a plain bag and emits insertions only, the output is a limit of that bag *)
      | NPipe a (NLimit n), ObsEvents out =>
          (n <? 0) ||
          match batch_of a rows, run_node a inp with
          | Some l, ObsEvents mid =>
              negb (insert_only l) || negb (insert_only (records mid)) || is_limit_ofb n (map vals l) (rows_of out)
          | _, _ => true
          end
      | NPipe a (NOst ks (Some n) noretr), ObsEvents out =>
          match batch_of a rows, run_node a inp with
          | Some l, ObsEvents mid =>
              negb (insert_only l) || (noretr && negb (insert_only (records mid))) || negb (valid_changelog (records mid)) ||
              (insert_only (records out) && is_top_nb (okeys_of ks) n (map vals l) (rows_of out))
          | _, _ => true
          end
      | NOst ks (Some n) noretr, ObsEvents out =>
          (noretr && negb (insert_only (records inp))) ||
          (insert_only (records out) && is_top_nb (okeys_of ks) n rows (rows_of out))
      | NOst ks (Some n) _, ObsErr => n <? 0
      | NPrinter ks (Some n) noretr, ObsRows out =>
          (n <? 0) || (noretr && negb (insert_only (records inp))) || is_top_nb (okeys_of ks) n rows out
      (* any other node or pipeline the engine runs: the oracle of C15 *)
      | _, _ => c15_spec (arity, nd, inp, ob)
      end
  | Cli mode nested _ ks n rows ob =>
      match ob with
      | ObsRows out =>
          (n <? 0) ||
          if nested && (match mode with BatchTable => true | _ => false end)
          then is_top_n_setb (okeys_of ks) n rows out
          else is_top_nb (okeys_of ks) n rows out
      | _ => false
      end
  | CliLimitOf n ref ob =>
      match ob with
      | ObsRows out => (n <? 0) || is_limit_ofb n ref out
      | _ => false
      end
  | Cli2 mode iks ilimit oks n rows ob =>
      match ob with
      | ObsRows out =>
          let m := match ilimit with Some m => Z.min n m | None => n end in
          let table := match mode with BatchTable => true | _ => false end in
          (n <? 0) || (match ilimit with Some m => m <? 0 | None => false end) ||
          (is_limit_ofb m rows out &&
           (* an outer ORDER BY over the whole subquery result: the first n of it *)
           (match oks, ilimit with
            | _ :: _, None => is_top_nb (okeys_of oks) n rows out
            | _, _ => true
            end) &&
           (* an outer LIMIT alone over an ordered subquery takes the first rows of that order *)
           (match oks, iks with
            | [], _ :: _ => if table then is_top_n_setb (okeys_of iks) m rows out else is_top_nb (okeys_of iks) m rows out
            | _, _ => true
            end))
      | _ => false
      end
  | CliBag expected ob =>
      match ob with
      | ObsRows out => bag_eqb (map ins out) (map ins expected)
      | _ => false
      end
  end.
