(* Model/Concurrency.v — the channel protocols of query execution as labelled transition systems.
   Executable definitions only (no proofs).  Every LTS is a pair
       enabled : params -> state -> list label        step : params -> state -> label -> option state
   and is parametric in the number of workers, the number of lines/messages, the batch size and every
   channel capacity.  One atomic step = one Go channel operation (or one local decision that picks the
   next channel operation); a Go `select` with several ready cases is several enabled labels.

   (a) JSON datasource: datasources/json/execution.go (reader goroutine, consumer select loop, token
       channel, done channel, deferred cancel) and datasources/json/workers.go (global parser pool).
   (b) StreamJoin / OuterJoin: execution/nodes/stream_join.go, outer_join.go (two producer goroutines
       sending into bounded channels WITHOUT a ctx.Done() escape, the two-phase receive loop, early return).

   What is NOT in this file: memory accesses.  A data race is not a property of these systems. *)
From Octo Require Import Base.
Open Scope nat_scope.

Definition nn (z : Z) : nat := Z.to_nat z.   (* case files are written under Z_scope *)

(* ------------------------------------------------------------------------------------------------ *)
(* (a) JSON                                                                                         *)
(* ------------------------------------------------------------------------------------------------ *)

(* A parse job = the batch of lines [start, start+size). *)
Definition job : Type := (nat * nat)%type.
Definition jstart (j : job) : nat := fst j.
Definition jsize (j : job) : nat := snd j.

Record jparams := mkjparams {
  jp_w : nat;            (* workers in the global pool: runtime.GOMAXPROCS(0) at package init *)
  jp_n : nat;            (* lines the scanner returns before sc.Scan() is false *)
  jp_b : nat;            (* batchSize: 64, or 1 with tail=true *)
  jp_cj : nat;           (* cap(parserWorkReceiveChannel) *)
  jp_ct : nat;           (* cap(outChanAvailableTokens) *)
  jp_co : nat;           (* cap(outChan) *)
  jp_rerr : bool;        (* sc.Err() != nil when the scan loop ends (e.g. a line above MaxLineSizeBytes) *)
  jp_bad : list nat;     (* line numbers whose parse fails (out.err != nil) *)
  jp_plimit : option nat (* Some k: the produce call number k (0-based) returns an error (LIMIT, downstream error) *)
}.

(* The hypotheses of every theorem: at least one worker, buffered channels, and the token channel is
   not larger than outChan ("filling up the token channel is equivalent to filling up the output channel"). *)
Definition jvalid (p : jparams) : Prop :=
  1 <= jp_w p /\ 1 <= jp_b p /\ 1 <= jp_cj p /\ 1 <= jp_ct p /\ jp_ct p <= jp_co p.
Definition jvalidb (p : jparams) : bool :=
  (1 <=? jp_w p) && (1 <=? jp_b p) && (1 <=? jp_cj p) && (1 <=? jp_ct p) && (jp_ct p <=? jp_co p).

(* reader goroutine: program counter *)
Inductive rpc :=
| RScan                 (* at `for sc.Scan()` *)
| RSelect (fin : bool)  (* at `select { case tokens <- {}: ... case <-localCtx.Done(): return }`; fin = the batch after the loop *)
| REnq (fin : bool)     (* token acquired, at `parserWorkReceiveChannel <- job` (no ctx escape here) *)
| RSendDone             (* at `done <- sc.Err()` *)
| RExit.

(* consumer (the goroutine that called Run): program counter *)
Inductive cpc :=
| CSel                  (* at the select of produceLoop *)
| CTok (j : job)        (* received outJobs, at `<-outChanAvailableTokens` *)
| CProc (perr : bool)   (* inside `for i := range outJobs`; perr = this batch contains a line with out.err *)
| CRet.                 (* returned; the deferred cancel() has run *)

Record jreader := mkreader { r_left : nat; r_cur : nat; r_pc : rpc; r_lread : nat; r_err : bool }.
Record jpool := mkpool { q_tokens : nat; q_jobs : list job; q_busy : list job; q_out : list job; q_done : option bool }.
Record jcons := mkcons { c_pc : cpc; c_dseen : bool; c_recvl : nat; c_unprod : nat; c_plim : option nat; c_ext : bool }.
Record jstate := mkjstate { j_r : jreader; j_q : jpool; j_c : jcons }.

(* r_err   the scan loop ended because the file was closed under the reader (Run returned: defer f.Close())
   r_left  lines not yet scanned            r_cur   len(job.lines) of the batch being filled
   r_lread linesRead                        q_tokens len(outChanAvailableTokens)
   q_jobs  contents of parserWorkReceiveChannel (FIFO)      q_busy jobs held by workers (taken, not yet sent)
   q_out   contents of outChan (FIFO)       q_done  contents of the done channel (cap 1): Some (err != nil)
   c_dseen fileReaderIsDone                 c_recvl lines of the batches received and processed without error
   c_unprod lines inserted into the reorder queue and not yet produced (the queue abstracted to a count)
   c_plim  produce calls left before the failing one        c_ext the caller's ctx is cancelled *)

Definition jinit (p : jparams) : jstate :=
  mkjstate (mkreader (jp_n p) 0 RScan 0 false) (mkpool 0 [] [] [] None) (mkcons CSel false 0 0 (jp_plimit p) false).

Definition is_cret (c : cpc) : bool := match c with CRet => true | _ => false end.
(* localCtx.Done() is closed: the caller's ctx was cancelled or Run returned (defer cancel()) *)
Definition jcancelled (s : jstate) : bool := c_ext (j_c s) || is_cret (c_pc (j_c s)).

Inductive jlabel :=
| JScan | JScanTrunc | JEof | JEofClosed | JTok | JRCancel | JEnq | JDone          (* reader *)
| JTake (id : nat) | JSend (id : nat) | JDrop (id : nat)               (* workers; id = first line of the job *)
| JRecv (id : nat) | JTokRel | JProduce | JProduceErr | JParseErr | JProcEnd | JRecvDone | JCtx   (* consumer *)
| JExt.                                                                (* environment: the caller cancels ctx *)

(* remove the first job with the given start line *)
Fixpoint take_job (id : nat) (l : list job) : option (job * list job) :=
  match l with
  | [] => None
  | j :: r => if jstart j =? id then Some (j, r)
              else match take_job id r with Some (x, r') => Some (x, j :: r') | None => None end
  end.

(* offset inside the batch of the first line whose parse fails *)
Definition job_err (bad : list nat) (j : job) : option nat :=
  fold_right (fun l acc =>
    if (jstart j <=? l) && (l <? jstart j + jsize j)
    then Some (match acc with Some e => Nat.min e (l - jstart j) | None => l - jstart j end)
    else acc) None bad.

Definition lines (l : list job) : nat := list_sum (map jsize l).

(* The consumer's exit test `fileReaderIsDone && startIndex == linesRead`.  startIndex (records produced)
   is abstracted: after a batch has been processed without error, startIndex == linesRead holds exactly
   when every enqueued line has been received, because the reorder queue releases a contiguous prefix
   (that fact about the queue is C23's, not proved here). *)
Definition exit_test (dseen : bool) (recvl lread : nat) : bool := dseen && (recvl =? lread).

Definition jstep (p : jparams) (s : jstate) (l : jlabel) : option jstate :=
  let r := j_r s in let q := j_q s in let c := j_c s in
  match l with
  (* ---- reader ---- *)
  | JScan =>
      match r_pc r, r_left r, r_err r with
      | RScan, S k, false =>
          let cur' := S (r_cur r) in
          Some (mkjstate (mkreader k cur' (if cur' =? jp_b p then RSelect false else RScan) (r_lread r) false) q c)
      | _, _, _ => None
      end
  | JScanTrunc =>
      (* Run has returned and closed the file: the read fails and bufio.Scanner hands out what it has buffered
         of the current line as a last (truncated) token before Scan becomes false.  At most once. *)
      match r_pc r, c_pc c, r_err r with
      | RScan, CRet, false =>
          let cur' := S (r_cur r) in
          Some (mkjstate (mkreader (r_left r) cur' (if cur' =? jp_b p then RSelect false else RScan) (r_lread r) true) q c)
      | _, _, _ => None
      end
  | JEof =>
      match r_pc r, r_left r, r_err r with
      | RScan, O, false => Some (mkjstate (mkreader 0 (r_cur r) (if 0 <? r_cur r then RSelect true else RSendDone) (r_lread r) (r_err r)) q c)
      | _, _, _ => None
      end
  | JEofClosed =>
      (* Run has returned and its deferred f.Close() has run: the next read of the scanner fails
         ("file already closed"), the scan loop ends with sc.Err() != nil although lines may be left *)
      match r_pc r, c_pc c with
      | RScan, CRet => Some (mkjstate (mkreader (r_left r) (r_cur r) (if 0 <? r_cur r then RSelect true else RSendDone) (r_lread r) true) q c)
      | _, _ => None
      end
  | JTok =>
      match r_pc r with
      | RSelect f => if q_tokens q <? jp_ct p
                     then Some (mkjstate (mkreader (r_left r) (r_cur r) (REnq f) (r_lread r) (r_err r))
                                         (mkpool (S (q_tokens q)) (q_jobs q) (q_busy q) (q_out q) (q_done q)) c)
                     else None
      | _ => None
      end
  | JRCancel =>
      match r_pc r with
      | RSelect f => if jcancelled s then Some (mkjstate (mkreader (r_left r) (r_cur r) RExit (r_lread r) (r_err r)) q c) else None
      | _ => None
      end
  | JEnq =>
      match r_pc r with
      | REnq f => if length (q_jobs q) <? jp_cj p
                  then Some (mkjstate (mkreader (r_left r) 0 (if f then RSendDone else RScan) (r_lread r + r_cur r) (r_err r))
                                      (mkpool (q_tokens q) (q_jobs q ++ [(r_lread r, r_cur r)]) (q_busy q) (q_out q) (q_done q)) c)
                  else None
      | _ => None
      end
  | JDone =>
      match r_pc r, q_done q with
      | RSendDone, None => Some (mkjstate (mkreader (r_left r) (r_cur r) RExit (r_lread r) (r_err r))
                                          (mkpool (q_tokens q) (q_jobs q) (q_busy q) (q_out q) (Some (jp_rerr p || r_err r))) c)
      | _, _ => None
      end
  (* ---- workers ---- *)
  | JTake id =>
      (* Go channels are FIFO; the LTS lets a worker take ANY queued job (and the consumer receive any
         queued result): a superset of the real schedules, so the theorems cover the FIFO ones, and a log
         in which two workers record their takes in the opposite order of the takes themselves is accepted *)
      match take_job id (q_jobs q) with
      | Some (j, js) => if length (q_busy q) <? jp_w p
                        then Some (mkjstate r (mkpool (q_tokens q) js (j :: q_busy q) (q_out q) (q_done q)) c)
                        else None
      | None => None
      end
  | JSend id =>
      match take_job id (q_busy q) with
      | Some (j, rest) => if length (q_out q) <? jp_co p
                          then Some (mkjstate r (mkpool (q_tokens q) (q_jobs q) rest (q_out q ++ [j]) (q_done q)) c)
                          else None
      | None => None
      end
  | JDrop id =>
      match take_job id (q_busy q) with
      | Some (j, rest) => if jcancelled s
                          then Some (mkjstate r (mkpool (q_tokens q) (q_jobs q) rest (q_out q) (q_done q)) c)
                          else None
      | None => None
      end
  (* ---- consumer ---- *)
  | JRecv id =>
      match c_pc c, take_job id (q_out q) with
      | CSel, Some (j, o) => Some (mkjstate r (mkpool (q_tokens q) (q_jobs q) (q_busy q) o (q_done q))
                                            (mkcons (CTok j) (c_dseen c) (c_recvl c) (c_unprod c) (c_plim c) (c_ext c)))
      | _, _ => None
      end
  | JTokRel =>
      match c_pc c, q_tokens q with
      | CTok j, S t =>
          let q' := mkpool t (q_jobs q) (q_busy q) (q_out q) (q_done q) in
          match job_err (jp_bad p) j with
          | None => Some (mkjstate r q' (mkcons (CProc false) (c_dseen c) (c_recvl c + jsize j) (c_unprod c + jsize j) (c_plim c) (c_ext c)))
          | Some e => Some (mkjstate r q' (mkcons (CProc true) (c_dseen c) (c_recvl c) (c_unprod c + e) (c_plim c) (c_ext c)))
          end
      | _, _ => None
      end
  | JProduce =>
      match c_pc c, c_unprod c with
      | CProc e, S u =>
          match c_plim c with
          | Some O => None
          | Some (S k) => Some (mkjstate r q (mkcons (CProc e) (c_dseen c) (c_recvl c) u (Some k) (c_ext c)))
          | None => Some (mkjstate r q (mkcons (CProc e) (c_dseen c) (c_recvl c) u None (c_ext c)))
          end
      | _, _ => None
      end
  | JProduceErr =>
      match c_pc c, c_unprod c, c_plim c with
      | CProc e, S u, Some O => Some (mkjstate r q (mkcons CRet (c_dseen c) (c_recvl c) (c_unprod c) (c_plim c) (c_ext c)))
      | _, _, _ => None
      end
  | JParseErr =>
      match c_pc c with
      | CProc true => Some (mkjstate r q (mkcons CRet (c_dseen c) (c_recvl c) (c_unprod c) (c_plim c) (c_ext c)))
      | _ => None
      end
  | JProcEnd =>
      match c_pc c with
      | CProc false => Some (mkjstate r q (mkcons (if exit_test (c_dseen c) (c_recvl c) (r_lread r) then CRet else CSel)
                                                  (c_dseen c) (c_recvl c) (c_unprod c) (c_plim c) (c_ext c)))
      | _ => None
      end
  | JRecvDone =>
      match c_pc c, q_done q with
      | CSel, Some e =>
          let q' := mkpool (q_tokens q) (q_jobs q) (q_busy q) (q_out q) None in
          if e then Some (mkjstate r q' (mkcons CRet (c_dseen c) (c_recvl c) (c_unprod c) (c_plim c) (c_ext c)))
          else Some (mkjstate r q' (mkcons (if exit_test true (c_recvl c) (r_lread r) then CRet else CSel)
                                           true (c_recvl c) (c_unprod c) (c_plim c) (c_ext c)))
      | _, _ => None
      end
  | JCtx =>
      match c_pc c with
      | CSel => if c_ext c then Some (mkjstate r q (mkcons CRet (c_dseen c) (c_recvl c) (c_unprod c) (c_plim c) true)) else None
      | _ => None
      end
  | JExt =>
      if c_ext c then None
      else Some (mkjstate r q (mkcons (c_pc c) (c_dseen c) (c_recvl c) (c_unprod c) (c_plim c) true))
  end.

Definition jdefined (p : jparams) (s : jstate) (l : jlabel) : bool :=
  match jstep p s l with Some _ => true | None => false end.

Definition jcandidates (s : jstate) : list jlabel :=
  [JScan; JScanTrunc; JEof; JEofClosed; JTok; JRCancel; JEnq; JDone; JTokRel; JProduce; JProduceErr; JParseErr; JProcEnd; JRecvDone; JCtx; JExt]
  ++ map JSend (map jstart (q_busy (j_q s))) ++ map JDrop (map jstart (q_busy (j_q s)))
  ++ map JTake (map jstart (q_jobs (j_q s))) ++ map JRecv (map jstart (q_out (j_q s))).

Definition jenabled (p : jparams) (s : jstate) : list jlabel := filter (jdefined p s) (jcandidates s).

(* who moves *)
Definition is_consumer_label (l : jlabel) : bool :=
  match l with JRecv _ | JTokRel | JProduce | JProduceErr | JParseErr | JProcEnd | JRecvDone | JCtx => true | _ => false end.
Definition is_worker_label (l : jlabel) : bool := match l with JTake _ | JSend _ | JDrop _ => true | _ => false end.
Definition is_env_label (l : jlabel) : bool := match l with JExt => true | _ => false end.

(* final: Run has returned, the reader goroutine has exited, no job is queued or held by a worker
   (the workers themselves never exit: they serve the next query) *)
Definition jfinalb (s : jstate) : bool :=
  is_cret (c_pc (j_c s)) && (match r_pc (j_r s) with RExit => true | _ => false end)
  && (match q_jobs (j_q s) with [] => true | _ => false end) && (match q_busy (j_q s) with [] => true | _ => false end).

Fixpoint jrun (p : jparams) (s : jstate) (tr : list jlabel) : option jstate :=
  match tr with
  | [] => Some s
  | l :: tr' => match jstep p s l with Some s' => jrun p s' tr' | None => None end
  end.

Definition jtrace_accepts (p : jparams) (tr : list jlabel) : bool :=
  match jrun p (jinit p) tr with Some s => jfinalb s | None => false end.

(* index of the first label of a trace that is not enabled (for the replay file), or its length *)
Fixpoint jfirst_reject (p : jparams) (s : jstate) (tr : list jlabel) (i : nat) : nat :=
  match tr with
  | [] => i
  | l :: tr' => match jstep p s l with Some s' => jfirst_reject p s' tr' (S i) | None => i end
  end.

(* ---- the executable form of the token invariant (the property's oracle on an observed run) ---- *)
Definition outstanding (s : jstate) : nat :=
  (match r_pc (j_r s) with REnq _ => 1 | _ => 0 end) + length (q_jobs (j_q s)) + length (q_busy (j_q s))
  + length (q_out (j_q s)) + (match c_pc (j_c s) with CTok _ => 1 | _ => 0 end).

Definition tokens_okb (p : jparams) (s : jstate) : bool :=
  (outstanding s <=? q_tokens (j_q s)) && (q_tokens (j_q s) <=? jp_ct p)
  && (length (q_busy (j_q s)) + length (q_out (j_q s)) <=? jp_co p)
  && (length (q_busy (j_q s)) <=? jp_w p).

(* every state along the observed run satisfies the token invariant, and a worker holding a result
   always has room in outChan *)
Fixpoint jrun_all (p : jparams) (ok : jstate -> bool) (s : jstate) (tr : list jlabel) : bool :=
  ok s && match tr with
          | [] => true
          | l :: tr' => match jstep p s l with Some s' => jrun_all p ok s' tr' | None => true end
          end.

Definition send_room_okb (p : jparams) (s : jstate) : bool :=
  match q_busy (j_q s) with [] => true | _ => length (q_out (j_q s)) <? jp_co p end.

(* ---- cases of the engine ---- *)
Record c29_case := mkc29 {
  k_w : Z; k_n : Z; k_b : Z; k_cj : Z; k_ct : Z; k_co : Z;
  k_rerr : bool; k_bad : list Z; k_plimit : option Z;
  k_trace : list jlabel
}.
Definition c29_params (c : c29_case) : jparams :=
  mkjparams (nn (k_w c)) (nn (k_n c)) (nn (k_b c)) (nn (k_cj c)) (nn (k_ct c)) (nn (k_co c))
            (k_rerr c) (map nn (k_bad c)) (match k_plimit c with Some z => Some (nn z) | None => None end).

(* tie: the logged trace of the real run is a run of the LTS from the initial state to a final state *)
Definition c29_tie (c : c29_case) : bool := jvalidb (c29_params c) && jtrace_accepts (c29_params c) (k_trace c).
(* spec: along the observed run the token invariant holds and a worker's send always has room *)
Definition c29_spec (c : c29_case) : bool :=
  jrun_all (c29_params c) (fun s => tokens_okb (c29_params c) s && send_room_okb (c29_params c) s) (jinit (c29_params c)) (k_trace c).

(* ------------------------------------------------------------------------------------------------ *)
(* (b) StreamJoin / OuterJoin                                                                       *)
(* ------------------------------------------------------------------------------------------------ *)

Inductive side := SL | SR.
Definition other (s : side) : side := match s with SL => SR | SR => SL end.
Definition side_eqb (a b : side) : bool := match a, b with SL, SL | SR, SR => true | _, _ => false end.

Inductive jmsg := MData | MErr.

Record nparams := mknparams {
  np_nl : nat; np_nr : nat;       (* messages (records and metadata) each source emits before its Run returns *)
  np_errl : bool; np_errr : bool; (* the source's Run returns an error (sent as a last message) *)
  np_cap : nat;                   (* cap(leftMessages) = cap(rightMessages) *)
  np_fail : option nat            (* Some k: the main loop's processing action number k returns an error
                                     (produce failed: LIMIT above the join, downstream error, key expression error).
                                     Actions: each data message received, the flush at the phase switch, the final flush. *)
}.
Definition nvalid (p : nparams) : Prop := 1 <= np_cap p.
Definition np_n (p : nparams) (s : side) : nat := match s with SL => np_nl p | SR => np_nr p end.
Definition np_err (p : nparams) (s : side) : bool := match s with SL => np_errl p | SR => np_errr p end.

Inductive ppc := PSend | PClose | PDone.   (* inside source.Run / about to close(ch) / goroutine exited *)
Inductive mpc := MBoth | MOnly (s : side) | MRet.

Record nprod := mkprod { p_sent : nat; p_pc : ppc; p_ch : list jmsg; p_closed : bool }.
Record nstate := mknstate { n_l : nprod; n_r : nprod; n_m : mpc; n_acts : nat }.

Definition nget (s : nstate) (d : side) : nprod := match d with SL => n_l s | SR => n_r s end.
Definition nset (s : nstate) (d : side) (x : nprod) : nstate :=
  match d with SL => mknstate x (n_r s) (n_m s) (n_acts s) | SR => mknstate (n_l s) x (n_m s) (n_acts s) end.

Definition ninit : nstate := mknstate (mkprod 0 PSend [] false) (mkprod 0 PSend [] false) MBoth 0.

Inductive nlabel :=
| NSend (d : side)      (* producer d: `ch <- record/metadata` (blocks while the channel is full; no ctx escape) *)
| NErr (d : side)       (* producer d: source returned an error: `ch <- chanMessage{err}` *)
| NClose (d : side)     (* producer d: close(ch) *)
| NRecv (d : side)      (* main loop receives a message of side d and processes it *)
| NClosed (d : side).   (* main loop sees side d closed: phase switch, or the end of the range loop + final flush *)

Definition listens (m : mpc) (d : side) : bool :=
  match m with MBoth => true | MOnly e => side_eqb e d | MRet => false end.

(* one processing action of the main loop: fails (Run returns the error) or counts *)
Definition act (p : nparams) (s : nstate) (ok : mpc) : nstate :=
  match np_fail p with
  | Some k => if k =? n_acts s then mknstate (n_l s) (n_r s) MRet (n_acts s)
              else mknstate (n_l s) (n_r s) ok (S (n_acts s))
  | None => mknstate (n_l s) (n_r s) ok (S (n_acts s))
  end.

Definition nstep (p : nparams) (s : nstate) (l : nlabel) : option nstate :=
  match l with
  | NSend d =>
      let x := nget s d in
      match p_pc x with
      | PSend => if (p_sent x <? np_n p d) && (length (p_ch x) <? np_cap p)
                 then Some (nset s d (mkprod (S (p_sent x)) PSend (p_ch x ++ [MData]) false)) else None
      | _ => None
      end
  | NErr d =>
      let x := nget s d in
      match p_pc x with
      | PSend => if (p_sent x =? np_n p d) && np_err p d && (length (p_ch x) <? np_cap p)
                 then Some (nset s d (mkprod (p_sent x) PClose (p_ch x ++ [MErr]) false)) else None
      | _ => None
      end
  | NClose d =>
      let x := nget s d in
      match p_pc x with
      | PSend => if (p_sent x =? np_n p d) && negb (np_err p d)
                 then Some (nset s d (mkprod (p_sent x) PDone (p_ch x) true)) else None
      | PClose => Some (nset s d (mkprod (p_sent x) PDone (p_ch x) true))
      | PDone => None
      end
  | NRecv d =>
      let x := nget s d in
      if listens (n_m s) d then
        match p_ch x with
        | MErr :: rest => let s' := nset s d (mkprod (p_sent x) (p_pc x) rest (p_closed x)) in
                          Some (mknstate (n_l s') (n_r s') MRet (n_acts s'))
        | MData :: rest => let s' := nset s d (mkprod (p_sent x) (p_pc x) rest (p_closed x)) in
                           Some (act p s' (n_m s'))
        | [] => None
        end
      else None
  | NClosed d =>
      let x := nget s d in
      if listens (n_m s) d && p_closed x then
        match p_ch x with
        | [] => match n_m s with
                | MBoth => Some (act p s (MOnly (other d)))       (* processRecordsUpTo(minWatermark, true) *)
                | MOnly _ => Some (mknstate (n_l s) (n_r s) MRet (n_acts s))  (* final flush; returns either way *)
                | MRet => None
                end
        | _ => None
        end
      else None
  end.

Definition ncandidates : list nlabel :=
  [NSend SL; NSend SR; NErr SL; NErr SR; NClose SL; NClose SR; NRecv SL; NRecv SR; NClosed SL; NClosed SR].
Definition ndefined (p : nparams) (s : nstate) (l : nlabel) : bool :=
  match nstep p s l with Some _ => true | None => false end.
Definition nenabled (p : nparams) (s : nstate) : list nlabel := filter (ndefined p s) ncandidates.

Definition is_producer_label (d : side) (l : nlabel) : bool :=
  match l with NSend e | NErr e | NClose e => side_eqb d e | _ => false end.

(* the query is over when the join's Run has returned *)
Definition nfinalb (s : nstate) : bool := match n_m s with MRet => true | _ => false end.

Fixpoint nrun (p : nparams) (s : nstate) (tr : list nlabel) : option nstate :=
  match tr with
  | [] => Some s
  | l :: tr' => match nstep p s l with Some s' => nrun p s' tr' | None => None end
  end.

(* ---- join: replaying an observed run of the real StreamJoin / OuterJoin ---- *)

(* k consecutive sends of producer d in one computation (a producer filling its channel) *)
Definition nsend_many (p : nparams) (s : nstate) (d : side) (k : nat) : option nstate :=
  let x := nget s d in
  match p_pc x with
  | PSend => if (p_sent x + k <=? np_n p d) && (length (p_ch x) + k <=? np_cap p) && negb (p_closed x)
             then Some (nset s d (mkprod (p_sent x + k) PSend (p_ch x ++ repeat MData k) false)) else None
  | _ => None
  end.

Inductive nmacro := NMany (d : side) (k : nat) | NOne (l : nlabel).

Definition nexpand (ms : list nmacro) : list nlabel :=
  flat_map (fun m => match m with NMany d k => repeat (NSend d) k | NOne l => [l] end) ms.

Fixpoint nrun_macro (p : nparams) (s : nstate) (ms : list nmacro) : option nstate :=
  match ms with
  | [] => Some s
  | NMany d k :: r => match nsend_many p s d k with Some s' => nrun_macro p s' r | None => None end
  | NOne l :: r => match nstep p s l with Some s' => nrun_macro p s' r | None => None end
  end.

(* An in-process run of the real join node over two scripted sources.  The main loop's events are the ones
   the verifJoinRecv hook reported, in order; the producers' sends are scheduled eagerly between them
   (the observation does not order them) up to the number of sends each producer completed. *)
Record c29j_case := mkc29j {
  kj_nl : Z; kj_nr : Z; kj_errl : bool; kj_errr : bool; kj_cap : Z; kj_fail : option Z;
  kj_trace : list nmacro;
  kj_sentl : Z; kj_sentr : Z;      (* sends completed by each source when the run was observed *)
  kj_returned : bool;              (* Run returned within the time limit *)
  kj_blocked : bool                (* some source goroutine was still blocked on its send when Run returned *)
}.
Definition c29j_params (c : c29j_case) : nparams :=
  mknparams (nn (kj_nl c)) (nn (kj_nr c)) (kj_errl c) (kj_errr c) (nn (kj_cap c))
            (match kj_fail c with Some z => Some (nn z) | None => None end).

Definition blocked_prod (p : nparams) (d : side) (x : nprod) : bool :=
  match p_pc x with PSend => (p_sent x <? np_n p d) && (length (p_ch x) =? np_cap p) | _ => false end.

(* tie: the observed events are a run of the LTS into a final state (Run returned) whose producers have
   completed exactly the observed number of sends, and a producer is blocked on a full channel exactly when
   the harness saw one blocked *)
Definition c29j_tie (c : c29j_case) : bool :=
  let p := c29j_params c in
  (1 <=? np_cap p) &&
  match nrun_macro p ninit (kj_trace c) with
  | Some s => nfinalb s && (p_sent (n_l s) =? nn (kj_sentl c)) && (p_sent (n_r s) =? nn (kj_sentr c))
              && Bool.eqb (blocked_prod p SL (n_l s) || blocked_prod p SR (n_r s)) (kj_blocked c)
  | None => false
  end.
(* spec: the query is over: Run returned, whether or not a producer stays blocked *)
Definition c29j_spec (c : c29j_case) : bool := kj_returned c.

Inductive c29_any := AJson (c : c29_case) | AJoin (c : c29j_case).
Definition c29_tie_any (a : c29_any) : bool := match a with AJson c => c29_tie c | AJoin c => c29j_tie c end.
Definition c29_spec_any (a : c29_any) : bool := match a with AJson c => c29_spec c | AJoin c => c29j_spec c end.
