(* Model/ExprTypes.v — the part of octosql/types.go that expressions need (C11, C08), on *kind sets*.
   Executable definitions only.

   A static type is modelled by the set of top-level TypeIDs it allows ("kind set"), or Any:
     octosql.Int                      ~ STSet [1]
     TypeSum(Int, Null)               ~ STSet [0;1]
     octosql.Any                      ~ STAny
     List<...> / Struct / Tuple       ~ STSet [7] / [8] / [9]   (element and field types are NOT modelled)
   For types whose alternatives are all scalar (Null, Int, Float, Boolean, String, Time, Duration) this is
   exact: Is / TypeSum / TypeIntersection / NonNullable of types.go compute exactly the set operations below
   (each TypeID occurs at most once in a union, alternatives compare by TypeID only).  For types with a
   List/Struct/Tuple alternative only the questions "does it allow NULL" (Null.Is(t)) and "which TypeIDs does a
   TypeAssertion accept" are exact; [sty_scalar] is the decidable fragment predicate used wherever more is needed.
   Another builder models the full type algebra (C10); this file deliberately does not depend on it. *)
From Coq Require Export String.   (* before Values: List.length etc. must stay the visible names *)
From Octo Require Export Values.

Definition K_NULL : Z := 0.
Definition K_INT : Z := 1.
Definition K_FLOAT : Z := 2.
Definition K_BOOL : Z := 3.
Definition K_STR : Z := 4.
Definition K_TIME : Z := 5.
Definition K_DUR : Z := 6.
Definition K_LIST : Z := 7.
Definition K_STRUCT : Z := 8.
Definition K_TUPLE : Z := 9.

Inductive sty : Type :=
| STAny
| STSet (ks : list Z).

Definition kmem (k : Z) (ks : list Z) : bool := existsb (Z.eqb k) ks.
Definition ksubset (a b : list Z) : bool := forallb (fun k => kmem k b) a.
Definition kmeets (a b : list Z) : bool := existsb (fun k => kmem k b) a.
Definition kinter (a b : list Z) : list Z := filter (fun k => kmem k b) a.
Definition kunion (a b : list Z) : list Z := a ++ filter (fun k => negb (kmem k a)) b.

Definition sty_eqb (a b : sty) : bool :=
  match a, b with
  | STAny, STAny => true
  | STSet x, STSet y => ksubset x y && ksubset y x
  | _, _ => false
  end.

Definition k_scalar (k : Z) : bool := (0 <=? k) && (k <=? 6).
Definition sty_scalar (t : sty) : bool :=
  match t with STAny => true | STSet ks => forallb k_scalar ks && negb (Nat.eqb (length ks) 0) end.

(* TypeRelation *)
Inductive trel := Isnt | Maybe | Is.
Definition trel_eqb (a b : trel) : bool :=
  match a, b with Isnt, Isnt | Maybe, Maybe | Is, Is => true | _, _ => false end.
Definition trel_lt (a b : trel) : bool :=
  match a, b with Isnt, Maybe | Isnt, Is | Maybe, Is => true | _, _ => false end.

(* Type.Is: other = Any -> Is; t a union: all alternatives fit -> Is, some -> Maybe; other a union: best
   alternative; same TypeID -> Is.  (Any is Isnt everything but Any.) *)
Definition is_rel (t other : sty) : trel :=
  match other with
  | STAny => Is
  | STSet o =>
      match t with
      | STAny => Isnt
      | STSet ks => if ksubset ks o then Is else if kmeets ks o then Maybe else Isnt
      end
  end.

(* octosql.Null.Is(t) == TypeRelationIs : the test used by Materialize (nullCheckIndices), by the nullable
   wrap of strict calls and by And/Or typing.  Exact for every octosql type. *)
Definition allows_null (t : sty) : bool := trel_eqb (is_rel (STSet [K_NULL]) t) Is.

(* NonNullable: only unions lose their Null alternative; plain Null stays Null. *)
Definition non_nullable (t : sty) : sty :=
  match t with
  | STAny => STAny
  | STSet [k] => STSet [k]
  | STSet ks => STSet (filter (fun k => negb (k =? K_NULL)) ks)
  end.

(* TypeSum on kind sets *)
Definition type_sum (t1 t2 : sty) : sty :=
  if trel_eqb (is_rel t1 t2) Is then t2
  else if trel_eqb (is_rel t2 t1) Is then t1
  else match t1, t2 with
       | STSet a, STSet b => STSet (kunion a b)
       | _, _ => STAny     (* unreachable: x.Is(Any) = Is for every x *)
       end.

(* TypeIntersection returns a *Type; nil (no common alternative) is None — callers dereference it.
   The code keeps `outputType = &t` where t is the range variable (go.mod says go 1.18: one variable per loop),
   so after the first match the pointee is overwritten by every later alternative of that loop: the result is
   the common alternatives PLUS the last alternative of the list in which the first match happened (unions are
   sorted by TypeID, so "last" is the largest TypeID).  Modelled as it is: a superset of the intersection when
   t1 is a union; for Any on one side only the last alternative of the other side survives.  Another builder's
   fix copies the range variable; both behaviours are kept and the translator says which one the tree has. *)
Definition kmax (l : list Z) : Z := fold_left Z.max l 0.
Definition type_inter_pinned (t1 t2 : sty) : option sty :=
  match t1, t2 with
  | STAny, STAny => Some STAny
  | STAny, STSet b => match b with [] => None | _ => Some (STSet [kmax b]) end
  | STSet a, STAny => match a with [] => None | _ => Some (STSet [kmax a]) end
  | STSet a, STSet b => match kinter a b with [] => None | c => Some (STSet (kunion c [kmax a])) end
  end.
(* with the range variable copied (`t := t`): the alternatives of either side that the other side allows *)
Definition type_inter_exact (t1 t2 : sty) : option sty :=
  match t1, t2 with
  | STAny, STAny => Some STAny
  | STAny, STSet b => match b with [] => None | _ => Some (STSet b) end
  | STSet a, STAny => match a with [] => None | _ => Some (STSet a) end
  | STSet a, STSet b => match kinter a b with [] => None | c => Some (STSet c) end
  end.
(* [aliasing] is probed by the translator on the tree under check (Gen/GenFunctions.v: type_inter_aliasing) *)
Definition type_inter (aliasing : bool) (t1 t2 : sty) : option sty :=
  if aliasing then type_inter_pinned t1 t2 else type_inter_exact t1 t2.

(* Value.Type() for scalar values (a composite value's type has element types: outside the fragment) *)
Definition value_scalar (v : value) : bool := k_scalar (tid v).
Definition type_of_scalar (v : value) : sty := STSet [tid v].

(* the judgement "runtime value v matches static type t", at the level this file models types:
   the value's TypeID is one the type allows *)
Definition has_type (v : value) (t : sty) : bool :=
  match t with STAny => true | STSet ks => kmem (tid v) ks end.

(* ---- function descriptor table rows (generated into Gen/GenFunctions.v from functions.FunctionMap()) ---- *)

(* what a TypeFn does on kind-set types, classified by the translator by probing the real TypeFn:
   TFEq      : accepts exactly two arguments whose types are Equal, returns Boolean   (< <= >= >)
   TFNoScalar: rejects every argument vector of scalar-kind types                       (len/[]/in/not in on lists)
   TFOther   : anything else (not modelled) *)
Inductive tfkind := TFNone | TFEq | TFNoScalar | TFOther.

Record fdesc : Type := mk_fdesc {
  fd_name : string;
  fd_idx : Z;                       (* position in FunctionDetails.Descriptors *)
  fd_args : list sty;               (* ArgumentTypes (empty for TypeFn descriptors) *)
  fd_out : sty;                     (* OutputType (STAny placeholder for TypeFn descriptors) *)
  fd_strict : bool;
  fd_typefn : tfkind;
  fd_flat : bool                    (* every declared type is Any or a set of scalar kinds *)
}.

Definition tfkind_eqb (a b : tfkind) : bool :=
  match a, b with TFNone, TFNone | TFEq, TFEq | TFNoScalar, TFNoScalar | TFOther, TFOther => true | _, _ => false end.
