(* Model/Base.v — conventions shared by every model file.  No proofs here. *)
From Coq Require Export List ZArith Bool Lia.
Export ListNotations.
Open Scope Z_scope.

(* Result of a partial Go operation.  A Go runtime panic is a value of the model. *)
Inductive outcome (A : Type) : Type :=
| Ok (a : A)
| Err (e : Z)        (* small per-engine error enum *)
| Panic (site : Z).  (* small per-engine panic-site enum *)
Arguments Ok {A} a.
Arguments Err {A} e.
Arguments Panic {A} site.

Definition is_ok {A} (o : outcome A) : bool := match o with Ok _ => true | _ => false end.
Definition is_panic {A} (o : outcome A) : bool := match o with Panic _ => true | _ => false end.

Definition obind {A B} (o : outcome A) (f : A -> outcome B) : outcome B :=
  match o with Ok a => f a | Err e => Err e | Panic s => Panic s end.

(* int64 wrap-around, written wherever Go wraps. *)
Definition two63 : Z := 9223372036854775808.
Definition two64 : Z := 18446744073709551616.
Definition wrap64 (z : Z) : Z := ((z + two63) mod two64) - two63.
Definition in_int64 (z : Z) : Prop := - two63 <= z < two63.
Definition in_int64b (z : Z) : bool := (- two63 <=? z) && (z <? two63).
Definition max_int64 : Z := 9223372036854775807.
Definition min_int64 : Z := -9223372036854775808.

(* Go's zero time.Time (year 1) as nanoseconds relative to the Unix epoch: it does not fit
   int64; it is below every instant a watermark or an event time can otherwise take. *)
Definition zero_ns : Z := -62135596800000000000.

(* indices of the elements of a list that fail a boolean test *)
Fixpoint bad_indices_from {A} (ok : A -> bool) (i : Z) (l : list A) : list Z :=
  match l with
  | [] => []
  | x :: xs => if ok x then bad_indices_from ok (i + 1) xs else i :: bad_indices_from ok (i + 1) xs
  end.
Definition bad_indices {A} (ok : A -> bool) (l : list A) : list Z := bad_indices_from ok 0 l.

Definition list_eqb {A} (eqb : A -> A -> bool) : list A -> list A -> bool :=
  fix go (a b : list A) : bool :=
    match a, b with
    | [], [] => true
    | x :: xs, y :: ys => eqb x y && go xs ys
    | _, _ => false
    end.

Fixpoint zsum (l : list Z) : Z := match l with [] => 0 | x :: xs => x + zsum xs end.
