(* Model/SourcesQueue.v — C23 (2): the consumer side of datasources/json/execution.go.
   Lines 0..n-1 are cut into jobs of [batch] lines; parser workers finish jobs in any order; the consumer's
   `queue` / `startIndex` loop puts the records back into file order; the loop exits when the line reader
   has reported `done` and startIndex == linesRead.  Executable definitions only. *)
From Octo Require Export Base.

Section Queue.
  Context {A : Type}.

  (* jobOutRecord: (line, record) or (line, err) *)
  Definition job_out : Type := list (nat * option A).

  Inductive msg : Type :=
  | Result (j : job_out)           (* outJobs := <-outChan  (followed by <-outChanAvailableTokens) *)
  | Done (err : bool).             (* readerErr := <-done *)

  Record cstate : Type := mkc {
    queue : list (option A);       (* []*Record, nil = not yet received *)
    start_index : nat;
    reader_done : bool;            (* fileReaderIsDone *)
    produced : list A              (* the records handed to produce(), in order *)
  }.
  Definition cstate0 : cstate := mkc [] 0 false [].

  Inductive cend : Type :=
  | Running                        (* blocked in the select: nothing more arrives *)
  | Exited                         (* break produceLoop; Run returns nil *)
  | Failed (e : Z)                 (* 1: a line failed to parse, 2: the reader reported an error *)
  | Panicked (site : Z).           (* 1: index out of range on queue[out.line-startIndex] *)

  Fixpoint set_nth {X} (i : nat) (x : X) (l : list X) : option (list X) :=
    match l, i with
    | [], _ => None
    | _ :: t, O => Some (x :: t)
    | h :: t, S k => match set_nth k x t with Some t' => Some (h :: t') | None => None end
    end.

  (* for len(queue) > 0 && queue[0] != nil { produce; queue = queue[1:]; startIndex++ } *)
  Fixpoint flush (q : list (option A)) (s : nat) (out : list A) : list (option A) * nat * list A :=
    match q with
    | Some r :: q' => flush q' (S s) (out ++ [r])
    | _ => (q, s, out)
    end.

  (* one element of outJobs *)
  Definition cons_line (st : cstate) (o : nat * option A) : cstate * cend :=
    let '(line, parsed) := o in
    match parsed with
    | None => (st, Failed 1)                                        (* out.err != nil *)
    | Some r =>
      if (line <? start_index st)%nat then (st, Panicked 1)         (* negative index *)
      else
        let idx := (line - start_index st)%nat in
        let q1 := queue st ++ repeat None (S idx - length (queue st)) in  (* for len(queue) <= idx: append nil *)
        match set_nth idx (Some r) q1 with
        | None => (st, Panicked 1)
        | Some q2 =>
          let '(q3, s3, out3) := flush q2 (start_index st) (produced st) in
          (mkc q3 s3 (reader_done st) out3, Running)
        end
    end.

  Fixpoint cons_job (st : cstate) (j : job_out) : cstate * cend :=
    match j with
    | [] => (st, Running)
    | o :: rest => match cons_line st o with
                   | (st', Running) => cons_job st' rest
                   | other => other
                   end
    end.

  (* the select loop; [lines_read] is what the reader goroutine left in linesRead before sending `done`
     (it is only read after `done` was received).  Returns the state, how the loop ended and the messages
     that were never received. *)
  Fixpoint run_consumer (lines_read : nat) (st : cstate) (msgs : list msg) : cstate * cend * list msg :=
    match msgs with
    | [] => (st, Running, [])
    | Result j :: rest =>
        match cons_job st j with
        | (st', Running) =>
            if reader_done st' && (start_index st' =? lines_read)%nat then (st', Exited, rest)
            else run_consumer lines_read st' rest
        | (st', e) => (st', e, rest)
        end
    | Done err :: rest =>
        if err then (st, Failed 2, rest)
        else
          let st' := mkc (queue st) (start_index st) true (produced st) in
          if (start_index st' =? lines_read)%nat then (st', Exited, rest)
          else run_consumer lines_read st' rest
    end.

  (* ---- what the workers send ------------------------------------------------------------------------ *)
  Variable rec_of : nat -> A.       (* the record line i parses to *)

  Definition njobs (n batch : nat) : nat := (n + batch - 1) / batch.
  Definition job_lines (n batch j : nat) : list nat := seq (j * batch) (Nat.min batch (n - j * batch)).
  Definition job_result (n batch j : nat) : msg :=
    Result (map (fun i => (i, Some (rec_of i))) (job_lines n batch j)).

  Fixpoint insert_at {X} (k : nat) (x : X) (l : list X) : list X :=
    match k, l with
    | O, _ => x :: l
    | S k', h :: t => h :: insert_at k' x t
    | S _, [] => [x]
    end.

  (* the messages the consumer sees: job results in the order [sched] the workers finish them, the
     reader's `done` after [dpos] of them *)
  Definition messages (n batch : nat) (sched : list nat) (dpos : nat) : list msg :=
    insert_at dpos (Done false) (map (job_result n batch) sched).

  Definition in_range_window (window : nat) (sched : list nat) : bool :=
    forallb (fun pj => (snd pj <? fst pj + window)%nat) (combine (seq 0 (length sched)) sched).
End Queue.

(* differential case over byte-string records: (n, batch, completion order of the jobs as logged by the
   hook, position of done, observed number of records produced, observed "in file order, each once") *)
Definition queue_case : Type := Z * Z * list Z * Z * Z.
Definition nat_list_eqb (a b : list nat) : bool := list_eqb Nat.eqb a b.
Definition queue_tie (c : queue_case) : bool :=
  let '(n, batch, sched, dpos, oprod) := c in
  let n' := Z.to_nat n in
  let '(st, e, rest) := run_consumer n' cstate0
        (messages (fun i => i) n' (Z.to_nat batch) (map Z.to_nat sched) (Z.to_nat dpos)) in
  match e, rest with
  | Exited, [] => nat_list_eqb (produced st) (seq 0 n') && (Z.of_nat (length (produced st)) =? oprod)
  | _, _ => false
  end.
