(* Model/PluginsFs.v — plugin installation as filesystem steps, crashes, and start-up (C27).  Executable only.
   Mirrors  plugins/manager/manager.go Install (after the staged-install fix; install_ops_pinned = before),
            plugins/manager/extensions.go registerFileExtensions / saveFileExtensionHandlers (temp file + rename;
            ext_ops_pinned = os.WriteFile in place), plugins/repository/repository.go AddRepository (likewise),
            cmd/root.go start-up (listing, dbLoop, extension handlers), GetPluginBinaryPath.
   The filesystem below ~/.octosql is a finite map  path -> Dir names | File bytes ; a directory node holds the
   names of its entries (that is what ReadDir returns; their order is creation order here, name order on a real
   system — start-up never depends on it when names are unique).  The root [] has no node. *)
From Octo Require Export Plugins.

Definition path := list bytes.
Inductive node := Dir (names : list bytes) | File (c : bytes).
Definition fs := list (path * node).

Fixpoint path_eqb (a b : path) : bool :=
  match a, b with
  | [], [] => true
  | x :: xs, y :: ys => bytes_eqb x y && path_eqb xs ys
  | _, _ => false
  end.

Fixpoint fs_get (f : fs) (p : path) : option node :=
  match f with
  | [] => None
  | (q, n) :: t => if path_eqb q p then Some n else fs_get t p
  end.
Definition fs_del (f : fs) (p : path) : fs := filter (fun e => negb (path_eqb (fst e) p)) f.
Definition fs_set (f : fs) (p : path) (n : node) : fs := (p, n) :: fs_del f p.

Fixpoint strip_prefix (q p : path) : option path :=
  match q, p with
  | [], _ => Some p
  | a :: q', b :: p' => if bytes_eqb a b then strip_prefix q' p' else None
  | _ :: _, [] => None
  end.
Definition under (q p : path) : bool := match strip_prefix q p with Some _ => true | None => false end.

Definition parent (p : path) : path := removelast p.
Definition base (p : path) : bytes := last p [].

(* the entry list of the parent directory *)
Definition add_name (f : fs) (p : path) : fs :=
  match fs_get f (parent p) with
  | Some (Dir ns) => if existsb (bytes_eqb (base p)) ns then f else fs_set f (parent p) (Dir (base p :: ns))
  | _ => f
  end.
Definition del_name (f : fs) (p : path) : fs :=
  match fs_get f (parent p) with
  | Some (Dir ns) => fs_set f (parent p) (Dir (filter (fun n => negb (bytes_eqb (base p) n)) ns))
  | _ => f
  end.

Inductive fs_op :=
| Mkdir (p : path)              (* mkdir(2); nothing happens if p exists *)
| Unlink (p : path)             (* unlink(2) / rmdir(2) of a leaf *)
| Create (p : path)             (* open(O_CREAT|O_TRUNC) *)
| Write (p : path) (d : bytes)  (* append d; a crash may leave any prefix of d *)
| Rename (s d : path).          (* rename(2): atomic; d is absent or a file *)

Definition apply_op (f : fs) (o : fs_op) : fs :=
  match o with
  | Mkdir p => match fs_get f p with Some _ => f | None => add_name (fs_set f p (Dir [])) p end
  | Unlink p => del_name (fs_del f p) p
  | Create p =>
      match fs_get f p with
      | Some (File _) => fs_set f p (File [])
      | Some (Dir _) => f
      | None => add_name (fs_set f p (File [])) p
      end
  | Write p d => match fs_get f p with Some (File c) => fs_set f p (File (c ++ d)) | _ => f end
  | Rename s d =>
      let kept := filter (fun e => negb (under d (fst e))) f in
      let moved := map (fun e => match strip_prefix s (fst e) with Some r => (d ++ r, snd e) | None => e end) kept in
      add_name (del_name moved s) d
  end.

Definition run_ops (ops : list fs_op) (f : fs) : fs := fold_left apply_op ops f.

(* the first k steps happened; if the next one is a write, [torn] bytes of it reached the disk *)
Fixpoint crash (ops : list fs_op) (f : fs) (k torn : nat) : fs :=
  match k, ops with
  | O, Write p d :: _ => apply_op f (Write p (firstn torn d))
  | O, _ => f
  | S k', o :: rest => crash rest (apply_op f o) k' torn
  | S _, [] => f
  end.

(* ---------------- library calls as step lists ---------------- *)
(* order on paths: component-wise, a prefix is smaller (the hook sorts the same way) *)
Fixpoint path_ltb (a b : path) : bool :=
  match a, b with
  | _, [] => false
  | [], _ :: _ => true
  | x :: xs, y :: ys => if bytes_ltb x y then true else if bytes_ltb y x then false else path_ltb xs ys
  end.
Fixpoint insert_path_desc (p : path) (l : list path) : list path :=
  match l with
  | [] => [p]
  | q :: t => if path_ltb q p then p :: l else q :: insert_path_desc p t
  end.
Definition sort_paths_desc (l : list path) : list path := fold_right insert_path_desc [] l.

(* os.RemoveAll(p): entries below p first (children before parents), p last; nothing if p is absent *)
Definition remove_all (f : fs) (p : path) : list fs_op :=
  map Unlink (sort_paths_desc (map fst (filter (fun e => under p (fst e)) f))).

Fixpoint prefixes_from (acc : path) (p : path) : list path :=
  match p with [] => [] | c :: t => (acc ++ [c]) :: prefixes_from (acc ++ [c]) t end.
(* os.MkdirAll(p): one mkdir per component *)
Definition mkdir_all (p : path) : list fs_op := map Mkdir (prefixes_from [] p).

(* os.WriteFile(p, data): open(O_CREAT|O_TRUNC) then write *)
Definition write_file (p : path) (data : bytes) : list fs_op := [Create p; Write p data].

(* ---------------- JSON of a flat string map, as json.Marshal writes it ---------------- *)
Definition safe_char (c : Z) : bool :=
  (32 <=? c) && (c <? 127) && negb (c =? 34) && negb (c =? 92) && negb (c =? 60) && negb (c =? 62) && negb (c =? 38).
Definition safe_str (s : bytes) : bool := forallb safe_char s.

Definition enc_str (s : bytes) : bytes := 34 :: s ++ [34].
Fixpoint enc_pairs (m : list (bytes * bytes)) : bytes :=
  match m with
  | [] => []
  | [(k, v)] => enc_str k ++ 58 :: enc_str v
  | (k, v) :: t => enc_str k ++ 58 :: enc_str v ++ 44 :: enc_pairs t
  end.
Definition json_encode (m : list (bytes * bytes)) : bytes := 123 :: enc_pairs m ++ [125].

Fixpoint span_safe (s : bytes) : bytes * bytes :=
  match s with
  | c :: t => if safe_char c then let '(a, r) := span_safe t in (c :: a, r) else ([], s)
  | [] => ([], [])
  end.
Definition parse_str (s : bytes) : option (bytes * bytes) :=
  match s with
  | c :: t =>
      if c =? 34 then
        let '(a, r) := span_safe t in
        match r with c' :: r' => if c' =? 34 then Some (a, r') else None | [] => None end
      else None
  | [] => None
  end.
(* after '{' or ',': "k":"v" then ',' or '}' at the end of the input; the fuel (input length) cannot run out *)
Fixpoint parse_pairs (fuel : nat) (s : bytes) : option (list (bytes * bytes)) :=
  match fuel with
  | O => None
  | Datatypes.S n =>
      match parse_str s with
      | Some (k, c :: r) =>
          if c =? 58 then
            match parse_str r with
            | Some (v, c' :: r') =>
                if (c' =? 125) && is_nil r' then Some [(k, v)]
                else if c' =? 44 then match parse_pairs n r' with Some m => Some ((k, v) :: m) | None => None end
                else None
            | _ => None
            end
          else None
      | _ => None
      end
  end.
Definition json_decode (s : bytes) : option (list (bytes * bytes)) :=
  match s with
  | c :: t =>
      if c =? 123 then
        match t with
        | [c'] => if c' =? 125 then Some [] else parse_pairs (length s) t
        | _ => parse_pairs (length s) t
        end
      else None
  | [] => None
  end.

(* a Go map marshals with sorted keys; a later duplicate key wins *)
Fixpoint upsert (k v : bytes) (m : list (bytes * bytes)) : list (bytes * bytes) :=
  match m with
  | [] => [(k, v)]
  | (k', v') :: t =>
      if bytes_eqb k k' then (k, v) :: t
      else if bytes_ltb k k' then (k, v) :: m
      else (k', v') :: upsert k v t
  end.
Definition norm_map (l : list (bytes * bytes)) : list (bytes * bytes) :=
  fold_left (fun m e => upsert (fst e) (snd e) m) l [].

(* ---------------- paths ---------------- *)
Definition s_plugins : bytes := [112;108;117;103;105;110;115].
Definition s_archive : bytes := [97;114;99;104;105;118;101;46;116;97;114;46;103;122].                 (* archive.tar.gz *)
Definition s_ext : bytes := [102;105;108;101;95;101;120;116;101;110;115;105;111;110;95;104;97;110;100;108;101;114;115;46;106;115;111;110].
Definition s_tmp : bytes := [46;116;109;112].                                                          (* .tmp *)
Definition s_repositories : bytes := [114;101;112;111;115;105;116;111;114;105;101;115].
Definition s_repo_tmp_prefix : bytes := [46;114;101;112;111;115;105;116;111;114;121;45].              (* .repository- *)
Definition s_url : bytes := [117;114;108].

Definition P : path := [s_plugins].
Definition S : path := [s_plugins; staging_name].
Definition ext_path : path := [s_ext].
Definition ext_tmp : path := [s_ext ++ s_tmp].

Record install := mkInst {
  i_repo : bytes; i_name : bytes; i_version : version;
  i_archive : bytes;                       (* the downloaded tar.gz, byte for byte *)
  i_members : list (bytes * bytes);        (* its regular files: name, content *)
  i_exts : list bytes }.                   (* file extensions the plugin registers *)

Definition N (i : install) : path := [s_plugins; i_repo i; dir_of (i_name i); print_version (i_version i)].
Definition version_dir (repo name : bytes) (v : version) : path := [s_plugins; repo; dir_of name; print_version v].
Definition binary_path (repo name : bytes) (v : version) : path := version_dir repo name v ++ [dir_of name].

(* ---------------- start-up ---------------- *)
Definition e_list : Z := 4.    (* "couldn't list plugins directory" *)
Definition e_ext : Z := 5.     (* "couldn't json-decode file extension handlers file" *)

Fixpoint mapM {A B} (g : A -> outcome B) (l : list A) : outcome (list B) :=
  match l with
  | [] => Ok []
  | x :: t => obind (g x) (fun y => obind (mapM g t) (fun ys => Ok (y :: ys)))
  end.

Definition read_dir (f : fs) (p : path) : outcome (list bytes) :=
  match fs_get f p with Some (Dir ns) => Ok ns | _ => Err e_list end.

Definition read_plugin (f : fs) (r d : bytes) : outcome (bytes * list bytes) :=
  obind (read_dir f [s_plugins; r; d]) (fun vs => Ok (d, vs)).
Definition read_repo (f : fs) (r : bytes) : outcome (bytes * list (bytes * list bytes)) :=
  obind (read_dir f [s_plugins; r]) (fun ds => obind (mapM (read_plugin f r) ds) (fun ps => Ok (r, ps))).

(* the three ReadDir levels of ListInstalledPlugins; the staging directory is skipped before it is read *)
Definition tree_of_fs (f : fs) : outcome tree :=
  match fs_get f P with
  | None => Ok []
  | Some (File _) => Err e_list
  | Some (Dir repos) => mapM (read_repo f) (filter (fun r => negb (bytes_eqb staging_name r)) repos)
  end.

Definition load_handlers (f : fs) : outcome (list (bytes * bytes)) :=
  match fs_get f ext_path with
  | None => Ok []
  | Some (File c) => match json_decode c with Some m => Ok m | None => Err e_ext end
  | Some (Dir _) => Err e_ext
  end.

Definition listing (f : fs) : outcome (list plugin_md) := obind (tree_of_fs f) listed.

(* what start-up decides for one configured database: Err = no invocation starts; Ok None = this database's
   plugin "is not installed with the required version"; Ok (Some v) = it will run version v *)
Definition startup_db (f : fs) (d : dbcfg) : outcome (option version) :=
  obind (listing f) (fun l =>
  obind (load_handlers f) (fun _ =>
  Ok (resolve l (db_plugin d) (db_repo d) (db_cs d)))).

(* the whole start-up in the order of cmd/root.go: listing, dbLoop, extension handlers *)
Definition startup (f : fs) (cfg : list dbcfg) : outcome (list (bytes * version)) :=
  obind (listing f) (fun l =>
  obind (resolve_all l cfg) (fun r =>
  obind (load_handlers f) (fun _ => Ok r))).

Definition binary_of (f : fs) (d : dbcfg) (v : version) : option node :=
  fs_get f (binary_path (db_repo d) (db_plugin d) v).

(* ---------------- Install ---------------- *)
Definition merged_handlers (old : list (bytes * bytes)) (i : install) : list (bytes * bytes) :=
  fold_left (fun m e => upsert e (i_name i) m) (i_exts i) (norm_map old).

(* registerFileExtensions after the fix: load, merge, write the temporary file, rename *)
Definition ext_ops (f : fs) (i : install) : list fs_op :=
  match load_handlers f with
  | Ok old => write_file ext_tmp (json_encode (merged_handlers old i)) ++ [Rename ext_tmp ext_path]
  | _ => []
  end.
Definition ext_ops_pinned (f : fs) (i : install) : list fs_op :=
  match load_handlers f with
  | Ok old => write_file ext_path (json_encode (merged_handlers old i))
  | _ => []
  end.

Definition unarchive_ops (dest : path) (members : list (bytes * bytes)) : list fs_op :=
  concat (map (fun m => [Create (dest ++ [fst m]); Write (dest ++ [fst m]) (snd m)]) members).

Definition install_ops (f0 : fs) (i : install) : list fs_op :=
  let o1 := remove_all f0 S in
  let o2 := mkdir_all S in
  let o3 := [Create (S ++ [s_archive]); Write (S ++ [s_archive]) (i_archive i)] in
  let o4 := unarchive_ops S (i_members i) in
  let o5 := [Unlink (S ++ [s_archive])] in
  let o6 := mkdir_all (parent (N i)) in
  let f6 := run_ops (o1 ++ o2 ++ o3 ++ o4 ++ o5 ++ o6) f0 in
  let o7 := remove_all f6 (N i) in
  let o8 := [Rename S (N i)] in
  let f8 := run_ops (o7 ++ o8) f6 in
  o1 ++ o2 ++ o3 ++ o4 ++ o5 ++ o6 ++ o7 ++ o8 ++ ext_ops f8 i.

(* the pinned Install: remove the version directory, re-create it, download and unpack inside it *)
Definition install_ops_pinned (f0 : fs) (i : install) : list fs_op :=
  let o1 := remove_all f0 (N i) in
  let o2 := mkdir_all (N i) in
  let o3 := [Create (N i ++ [s_archive]); Write (N i ++ [s_archive]) (i_archive i)] in
  let o4 := unarchive_ops (N i) (i_members i) in
  let o5 := [Unlink (N i ++ [s_archive])] in
  let f5 := run_ops (o1 ++ o2 ++ o3 ++ o4 ++ o5) f0 in
  o1 ++ o2 ++ o3 ++ o4 ++ o5 ++ ext_ops_pinned f5 i.

(* ---------------- plugin repository add ---------------- *)
Record radd := mkRadd { r_slug : bytes; r_url : bytes }.
Definition repo_entry (a : radd) : path := [s_repositories; r_slug a].
Definition repo_tmp (a : radd) : path := [s_repo_tmp_prefix ++ r_slug a ++ s_tmp].
Definition repo_data (a : radd) : bytes := json_encode [(s_url, r_url a)].

Definition add_ops (a : radd) : list fs_op :=
  mkdir_all [s_repositories] ++ write_file (repo_tmp a) (repo_data a) ++ [Rename (repo_tmp a) (repo_entry a)].
Definition add_ops_pinned (a : radd) : list fs_op :=
  mkdir_all [s_repositories] ++ write_file (repo_entry a) (repo_data a).

(* getAdditionalPluginRepositoryURLs: every entry of repositories/ must decode *)
Definition repos_ok (f : fs) : bool :=
  match fs_get f [s_repositories] with
  | None => true
  | Some (File _) => false
  | Some (Dir ns) =>
      forallb (fun n => match fs_get f [s_repositories; n] with
                        | Some (File c) => match json_decode c with Some _ => true | None => false end
                        | _ => false
                        end) ns
  end.

(* ---------------- the two commands ---------------- *)
Inductive c27_op := DoInstall (i : install) | DoAdd (a : radd).
Definition ops_of (f0 : fs) (o : c27_op) : list fs_op :=
  match o with DoInstall i => install_ops f0 i | DoAdd a => add_ops a end.

(* ---------------- the finding class: re-installation over an existing version directory ---------------- *)
(* the crash points at which the old copy is (partly) gone and the new one is not yet in place *)
Definition window_start (f0 : fs) (i : install) : nat :=
  length (remove_all f0 S ++ mkdir_all S ++ [Create (S ++ [s_archive]); Write (S ++ [s_archive]) (i_archive i)]
          ++ unarchive_ops S (i_members i) ++ [Unlink (S ++ [s_archive])] ++ mkdir_all (parent (N i))).
Definition reinstall_window (f0 : fs) (i : install) (k : nat) : bool :=
  match fs_get f0 (N i) with
  | None => false
  | Some _ => (window_start f0 i <? k)%nat && (k <=? window_start f0 i + length (remove_all f0 (N i)))%nat
  end.

(* ---------------- oracles and cases of engine c27 ---------------- *)
Definition node_eqb (a b : node) : bool :=
  match a, b with
  | Dir _, Dir _ => true
  | File c, File c' => bytes_eqb c c'
  | _, _ => false
  end.
(* same paths with the same kinds and contents *)
Definition fs_sub (a b : fs) : bool :=
  forallb (fun e => match fs_get b (fst e) with Some n => node_eqb (snd e) n | None => false end) a.
Definition fs_same (a b : fs) : bool := fs_sub a b && fs_sub b a && (length a =? length b)%nat.

(* each directory node lists exactly its entries *)
Definition fs_consistent (f : fs) : bool :=
  forallb (fun e =>
    match snd e with
    | File _ => true
    | Dir ns =>
        forallb (fun n => match fs_get f (fst e ++ [n]) with Some _ => true | None => false end) ns
        && forallb (fun e' => match strip_prefix (fst e) (fst e') with
                              | Some [n] => existsb (bytes_eqb n) ns
                              | _ => true
                              end) f
    end) f.

Inductive op_obs := OMkdir (p : path) | OUnlink (p : path) | OCreate (p : path) | OWrite (p : path) (len : Z) | ORename (s d : path).
Definition obs_of_op (o : fs_op) : op_obs :=
  match o with
  | Mkdir p => OMkdir p | Unlink p => OUnlink p | Create p => OCreate p
  | Write p d => OWrite p (Z.of_nat (length d)) | Rename s d => ORename s d
  end.
Definition op_obs_eqb (a b : op_obs) : bool :=
  match a, b with
  | OMkdir p, OMkdir q | OUnlink p, OUnlink q | OCreate p, OCreate q => path_eqb p q
  | OWrite p n, OWrite q m => path_eqb p q && ((n =? m) || (m =? -1))      (* the download's length is not logged *)
  | ORename s d, ORename s' d' => path_eqb s s' && path_eqb d d'
  | _, _ => false
  end.

(* what the probes after a crash see: exit of `SELECT 1` (0 or an error code), per configured database the version
   directory whose binary was executed (Ok), or that the resolved version's binary is missing / cut short (Err 6),
   whether `plugins.repositories` could be read *)
Definition e_not_runnable : Z := 6.
Record probe := mkProbe { pr_start : Z; pr_dbs : list (bytes * outcome version_obs); pr_repos : bool }.

Definition start_code (f : fs) (cfg : list dbcfg) : Z :=
  match startup f cfg with Ok _ => 0 | Err e => e | Panic _ => -1 end.

(* complete binaries: the content the path had in the initial state, or the archive's binary at the new path *)
Definition new_binary (o : c27_op) (p : path) (c : bytes) : bool :=
  match o with
  | DoInstall i =>
      path_eqb p (N i ++ [dir_of (i_name i)])
      && match find (fun m => bytes_eqb (fst m) (dir_of (i_name i))) (i_members i) with
         | Some m => bytes_eqb c (snd m)
         | None => false
         end
  | DoAdd _ => false
  end.
Definition good_binary (f0 : fs) (o : c27_op) (p : path) (c : bytes) : bool :=
  (match fs_get f0 p with Some (File c0) => bytes_eqb c c0 | _ => false end) || new_binary o p c.

(* the binary a database would run.  Start-up resolves every configured database first: if one of them fails,
   no query runs. *)
Definition db_probe (f : fs) (cfg : list dbcfg) (good : path -> bytes -> bool) (d : dbcfg) : outcome version :=
  match startup f cfg with
  | Err e => Err e
  | Panic s => Panic s
  | Ok _ =>
    match startup_db f d with
    | Ok (Some v) =>
        match binary_of f d v with
        | Some (File c) => if good (binary_path (db_repo d) (db_plugin d) v) c then Ok v else Err e_not_runnable
        | _ => Err e_not_runnable
        end
    | Ok None => Err e_not_installed
    | Err e => Err e
    | Panic s => Panic s
    end
  end.

Inductive c27_case :=
(* the elementary steps the real command logged, in order *)
| KSteps (f0 : fs) (o : c27_op) (obs : list op_obs)
(* the command killed before step k (k = number of steps: not killed), [torn] bytes of a write step written:
   the tree below ~/.octosql afterwards and what the probes saw *)
| KCrash (f0 : fs) (cfg : list dbcfg) (o : c27_op) (k torn : Z) (tree_after : fs) (pr : probe)
(* two commands: the first killed as above, then the second run to completion on what the first left behind *)
| KCrash2 (f0 : fs) (cfg : list dbcfg) (a : c27_op) (k torn : Z) (b : c27_op) (tree_after : fs) (pr : probe).

Definition probes_tie (f : fs) (cfg : list dbcfg) (good : path -> bytes -> bool) (after : fs) (pr : probe) : bool :=
  fs_same f after && fs_consistent f
  && (start_code f cfg =? pr_start pr)
  && all2 (fun d '(n, ob) => bytes_eqb (db_name d) n && outcome_tie vobs_tie (db_probe f cfg good d) ob) cfg (pr_dbs pr)
  && Bool.eqb ((start_code f cfg =? 0) && repos_ok f) (pr_repos pr).     (* no query runs if start-up fails *)

Definition c27_tie (c : c27_case) : bool :=
  match c with
  | KSteps f0 o obs => all2 op_obs_eqb (map obs_of_op (ops_of f0 o)) obs
  | KCrash f0 cfg o k torn after pr =>
      probes_tie (crash (ops_of f0 o) f0 (Z.to_nat k) (Z.to_nat torn)) cfg (good_binary f0 o) after pr
  | KCrash2 f0 cfg a k torn b after pr =>
      let fc := crash (ops_of f0 a) f0 (Z.to_nat k) (Z.to_nat torn) in
      probes_tie (run_ops (ops_of fc b) fc) cfg (fun p c => good_binary f0 a p c || new_binary b p c) after pr
  end.

(* has the new version directory been renamed into place among these steps? *)
Definition moved_in (o : c27_op) (done : list fs_op) : bool :=
  match o with
  | DoInstall i => existsb (fun op => match op with Rename s d => path_eqb s S && path_eqb d (N i) | _ => false end) done
  | DoAdd _ => false
  end.

(* the property on the observation alone: if everything started and every database ran a complete binary before,
   then after the crash everything starts, every database runs a complete binary — the version it ran before, or
   the installed one once its directory has been renamed into place — and repositories stay readable *)
Definition version_of (o : c27_op) (va : version_obs) : bool :=
  match o with DoInstall i => vobs_tie (i_version i) va | DoAdd _ => false end.

Definition c27_spec (c : c27_case) : bool :=
  match c with
  | KSteps _ _ _ => true
  | KCrash f0 cfg o k torn after pr =>
      let before := map (fun d => db_probe f0 cfg (good_binary f0 o) d) cfg in
      let finished := moved_in o (firstn (Z.to_nat k) (ops_of f0 o)) in
      if (start_code f0 cfg =? 0) && forallb is_ok before && repos_ok f0 then
        (pr_start pr =? 0)
        && all2 (fun b '(_, ob) =>
                   match b, ob with
                   | Ok vb, Ok va => vobs_tie vb va || (finished && version_of o va)
                   | _, _ => false
                   end) before (pr_dbs pr)
        && pr_repos pr
      else true
  | KCrash2 f0 cfg a k torn b after pr =>
      (* the second command finished: its version may run; the first one's only if it had been renamed into place *)
      let before := map (fun d => db_probe f0 cfg (good_binary f0 a) d) cfg in
      let finished := moved_in a (firstn (Z.to_nat k) (ops_of f0 a)) in
      if (start_code f0 cfg =? 0) && forallb is_ok before && repos_ok f0 then
        (pr_start pr =? 0)
        && all2 (fun b0 '(_, ob) =>
                   match b0, ob with
                   | Ok vb, Ok va => vobs_tie vb va || (finished && version_of a va) || version_of b va
                   | _, _ => false
                   end) before (pr_dbs pr)
        && pr_repos pr
      else true
  end.
