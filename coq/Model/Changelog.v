(* Model/Changelog.v — execution.Record, metadata messages, consolidated bags.  Executable only. *)
From Octo Require Export Values.

Record rec := mkrec { vals : list value; retr : bool; et : Z }.

Inductive event := Rec (r : rec) | WM (w : Z).

Definition sign (r : rec) : Z := if retr r then -1 else 1.

(* signed multiplicity of the row class of [row] (rows are identified by Compare = 0, as every operator does) *)
Fixpoint consolidate (l : list rec) (row : list value) : Z :=
  match l with
  | [] => 0
  | r :: rs => (if row_eqb (vals r) row then sign r else 0) + consolidate rs row
  end.

Definition records (es : list event) : list rec :=
  flat_map (fun e => match e with Rec r => [r] | WM _ => [] end) es.
Definition watermarks (es : list event) : list Z :=
  flat_map (fun e => match e with Rec _ => [] | WM w => [w] end) es.

(* executable bag equality: it is enough to look at the rows that occur *)
Definition bag_eqb (a b : list rec) : bool :=
  forallb (fun r => consolidate a (vals r) =? consolidate b (vals r)) (a ++ b).

(* a changelog is valid when no prefix retracts a row that is absent *)
Fixpoint valid_from (seen : list rec) (l : list rec) : bool :=
  match l with
  | [] => true
  | r :: rs => (0 <=? consolidate (seen ++ [r]) (vals r)) && valid_from (seen ++ [r]) rs
  end.
Definition valid_changelog (l : list rec) : bool := valid_from [] l.

Fixpoint monotone_from (last : Z) (ws : list Z) : bool :=
  match ws with [] => true | w :: rest => (last <=? w) && monotone_from w rest end.
Definition monotone_wms (es : list event) : bool :=
  match watermarks es with [] => true | w :: rest => monotone_from w rest end.

Definition arity_ok (n : Z) (l : list rec) : bool := forallb (fun r => Z.of_nat (length (vals r)) =? n) l.

Definition rec_eqb (a b : rec) : bool :=
  list_eqb value_eqb (vals a) (vals b) && Bool.eqb (retr a) (retr b) && (et a =? et b).
Definition event_eqb (a b : event) : bool :=
  match a, b with
  | Rec x, Rec y => rec_eqb x y
  | WM x, WM y => x =? y
  | _, _ => false
  end.
Definition events_eqb : list event -> list event -> bool := list_eqb event_eqb.

(* WatermarkMaxValue = time.Unix(0, math.MaxInt64) *)
Definition max_wm : Z := max_int64.
