(* Model/SourcesJson.v — C24, JSON lines: execution (getOctoSQLValue of datasources/json/execution.go and what
   the parser worker of workers.go does with its `ok` flag) for every octosql type, nested ones included;
   inference (Creator/getOctoSQLType of impl.go) for rows whose values are scalars (null, number, boolean,
   string / RFC3339 time) — the types such rows give are flat and TypeSum on them is Model/SourcesCsv.v's
   type_sum_prim.  Inference of nested list/object types is not modelled (tie-only).
   Executable definitions only. *)
From Octo Require Export Values.
From Octo Require Export SourcesCsv.

Inductive jty : Type :=
| JNull | JInt | JFloat | JBool | JStr | JTime | JDur
| JList (e : option jty)                (* List.Element may be nil: the type of [] *)
| JStruct (fs : list (bytes * jty))
| JTuple (l : list jty)
| JUnion (alts : list jty)
| JAny.

(* a parsed fastjson value; strings carry what time.Parse(RFC3339Nano) and time.ParseDuration say *)
Inductive jval : Type :=
| JVNull
| JVNum (bits : Z)
| JVBool (b : bool)
| JVStr (s : bytes) (tm : option (Z * Z)) (dur : option Z)
| JVArr (l : list jval)
| JVObj (fs : list (bytes * jval)).

(* Object.Get: the first entry with that key; nil when there is none *)
Fixpoint obj_get (fs : list (bytes * jval)) (k : bytes) : option jval :=
  match fs with
  | [] => None
  | (k', v) :: r => if bytes_eqb k' k then Some v else obj_get r k
  end.

Definition p_nil_element : Z := 2.      (* *t.List.Element with Element == nil *)

(* octosql.Null.Is(t) == TypeRelationIs *)
Fixpoint null_is (t : jty) : bool :=
  match t with
  | JNull | JAny => true
  | JUnion alts => (fix go (alts : list jty) : bool := match alts with [] => false | a :: r => null_is a || go r end) alts
  | _ => false
  end.

(* getOctoSQLValue(t, value); [ov] = None is the nil *fastjson.Value of a missing key.
   fixed = false is the pinned code: a missing key is ok only for the type NULL itself (not for a union
   with NULL), there is no case for TypeIDNull (an explicit JSON null is "not ok"), and a non-empty array
   against a list type without element type dereferences nil. *)
Fixpoint get_value (fixed : bool) (t : jty) (ov : option jval) {struct t} : outcome (value * bool) :=
  match ov with
  | None => Ok (VNull, if fixed then null_is t else match t with JNull => true | _ => false end)
  | Some jv =>
    match t with
    | JNull => Ok (VNull, match jv with JVNull => fixed | _ => false end)
    | JFloat => match jv with JVNum b => Ok (VFloat b, true) | _ => Ok (VNull, false) end
    | JBool => match jv with JVBool b => Ok (VBool b, true) | _ => Ok (VNull, false) end
    | JStr => match jv with JVStr s _ _ => Ok (VStr s, true) | _ => Ok (VNull, false) end
    | JTime => match jv with JVStr _ (Some p) _ => Ok (VTime (fst p) (snd p), true) | _ => Ok (VNull, false) end
    | JDur => match jv with JVStr _ _ (Some d) => Ok (VDur d, true) | _ => Ok (VNull, false) end
    | JList e =>
      match jv with
      | JVArr arr =>
        match e with
        | None => match arr with
                  | [] => Ok (VList [], true)
                  | _ => if fixed then Ok (VList [], false) else Panic p_nil_element
                  end
        | Some et =>
          let fix go (arr : list jval) : outcome (list value * bool) :=
            match arr with
            | [] => Ok ([], true)
            | a :: r => match get_value fixed et (Some a) with
                        | Ok (v, ok1) => match go r with
                                         | Ok (vs, ok2) => Ok (v :: vs, ok1 && ok2)
                                         | Err e => Err e | Panic p => Panic p
                                         end
                        | Err e => Err e | Panic p => Panic p
                        end
            end in
          match go arr with
          | Ok (vs, ok) => Ok (VList vs, ok)
          | Err e => Err e | Panic p => Panic p
          end
        end
      | _ => Ok (VNull, false)
      end
    | JStruct fs =>
      match jv with
      | JVObj obj =>
        let fix go (fs : list (bytes * jty)) : outcome (list value * bool) :=
          match fs with
          | [] => Ok ([], true)
          | (name, ft) :: r => match get_value fixed ft (obj_get obj name) with
                               | Ok (v, ok1) => match go r with
                                                | Ok (vs, ok2) => Ok (v :: vs, ok1 && ok2)
                                                | Err e => Err e | Panic p => Panic p
                                                end
                               | Err e => Err e | Panic p => Panic p
                               end
          end in
        match go fs with
        | Ok (vs, ok) => Ok (VStruct vs, ok)
        | Err e => Err e | Panic p => Panic p
        end
      | _ => Ok (VNull, false)
      end
    | JUnion alts =>
      let fix go (alts : list jty) : outcome (value * bool) :=
        match alts with
        | [] => Ok (VNull, false)
        | a :: r => match get_value fixed a (Some jv) with
                    | Ok (v, true) => Ok (v, true)
                    | Ok (_, false) => go r
                    | Err e => Err e | Panic p => Panic p
                    end
        end in
      go alts
    | JInt | JTuple _ | JAny => Ok (VNull, false)      (* no case in the switch: ZeroValue, false *)
    end
  end.

(* the semantic judgement "value v is of type t" *)
Fixpoint has_jtype (t : jty) (v : value) {struct t} : bool :=
  match t with
  | JNull => match v with VNull => true | _ => false end
  | JInt => match v with VInt _ => true | _ => false end
  | JFloat => match v with VFloat _ => true | _ => false end
  | JBool => match v with VBool _ => true | _ => false end
  | JStr => match v with VStr _ => true | _ => false end
  | JTime => match v with VTime _ _ => true | _ => false end
  | JDur => match v with VDur _ => true | _ => false end
  | JList e => match v with
               | VList l => match e with None => is_nil l | Some et => forallb (has_jtype et) l end
               | _ => false
               end
  | JStruct fs => match v with
                  | VStruct vs =>
                    (fix go (fs : list (bytes * jty)) (vs : list value) : bool :=
                       match fs, vs with
                       | [], [] => true
                       | (_, ft) :: fr, x :: xr => has_jtype ft x && go fr xr
                       | _, _ => false
                       end) fs vs
                  | _ => false
                  end
  | JTuple ts => match v with
                 | VTuple vs =>
                   (fix go (ts : list jty) (vs : list value) : bool :=
                      match ts, vs with
                      | [], [] => true
                      | t1 :: tr, x :: xr => has_jtype t1 x && go tr xr
                      | _, _ => false
                      end) ts vs
                 | _ => false
                 end
  | JUnion alts => (fix go (alts : list jty) : bool :=
                      match alts with [] => false | a :: r => has_jtype a v || go r end) alts
  | JAny => true
  end.

(* the worker: values[i], _ = getOctoSQLValue(fields[i].Type, o.Get(fields[i].Name));
   fixed: a value that is not ok makes the line an error (out.err) *)
Definition e_not_representable : Z := 20.
Fixpoint exec_json_row (fixed : bool) (fields : list (bytes * jty)) (obj : list (bytes * jval)) : outcome (list value) :=
  match fields with
  | [] => Ok []
  | (name, t) :: r =>
    match get_value fixed t (obj_get obj name) with
    | Ok (v, ok) =>
        if fixed && negb ok then Err e_not_representable
        else match exec_json_row fixed r obj with
             | Ok vs => Ok (v :: vs)
             | Err e => Err e | Panic p => Panic p
             end
    | Err e => Err e
    | Panic p => Panic p
    end
  end.

(* ---- inference on scalar rows -------------------------------------------------------------------------- *)
Definition scalar_kind (v : jval) : option Z :=
  match v with
  | JVNull => Some t_null
  | JVNum _ => Some t_float
  | JVBool _ => Some t_bool
  | JVStr _ (Some _) _ => Some t_time
  | JVStr _ None _ => Some t_str
  | _ => None
  end.

Definition jty_of_prim (p : Z) : jty :=
  if p =? t_null then JNull else if p =? t_int then JInt else if p =? t_float then JFloat
  else if p =? t_bool then JBool else if p =? t_str then JStr else if p =? t_time then JTime else JAny.
Definition jty_of_fty (t : fty) : jty :=
  match t with FPrim p => jty_of_prim p | FUnion alts => JUnion (map jty_of_prim alts) end.

Definition jfields : Type := list (bytes * fty).

Fixpoint fields_get (fs : jfields) (k : bytes) : option fty :=
  match fs with [] => None | (k', t) :: r => if bytes_eqb k' k then Some t else fields_get r k end.
Fixpoint fields_set (fs : jfields) (k : bytes) (t : fty) : jfields :=
  match fs with
  | [] => [(k, t)]
  | (k', t') :: r => if bytes_eqb k' k then (k', t) :: r else (k', t') :: fields_set r k t
  end.

Definition e_not_scalar : Z := 21.     (* outside the modelled fragment *)

(* o.Visit(...) over the entries of one row.  fixed: a key first seen after the first row starts with
   TypeSum(type, Null) *)
Fixpoint visit_row (fixed : bool) (first_row : bool) (fs : jfields) (entries : list (bytes * jval)) : outcome jfields :=
  match entries with
  | [] => Ok fs
  | (k, v) :: r =>
    match scalar_kind v with
    | None => Err e_not_scalar
    | Some p =>
      let fs' := match fields_get fs k with
                 | Some t => fields_set fs k (type_sum_prim t p)
                 | None => fields_set fs k (if fixed && negb first_row then type_sum_prim (FPrim p) t_null else FPrim p)
                 end in
      visit_row fixed first_row fs' r
    end
  end.

(* fixed: after the row, every known field the row does not have gets TypeSum(type, Null) *)
Definition close_row (fixed : bool) (fs : jfields) (obj : list (bytes * jval)) : jfields :=
  if fixed then map (fun kt => match obj_get obj (fst kt) with
                               | Some _ => kt
                               | None => (fst kt, type_sum_prim (snd kt) t_null)
                               end) fs
  else fs.

Fixpoint infer_json_rows (fixed : bool) (first_row : bool) (fs : jfields) (rows : list (list (bytes * jval))) : outcome jfields :=
  match rows with
  | [] => Ok fs
  | obj :: rest =>
    match visit_row fixed first_row fs obj with
    | Ok fs' => infer_json_rows fixed false (close_row fixed fs' obj) rest
    | Err e => Err e
    | Panic p => Panic p
    end
  end.

Definition infer_json (fixed : bool) (rows : list (list (bytes * jval))) : outcome jfields :=
  infer_json_rows fixed true [] (firstn 100 rows).

Definition jschema (fs : jfields) : list (bytes * jty) := map (fun kt => (fst kt, jty_of_fty (snd kt))) fs.

(* ---- differential cases ------------------------------------------------------------------------------- *)
Fixpoint jvalue_eqb (a b : value) {struct a} : bool :=
  match a, b with
  | VNull, VNull => true
  | VInt x, VInt y => x =? y
  | VFloat x, VFloat y => x =? y
  | VBool x, VBool y => Bool.eqb x y
  | VStr x, VStr y => bytes_eqb x y
  | VTime x _, VTime y _ => x =? y
  | VDur x, VDur y => x =? y
  | VList la, VList lb => list_eqb jvalue_eqb la lb
  | VStruct la, VStruct lb => list_eqb jvalue_eqb la lb
  | VTuple la, VTuple lb => list_eqb jvalue_eqb la lb
  | _, _ => false
  end.

(* value case: (type, json value or missing, observed value, observed ok) through the exported hook *)
Definition jvalue_case : Type := jty * option jval * value * bool.
Definition jvalue_tie (c : jvalue_case) : bool :=
  let '(t, ov, obs, ook) := c in
  match get_value true t ov with
  | Ok (v, ok) => Bool.eqb ok ook && (negb ok || jvalue_eqb v obs)
  | _ => false
  end.
Definition jvalue_spec (c : jvalue_case) : bool :=
  let '(t, ov, obs, ook) := c in negb ook || has_jtype t obs.

(* file case: (schema observed, rows as parsed objects, observed records, observed "no error") *)
Definition jfile_case : Type := list (bytes * jty) * list (list (bytes * jval)) * list (list value) * bool.
Fixpoint exec_json_rows (fields : list (bytes * jty)) (rows : list (list (bytes * jval))) : list (list value) * bool :=
  match rows with
  | [] => ([], true)
  | r :: rest => match exec_json_row true fields r with
                 | Ok vs => let '(out, ok) := exec_json_rows fields rest in (vs :: out, ok)
                 | _ => ([], false)
                 end
  end.
(* when a line is an error the consumer stops at whichever failing job reaches it first: what it has
   produced by then is a prefix of the rows before the first failing one *)
Fixpoint rows_prefixb (a b : list (list value)) : bool :=
  match a, b with
  | [], _ => true
  | x :: xs, y :: ys => list_eqb jvalue_eqb x y && rows_prefixb xs ys
  | _ :: _, [] => false
  end.
Definition jfile_tie (c : jfile_case) : bool :=
  let '(fields, rows, orecs, ook) := c in
  let '(recs, ok) := exec_json_rows fields rows in
  Bool.eqb ok ook && (if ok then list_eqb (list_eqb jvalue_eqb) recs orecs else rows_prefixb orecs recs).
Definition jfile_spec (c : jfile_case) : bool :=
  let '(fields, rows, orecs, ook) := c in
  forallb (fun vs => all2 (fun v f => has_jtype (snd f) v) vs fields) orecs &&
  (negb ook || (length orecs =? length rows)%nat).

(* flat inference case: scalar rows, observed schema as (key, flat type) sorted by key *)
Definition jinfer_case : Type := list (list (bytes * jval)) * jfields.
Definition jinfer_tie (c : jinfer_case) : bool :=
  let '(rows, ofs) := c in
  match infer_json true rows with
  | Ok fs => (length fs =? length ofs)%nat &&
             forallb (fun kt => match fields_get fs (fst kt) with Some t => fty_eqb t (snd kt) | None => false end) ofs
  | _ => false
  end.
