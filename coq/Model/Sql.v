(* Model/Sql.v — C30: AST of the SQL statement fragment with OctoSQL's extensions, the printer that
   interprets the Format templates generated from parser/sqlparser/ast.go (Gen/GenAstFormat.v), and a
   recursive-descent reference parser for the fragment's concrete syntax with the precedence levels of
   sql.y.  Executable definitions only. *)
From Octo Require Export SqlTok.
From Octo Require Export GenAstFormat.
Open Scope Z_scope.

(* ------------------------------------------------------------------ AST *)
Inductive lit := LStr (s : ident) | LInt (neg : bool) (digits : ident) | LFloat (s : ident) | LTrue | LFalse | LNull
  | LHex (s : ident) | LBit (s : ident) | LHexNum (s : ident) | LArg (s : ident).   (* x'..', b'..', 0x.., bind variable *)
Inductive cmpop := OEq | OLt | OGt | OLe | OGe | ONe | ONse | OLike | ONotLike | OIn | ONotIn
  | ORegexp | ONotRegexp | OLikeRe | OLikeReCI | ONotLikeRe | ONotLikeReCI.       (* regexp, not regexp, ~, ~*, !~, !~* *)
Inductive isop := IsNull | IsNotNull | IsTrue | IsNotTrue | IsFalse | IsNotFalse.
Inductive binop := BPlus | BMinus | BMult | BDiv.
Inductive ctype := CTSimple (name : ident) | CTList | CTObject.
Inductive jkind := JInner | JLeft | JRight | JOuter.                  (* JoinTableExpr.Join *)
Inductive jstrategy := SNone | SUndefined | SLookup | SStream.        (* JoinTableExpr.Strategy: "" (outer joins), "undefined", "lookup", "stream" *)

Inductive expr :=
| EAnd (l r : expr) | EOr (l r : expr) | ENot (e : expr)
| ECmp (op : cmpop) (l r : expr)
| EIs (op : isop) (e : expr)
| EBin (op : binop) (l r : expr)
| ENeg (e : expr)                                   (* UnaryExpr "-" *)
| EInterval (e : expr) (unit : ident)
| EFunc (name : ident) (distinct : bool) (args : list expr)
| EFuncStar (name : ident)                          (* f( * ) *)
| EConvert (e : expr) (t : ctype)                   (* e::t, convert(e, t) *)
| EField (e : expr) (f : ident)                     (* e->f *)
| EParen (e : expr)
| ETuple (es : list expr)                           (* ValTuple *)
| ESubquery (s : select)
| ELit (l : lit)
| ECol (t name : ident)                             (* ColName, t = [] when unqualified *)
| ERange (neg : bool) (l from to : expr)             (* RangeCond: [not] between *)
| ECase (e : option expr) (whens : list (expr * expr)) (els : option expr)
| EExists (s : select)
| EIndex (e i : expr)                               (* BinaryExpr "[]": e[i] *)
with select :=                                      (* select_statement *)
| Select (distinct : bool) (items : list sel_expr) (from : list table_expr) (where_ : option expr)
         (group_by : list expr) (having : option expr) (triggers : list trigger) (order_by : list order) (lim : option limit)
| With (ctes : list cte) (body : select)
with cte := Cte (name : ident) (s : select)
with sel_expr := SStar | SQualStar (t : ident) | SExpr (e : expr) (alias : ident) | SExplode (e : expr)
with table_expr :=
| TName (db name alias : ident)                     (* AliasedTableExpr{TableName} *)
| TSub (s : select) (alias : ident)                 (* AliasedTableExpr{Subquery} *)
| TParen (ts : list table_expr)
| TJoin (l : table_expr) (strategy : jstrategy) (kind : jkind) (r : table_expr) (on : option expr)
| TFunc (name : ident) (args : list tvf_arg) (alias : ident)
with tvf_arg :=
| AExpr (name : ident) (e : expr)
| ATable (name : ident) (t : table_expr)
| ADescriptor (name : ident) (t col : ident)
with trigger := TrCounting (e : expr) | TrWatermark | TrEndOfStream | TrDelay (e : expr)
with order := Order (e : expr) (desc : bool)
with limit := Limit (offset : option expr) (rowcount : expr).

Definition is_empty (s : ident) : bool := match s with [] => true | _ => false end.

(* ------------------------------------------------------------------ printer *)
(* the five templates the pinned tree gets wrong are parameters, so the pinned printer can be kept *)
Record templates := {
  t_Select : template; t_TableValuedFunction : template; t_JoinTableExpr : template;
  t_EndOfStreamTrigger : template; t_DelayTrigger : template }.

Definition templates_current : templates := {|
  t_Select := tpl_Select; t_TableValuedFunction := tpl_TableValuedFunction; t_JoinTableExpr := tpl_JoinTableExpr;
  t_EndOfStreamTrigger := tpl_EndOfStreamTrigger; t_DelayTrigger := tpl_DelayTrigger |}.

(* copies of the templates of the pinned tree (before the fix: commits) *)
Definition tpl_Select_pinned : template :=
  [PL [TK K_select]; PV "Comments"; PS "Cache"; PS "Distinct"; PS "Hints"; PV "SelectExprs"; PL [TK K_from]; PV "From";
   PV "Where"; PV "GroupBy"; PV "Having"; PV "OrderBy"; PV "Limit"; PS "Lock"]%string.
Definition tpl_TableValuedFunction_pinned : template := [PV "Name"; PL [TK P_lparen]; PV "Args"; PL [TK P_rparen]]%string.
Definition tpl_JoinTableExpr_pinned : template := [PV "LeftExpr"; PS "Join"; PV "RightExpr"; PV "Condition"]%string.
Definition tpl_EndOfStreamTrigger_pinned : template := [PL [TK K_on; TK K_watermark]].
Definition tpl_DelayTrigger_pinned : template := [PL [TK K_delay]; PV "Delay"]%string.
Definition templates_pinned : templates := {|
  t_Select := tpl_Select_pinned; t_TableValuedFunction := tpl_TableValuedFunction_pinned;
  t_JoinTableExpr := tpl_JoinTableExpr_pinned; t_EndOfStreamTrigger := tpl_EndOfStreamTrigger_pinned;
  t_DelayTrigger := tpl_DelayTrigger_pinned |}.

(* ColIdent / TableIdent (custom, formatID): the identifier, back-quoted when needed, scans as one ID token *)
Definition p_id (s : ident) : list token := [TId s].

(* SQLVal (custom: switch on Type) *)
Definition print_lit (l : lit) : list token :=
  match l with
  | LStr s => [TStr s]
  | LInt neg d => (if neg then [TK P_minus] else []) ++ [TInt d]     (* IntVal "-5" scans as '-' INTEGRAL *)
  | LFloat s => [TFloat s]
  | LTrue => interp tpl_BoolVal [("node", fv_opt [] true)]%string
  | LFalse => interp tpl_BoolVal [("node", fv_opt [] false)]%string
  | LNull => interp tpl_NullVal []
  | LHex s => [THex s]            (* X'%s' scans as HEX *)
  | LBit s => [TBit s]            (* B'%s' scans as BIT_LITERAL *)
  | LHexNum s => [THexNum s]
  | LArg s => [TArg s]            (* WriteArg(":v1") scans as VALUE_ARG *)
  end.

Definition cmp_str (op : cmpop) : list token :=
  match op with
  | OEq => str_EqualStr | OLt => str_LessThanStr | OGt => str_GreaterThanStr | OLe => str_LessEqualStr
  | OGe => str_GreaterEqualStr | ONe => str_NotEqualStr | ONse => str_NullSafeEqualStr
  | OLike => str_LikeStr | ONotLike => str_NotLikeStr | OIn => str_InStr | ONotIn => str_NotInStr
  | ORegexp => str_RegexpStr | ONotRegexp => str_NotRegexpStr | OLikeRe => str_LikeRegexpStr
  | OLikeReCI => str_LikeRegexpCaseInsensitiveStr | ONotLikeRe => str_NotLikeRegexpStr | ONotLikeReCI => str_NotLikeRegexpCaseInsensitiveStr
  end.
Definition is_str (op : isop) : list token :=
  match op with
  | IsNull => str_IsNullStr | IsNotNull => str_IsNotNullStr | IsTrue => str_IsTrueStr
  | IsNotTrue => str_IsNotTrueStr | IsFalse => str_IsFalseStr | IsNotFalse => str_IsNotFalseStr
  end.
Definition bin_str (op : binop) : list token :=
  match op with BPlus => str_PlusStr | BMinus => str_MinusStr | BMult => str_MultStr | BDiv => str_DivStr end.
Definition join_str (k : jkind) : list token :=
  match k with JInner => str_JoinStr | JLeft => str_LeftJoinStr | JRight => str_RightJoinStr | JOuter => str_OuterJoinStr end.
Definition strategy_str (s : jstrategy) : list token :=
  match s with SLookup => str_LookupJoinStrategy | SStream => str_StreamJoinStrategy | SUndefined => [TId [117;110;100;101;102;105;110;101;100]] | SNone => [] end.
Definition strategy_printed (s : jstrategy) : bool := match s with SLookup | SStream => true | _ => false end.

Definition print_ctype (t : ctype) : list token :=
  match t with
  | CTSimple n => interp tpl_ConvertTypeSimple [("Name", fv (p_id n))]%string
  | CTList => interp tpl_ConvertTypeList []
  | CTObject => interp tpl_ConvertTypeObject []
  end.

(* TableName *)
Definition print_tablename (qual name : ident) : list token :=
  if is_empty name then []                                           (* guard_TableName: node.IsEmpty() *)
  else interp tpl_TableName [("!node.Qualifier.IsEmpty()", fv_opt [] (negb (is_empty qual)));
                             ("Qualifier", fv (p_id qual)); ("Name", fv (p_id name))]%string.

(* does the printed text of e start with '-' ?  (UnaryExpr prints its operator directly in front of the
   operand unless the operand is a UnaryExpr; "--" would start a comment) *)
Fixpoint starts_minus (e : expr) : bool :=
  match e with
  | ENeg _ => true
  | ELit (LInt true _) => true
  | EField e' _ | EIndex e' _ => starts_minus e'
  | EBin _ l _ | ECmp _ l _ | EAnd l _ | EOr l _ | EIs _ l | ERange _ l _ _ => starts_minus l
  | _ => false
  end.
Definition is_neg (e : expr) : bool := match e with ENeg _ => true | _ => false end.

Definition lower_byte (c : Z) : Z := if (65 <=? c) && (c <=? 90) then c + 32 else c.
Definition rand_name : ident := [114; 97; 110; 100].
Definition is_rand (e : expr) : bool :=
  match e with
  | EFunc n _ _ | EFuncStar n => ident_eqb (map lower_byte n) rand_name
  | _ => false
  end.
Definition is_null_lit (e : expr) : bool := match e with ELit LNull => true | _ => false end.

Section Printer.
Variable T : templates.

Fixpoint print_expr (e : expr) : list token :=
  match e with
  | EAnd l r => interp tpl_AndExpr [("Left", fv (print_expr l)); ("Right", fv (print_expr r))]%string
  | EOr l r => interp tpl_OrExpr [("Left", fv (print_expr l)); ("Right", fv (print_expr r))]%string
  | ENot x => interp tpl_NotExpr [("Expr", fv (print_expr x))]%string
  | ECmp op l r => interp tpl_ComparisonExpr [("Left", fv (print_expr l)); ("Operator", fv (cmp_str op));
                                               ("Right", fv (print_expr r)); ("node.Escape != nil", fv_opt [] false)]%string
  | EIs op x => interp tpl_IsExpr [("Expr", fv (print_expr x)); ("Operator", fv (is_str op))]%string
  | EBin op l r => interp tpl_BinaryExpr [("node.Operator == ArrayElement", fv_opt [] false); ("Left", fv (print_expr l));
                                          ("Operator", fv (bin_str op)); ("Right", fv (print_expr r))]%string
  | ENeg x =>                                         (* UnaryExpr, custom *)
      if starts_minus x && negb (is_neg x) then [TBad] else str_UMinusStr ++ print_expr x
  | EInterval x u => interp tpl_IntervalExpr [("Expr", fv (print_expr x)); ("Unit", fv (p_id u))]%string
  | EFunc n d args =>                                 (* FuncExpr, custom: "%s(%s%v)" *)
      p_id n ++ [TK P_lparen] ++ (if d then str_DistinctStr else []) ++ interp_list lst_SelectExprs (map print_expr args) ++ [TK P_rparen]
  | EFuncStar n => p_id n ++ [TK P_lparen] ++ interp_list lst_SelectExprs [interp tpl_StarExpr [("!node.TableName.IsEmpty()", fv_opt [] false)]%string] ++ [TK P_rparen]
  | EConvert x t => interp tpl_ConvertExpr [("Expr", fv (print_expr x)); ("Type", fv (print_ctype t))]%string
  | EField x f => interp tpl_ObjectFieldAccess [("Object", fv (print_expr x)); ("Field", fv (p_id f))]%string
  | EParen x => interp tpl_ParenExpr [("Expr", fv (print_expr x))]%string
  | ETuple es => interp tpl_ValTuple [("Self", fv (interp_list lst_Exprs (map print_expr es)))]%string
  | ESubquery s => interp tpl_Subquery [("Select", fv (print_select s))]%string
  | ELit l => print_lit l
  | ECol t n => interp tpl_ColName [("!node.Qualifier.IsEmpty()", fv_opt [] (negb (is_empty t)));
                                    ("Qualifier", fv (print_tablename [] t)); ("Name", fv (p_id n))]%string
  | ERange neg l f t => interp tpl_RangeCond [("Left", fv (print_expr l)); ("Operator", fv (if neg then str_NotBetweenStr else str_BetweenStr));
                                              ("From", fv (print_expr f)); ("To", fv (print_expr t))]%string
  | ECase e whens els =>
      interp tpl_CaseExpr
        [("node.Expr != nil", fv_opt [] (match e with Some _ => true | None => false end));
         ("Expr", fv (match e with Some x => print_expr x | None => [] end));
         ("Whens", fv (List.concat (map (fun w => interp tpl_When [("Cond", fv (print_expr (fst w))); ("Val", fv (print_expr (snd w)))]) whens)));
         ("node.Else != nil", fv_opt [] (match els with Some _ => true | None => false end));
         ("Else", fv (match els with Some x => print_expr x | None => [] end))]%string
  | EExists s => interp tpl_ExistsExpr [("Subquery", fv (interp tpl_Subquery [("Select", fv (print_select s))]))]%string
  | EIndex x i => interp tpl_BinaryExpr [("node.Operator == ArrayElement", fv_opt [] true); ("Left", fv (print_expr x)); ("Right", fv (print_expr i))]%string
  end
with print_select (s : select) : list token :=
  match s with
  | Select d items from w gb hv trs ob lim =>
      interp (t_Select T)
        [("Comments", fv []); ("Cache", fv []); ("Distinct", fv (if d then str_DistinctStr else [])); ("Hints", fv []);
         ("SelectExprs", fv (interp_list lst_SelectExprs (map print_sel items)));
         ("From", fv (interp_list lst_TableExprs (map print_table from)));
         ("Where", fv (match w with
                       | None => []                                     (* guard_Where *)
                       | Some e => interp tpl_Where [("Type", fv str_WhereStr); ("Expr", fv (print_expr e))]
                       end));
         ("GroupBy", fv (interp_list lst_GroupBy (map print_expr gb)));
         ("Having", fv (match hv with
                        | None => []                                     (* guard_Where *)
                        | Some e => interp tpl_Where [("Type", fv str_HavingStr); ("Expr", fv (print_expr e))]
                        end));
         ("Trigger", fv (interp_list lst_Triggers (map print_trigger trs)));
         ("OrderBy", fv (interp_list lst_OrderBy (map print_order ob)));
         ("Limit", fv (match lim with
                       | None => []                                     (* guard_Limit *)
                       | Some (Limit off rc) =>
                           interp tpl_Limit [("node.Offset != nil", fv_opt [] (match off with Some _ => true | None => false end));
                                             ("Offset", fv (match off with Some o => print_expr o | None => [] end));
                                             ("Rowcount", fv (print_expr rc))]
                       end));
         ("Lock", fv [])]%string
  | With ctes body =>
      interp tpl_With [("CommonTableExpressions", fv (interp_list lst_CommonTableExpressions (map print_cte ctes)));
                       ("Select", fv (print_select body))]%string
  end
with print_cte (c : cte) : list token :=
  match c with
  | Cte n s => interp tpl_CommonTableExpression [("Name", fv (p_id n)); ("Select", fv (print_select s))]%string
  end
with print_sel (x : sel_expr) : list token :=
  match x with
  | SStar => interp tpl_StarExpr [("!node.TableName.IsEmpty()", fv_opt [] false)]%string
  | SQualStar t => interp tpl_StarExpr [("!node.TableName.IsEmpty()", fv_opt [] (negb (is_empty t))); ("TableName", fv (print_tablename [] t))]%string
  | SExpr e a => interp tpl_AliasedExpr [("Expr", fv (print_expr e)); ("!node.As.IsEmpty()", fv_opt [] (negb (is_empty a))); ("As", fv (p_id a))]%string
  | SExplode e => interp tpl_ObjectExplode [("Object", fv (print_expr e))]%string
  end
with print_table (t : table_expr) : list token :=
  match t with
  | TName db n a =>
      interp tpl_AliasedTableExpr [("Expr", fv (print_tablename db n)); ("Partitions", fv []);
                                   ("!node.As.IsEmpty()", fv_opt [] (negb (is_empty a))); ("As", fv (p_id a));
                                   ("node.Hints != nil", fv_opt [] false)]%string
  | TSub s a =>
      interp tpl_AliasedTableExpr [("Expr", fv (interp tpl_Subquery [("Select", fv (print_select s))])); ("Partitions", fv []);
                                   ("!node.As.IsEmpty()", fv_opt [] (negb (is_empty a))); ("As", fv (p_id a));
                                   ("node.Hints != nil", fv_opt [] false)]%string
  | TParen ts => interp tpl_ParenTableExpr [("Exprs", fv (interp_list lst_TableExprs (map print_table ts)))]%string
  | TJoin l s k r on =>
      interp (t_JoinTableExpr T)
        [("LeftExpr", fv (print_table l));
         ("node.Strategy == LookupJoinStrategy || node.Strategy == StreamJoinStrategy", fv_opt [] (strategy_printed s));
         ("Strategy", fv (strategy_str s)); ("Join", fv (join_str k)); ("RightExpr", fv (print_table r));
         ("Condition", fv (interp tpl_JoinCondition
                             [("node.On != nil", fv_opt [] (match on with Some _ => true | None => false end));
                              ("On", fv (match on with Some e => print_expr e | None => [] end));
                              ("node.Using != nil", fv_opt [] false)]))]%string
  | TFunc n args a =>
      interp (t_TableValuedFunction T)
        [("Name", fv (p_id n)); ("Args", fv (interp_list lst_TableValuedFunctionArguments (map print_tvf_arg args)));
         ("!node.As.IsEmpty()", fv_opt [] (negb (is_empty a))); ("As", fv (p_id a))]%string
  end
with print_tvf_arg (a : tvf_arg) : list token :=
  match a with
  | AExpr n e => interp tpl_TableValuedFunctionArgument
                   [("Name", fv (p_id n)); ("Value", fv (interp tpl_ExprTableValuedFunctionArgumentValue [("Expr", fv (print_expr e))]))]%string
  | ATable n t => interp tpl_TableValuedFunctionArgument
                   [("Name", fv (p_id n)); ("Value", fv (interp tpl_TableDescriptorTableValuedFunctionArgumentValue [("Table", fv (print_table t))]))]%string
  | ADescriptor n t c =>
      interp tpl_TableValuedFunctionArgument
        [("Name", fv (p_id n));
         ("Value", fv (interp tpl_FieldDescriptorTableValuedFunctionArgumentValue
                         [("Field", fv (interp tpl_ColName [("!node.Qualifier.IsEmpty()", fv_opt [] (negb (is_empty t)));
                                                            ("Qualifier", fv (print_tablename [] t)); ("Name", fv (p_id c))]))]))]%string
  end
with print_trigger (t : trigger) : list token :=
  match t with
  | TrCounting e => interp tpl_CountingTrigger [("Count", fv (print_expr e))]%string
  | TrWatermark => interp tpl_WatermarkTrigger []
  | TrEndOfStream => interp (t_EndOfStreamTrigger T) []
  | TrDelay e => interp (t_DelayTrigger T) [("Delay", fv (print_expr e))]%string
  end
with print_order (o : order) : list token :=
  match o with
  | Order e desc =>                                   (* Order, custom *)
      if negb desc && (is_null_lit e || is_rand e) then print_expr e
      else print_expr e ++ (if desc then str_DescScr else str_AscScr)
  end.
End Printer.

Definition print : select -> list token := print_select templates_current.
Definition print_pinned : select -> list token := print_select templates_pinned.

(* the early-return guards the model relies on (a change is caught by guards_ok = true in the proofs) *)
Definition guards_ok : bool :=
  (String.eqb guard_Where "node == nil || node.Expr == nil" && String.eqb guard_Limit "node == nil"
   && String.eqb guard_TableName "node.IsEmpty()"
   && forallb (fun g => String.eqb g "")
        [guard_Select; guard_AliasedExpr; guard_ObjectExplode; guard_StarExpr; guard_AliasedTableExpr; guard_ParenTableExpr;
         guard_JoinCondition; guard_JoinTableExpr; guard_TableValuedFunction; guard_TableValuedFunctionArgument;
         guard_ExprTableValuedFunctionArgumentValue; guard_TableDescriptorTableValuedFunctionArgumentValue;
         guard_FieldDescriptorTableValuedFunctionArgumentValue; guard_AndExpr; guard_OrExpr; guard_NotExpr; guard_ParenExpr;
         guard_ComparisonExpr; guard_IsExpr; guard_NullVal; guard_BoolVal; guard_ObjectFieldAccess; guard_ColName; guard_ValTuple;
         guard_Subquery; guard_BinaryExpr; guard_IntervalExpr; guard_ConvertExpr; guard_ConvertTypeSimple; guard_ConvertTypeList;
         guard_ConvertTypeObject; guard_WatermarkTrigger; guard_EndOfStreamTrigger; guard_DelayTrigger; guard_CountingTrigger;
         guard_RangeCond; guard_CaseExpr; guard_When; guard_ExistsExpr; guard_With; guard_CommonTableExpression])%string.

(* the precedence levels the reference parser is written with, checked against the lines of sql.y *)
Definition prec_ok : bool :=
  let lv := prec_level sqly_prec in
  let left s := match prec_assoc sqly_prec s with Some ALeft => true | _ => false end in
  let right s := match prec_assoc sqly_prec s with Some ARight => true | _ => false end in
  ((0 <? lv "OR") && (lv "OR" <? lv "AND") && (lv "AND" <? lv "NOT") && (lv "NOT" <? lv "'='")
   && forallb (fun s => lv s =? lv "'='") ["'<'"; "'>'"; "LE"; "GE"; "NE"; "NULL_SAFE_EQUAL"; "IS"; "LIKE"; "IN"; "REGEXP"]
   && (lv "NOT" <? lv "BETWEEN") && (lv "BETWEEN" <? lv "'='") && (lv "CASE" =? lv "BETWEEN") && (lv "'['" =? 0)
   && (lv "'='" <? lv "'+'") && (lv "'-'" =? lv "'+'") && (lv "'+'" <? lv "'*'") && (lv "'/'" =? lv "'*'")
   && (lv "'*'" <? lv "UNARY") && (lv "UNARY" <? lv "INTERVAL")
   && (lv "JOIN" <? lv "ON") && forallb (fun s => lv s =? lv "JOIN") ["LOOKUP"; "LEFT"; "RIGHT"; "OUTER"]
   && (lv "JSON_EXTRACT_OP" =? 0) && (lv "LIST_ARG" =? 0)        (* no precedence: shift, i.e. bind tightest *)
   && forallb left ["OR"; "AND"; "'='"; "IS"; "LIKE"; "IN"; "'+'"; "'-'"; "'*'"; "'/'"; "JOIN"; "ON"]
   && right "NOT" && right "UNARY" && right "INTERVAL")%nat%string.

(* ------------------------------------------------------------------ reference parser *)
Definition res (A : Type) := outcome (A * list token).
Definition E_syntax : Z := 1.    (* not in the fragment's concrete syntax *)
Definition E_fuel : Z := 2.      (* out of fuel: never for the fuel [parse] passes (theorem C30_roundtrip) *)

Notation "'do' ( x , y ) <- a ; b" := (obind a (fun p => let '(x, y) := p in b))
  (at level 200, x name, y name, a at level 100, b at level 200).

Definition expect {A} (k : kw) (ts : list token) (f : list token -> res A) : res A :=
  match ts with
  | TK k' :: r => if kw_eqb k k' then f r else Err E_syntax
  | _ => Err E_syntax
  end.

(* comma separated, non-empty *)
Fixpoint sep_list {A} (item : list token -> res A) (k : nat) (ts : list token) : res (list A) :=
  do (x, r) <- item ts;
  match r with
  | TK P_comma :: r' =>
      match k with
      | O => Err E_fuel
      | S k' => do (xs, r'') <- sep_list item k' r'; Ok (x :: xs, r'')
      end
  | _ => Ok ([x], r)
  end.

(* left-associative chain:  operand (op operand)*  *)
Fixpoint chain_loop (operand : list token -> res expr) (opof : token -> option (expr -> expr -> expr))
         (k : nat) (acc : expr) (ts : list token) : res expr :=
  match ts with
  | t :: r =>
      match opof t with
      | Some mk =>
          match k with
          | O => Err E_fuel
          | S k' => do (x, r') <- operand r; chain_loop operand opof k' (mk acc x) r'
          end
      | None => Ok (acc, ts)
      end
  | [] => Ok (acc, [])
  end.
Definition chain (operand : list token -> res expr) (opof : token -> option (expr -> expr -> expr)) (ts : list token) : res expr :=
  do (a, r) <- operand ts; chain_loop operand opof (List.length r) a r.

Definition op_or (t : token) := match t with TK K_or => Some EOr | _ => None end.
Definition op_and (t : token) := match t with TK K_and => Some EAnd | _ => None end.
Definition op_add (t : token) := match t with TK P_plus => Some (EBin BPlus) | TK P_minus => Some (EBin BMinus) | _ => None end.
Definition op_mul (t : token) := match t with TK P_star => Some (EBin BMult) | TK P_slash => Some (EBin BDiv) | _ => None end.
Definition op_cmp (t : token) : option cmpop :=
  match t with
  | TK P_eq => Some OEq | TK P_lt => Some OLt | TK P_gt => Some OGt | TK P_le => Some OLe | TK P_ge => Some OGe
  | TK P_ne => Some ONe | TK P_nseq => Some ONse | TK K_like => Some OLike
  | TK K_regexp => Some ORegexp | TK P_tilde => Some OLikeRe | TK P_tildestar => Some OLikeReCI
  | TK P_ntilde => Some ONotLikeRe | TK P_ntildestar => Some ONotLikeReCI
  | _ => None
  end.

Definition neg_fold (e : expr) : expr :=
  match e with ELit (LInt neg d) => ELit (LInt (negb neg) d) | _ => ENeg e end.
Definition is_ve (e : expr) : bool :=
  match e with EAnd _ _ | EOr _ _ | ENot _ | ECmp _ _ _ | EIs _ _ | ERange _ _ _ _ | EExists _ => false | _ => true end.

(* the parsers entered recursively (with less fuel) *)
Record parsers := {
  p_expr : list token -> res expr;        (* expression *)
  p_add : list token -> res expr;         (* value_expression *)
  p_select : list token -> res select;    (* select_statement *)
  p_tref : list token -> res table_expr   (* table_reference *) }.

Definition dual : ident := [100; 117; 97; 108].

Section Bodies.
Variable P : parsers.

Definition parse_ctype (ts : list token) : res ctype :=
  match ts with
  | TId s :: r => Ok (CTSimple s, r)
  | TK P_listtype :: r => Ok (CTList, r)
  | TK P_objtype :: r => Ok (CTObject, r)
  | _ => Err E_syntax
  end.

(* WHEN e THEN e, one or more *)
Fixpoint whens_ (k : nat) (ts : list token) : res (list (expr * expr)) :=
  match ts with
  | TK K_when :: r =>
      do (c, r1) <- p_expr P r;
      expect K_then r1 (fun r2 =>
        do (v, r3) <- p_expr P r2;
        match r3 with
        | TK K_when :: _ =>
            match k with
            | O => Err E_fuel
            | S k' => do (ws, r4) <- whens_ k' r3; Ok ((c, v) :: ws, r4)
            end
        | _ => Ok ([(c, v)], r3)
        end)
  | _ => Err E_syntax
  end.

Definition primary_ (ts : list token) : res expr :=
  match ts with
  | TStr s :: r => Ok (ELit (LStr s), r)
  | TInt d :: r => Ok (ELit (LInt false d), r)
  | TFloat s :: r => Ok (ELit (LFloat s), r)
  | TK K_true :: r => Ok (ELit LTrue, r)
  | TK K_false :: r => Ok (ELit LFalse, r)
  | TK K_null :: r => Ok (ELit LNull, r)
  | THex s :: r => Ok (ELit (LHex s), r)
  | TBit s :: r => Ok (ELit (LBit s), r)
  | THexNum s :: r => Ok (ELit (LHexNum s), r)
  | TArg s :: r => Ok (ELit (LArg s), r)
  | TK P_lparen :: (TK K_select :: _) as r | TK P_lparen :: (TK K_with :: _) as r =>
      do (s, r1) <- p_select P r; expect P_rparen r1 (fun r2 => Ok (ESubquery s, r2))
  | TK P_lparen :: r =>
      do (es, r1) <- sep_list (p_expr P) (List.length r) r;
      expect P_rparen r1 (fun r2 => Ok (match es with [e] => EParen e | _ => ETuple es end, r2))
  | TK K_case :: r =>
      do (e, r1) <- match r with
                    | TK K_when :: _ => Ok (None, r)
                    | _ => do (x, r') <- p_expr P r; Ok (Some x, r')
                    end;
      do (ws, r2) <- whens_ (List.length r1) r1;
      match r2 with
      | TK K_else :: r3 => do (x, r4) <- p_expr P r3; expect K_end r4 (fun r5 => Ok (ECase e ws (Some x), r5))
      | TK K_end :: r3 => Ok (ECase e ws None, r3)
      | _ => Err E_syntax
      end
  | TK K_interval :: r =>
      do (e, r1) <- p_add P r;
      match r1 with TId u :: r2 => Ok (EInterval e u, r2) | _ => Err E_syntax end
  | TK K_convert :: TK P_lparen :: r =>
      do (e, r1) <- p_expr P r;
      expect P_comma r1 (fun r2 => do (t, r3) <- parse_ctype r2; expect P_rparen r3 (fun r4 => Ok (EConvert e t, r4)))
  | TId f :: TK P_lparen :: TK P_star :: TK P_rparen :: r => Ok (EFuncStar f, r)
  | TId f :: TK P_lparen :: TK P_rparen :: r => Ok (EFunc f false [], r)
  | TId f :: TK P_lparen :: TK K_distinct :: r =>
      do (es, r1) <- sep_list (p_expr P) (List.length r) r; expect P_rparen r1 (fun r2 => Ok (EFunc f true es, r2))
  | TId f :: TK P_lparen :: r =>
      do (es, r1) <- sep_list (p_expr P) (List.length r) r; expect P_rparen r1 (fun r2 => Ok (EFunc f false es, r2))
  | TId t :: TK P_dot :: TId c :: r => Ok (ECol t c, r)
  | TId c :: r => Ok (ECol [] c, r)
  | _ => Err E_syntax
  end.

(* postfix operators have no precedence in sql.y: the conflict is resolved by shifting, they bind tightest *)
Fixpoint postfix_loop (k : nat) (acc : expr) (ts : list token) : res expr :=
  match ts with
  | TK P_arrow :: r =>
      match k, r with
      | S k', TId f :: r' => postfix_loop k' (EField acc f) r'
      | O, _ => Err E_fuel
      | _, _ => Err E_syntax
      end
  | TK P_cast :: r =>
      match k with
      | S k' => do (t, r') <- parse_ctype r; postfix_loop k' (EConvert acc t) r'
      | O => Err E_fuel
      end
  | TK P_lbracket :: r =>
      match k with
      | S k' => do (i, r') <- p_add P r; expect P_rbracket r' (fun r'' => postfix_loop k' (EIndex acc i) r'')
      | O => Err E_fuel
      end
  | _ => Ok (acc, ts)
  end.
Definition postfix_ (ts : list token) : res expr :=
  do (p, r) <- primary_ ts; postfix_loop (List.length r) p r.

Fixpoint unary_ (ts : list token) : res expr :=
  match ts with
  | TK P_minus :: r => do (e, r') <- unary_ r; Ok (neg_fold e, r')
  | _ => postfix_ ts
  end.

Definition mul_ := chain unary_ op_mul.
Definition add_ := chain mul_ op_add.

Definition in_rhs (ts : list token) : res expr :=
  match ts with
  | TK P_lparen :: (TK K_select :: _) as r | TK P_lparen :: (TK K_with :: _) as r =>
      do (s, r1) <- p_select P r; expect P_rparen r1 (fun r2 => Ok (ESubquery s, r2))
  | TK P_lparen :: r =>
      do (es, r1) <- sep_list (p_expr P) (List.length r) r; expect P_rparen r1 (fun r2 => Ok (ETuple es, r2))
  | _ => Err E_syntax
  end.

(* conditions are not associative: both sides are value_expressions *)
Definition between_ (neg : bool) (l : expr) (ts : list token) : res expr :=
  do (f, r1) <- add_ ts; expect K_and r1 (fun r2 => do (t, r3) <- add_ r2; Ok (ERange neg l f t, r3)).
Definition cond_rest (l : expr) (r : list token) : res expr :=
  match r with
  | TK K_between :: r1 => between_ false l r1
  | TK K_not :: TK K_between :: r1 => between_ true l r1
  | TK K_not :: TK K_regexp :: r1 => do (x, r2) <- add_ r1; Ok (ECmp ONotRegexp l x, r2)
  | TK K_in :: r1 => do (x, r2) <- in_rhs r1; Ok (ECmp OIn l x, r2)
  | TK K_not :: TK K_in :: r1 => do (x, r2) <- in_rhs r1; Ok (ECmp ONotIn l x, r2)
  | TK K_not :: TK K_like :: r1 => do (x, r2) <- add_ r1; Ok (ECmp ONotLike l x, r2)
  | TK K_not :: _ => Err E_syntax
  | t :: r1 =>
      match op_cmp t with
      | Some op => do (x, r2) <- add_ r1; Ok (ECmp op l x, r2)
      | None => Ok (l, r)
      end
  | [] => Ok (l, r)
  end.
Definition cond_ (ts : list token) : res expr :=
  match ts with
  | TK K_exists :: ((TK P_lparen :: (TK K_select :: _)) | (TK P_lparen :: (TK K_with :: _))) as r0 =>
      do (s, r1) <- p_select P (tl r0); expect P_rparen r1 (fun r2 => Ok (EExists s, r2))
  | TK K_exists :: _ => Err E_syntax
  | _ => do (l, r) <- add_ ts; cond_rest l r
  end.

Definition is_suffix (ts : list token) : option (isop * list token) :=
  match ts with
  | TK K_null :: r => Some (IsNull, r)
  | TK K_true :: r => Some (IsTrue, r)
  | TK K_false :: r => Some (IsFalse, r)
  | TK K_not :: TK K_null :: r => Some (IsNotNull, r)
  | TK K_not :: TK K_true :: r => Some (IsNotTrue, r)
  | TK K_not :: TK K_false :: r => Some (IsNotFalse, r)
  | _ => None
  end.
Fixpoint is_loop (k : nat) (acc : expr) (ts : list token) : res expr :=
  match ts with
  | TK K_is :: r =>
      match k, is_suffix r with
      | S k', Some (op, r') => is_loop k' (EIs op acc) r'
      | O, _ => Err E_fuel
      | _, None => Err E_syntax
      end
  | _ => Ok (acc, ts)
  end.
Definition is_ (ts : list token) : res expr :=
  do (c, r) <- cond_ ts; is_loop (List.length r) c r.

Fixpoint not_ (ts : list token) : res expr :=
  match ts with
  | TK K_not :: r => do (e, r') <- not_ r; Ok (ENot e, r')
  | _ => is_ ts
  end.

Definition and_ := chain not_ op_and.
Definition or_ := chain and_ op_or.

(* ---- select ---- *)
Definition sel_item (ts : list token) : res sel_expr :=
  match ts with
  | TK P_star :: r => Ok (SStar, r)
  | _ =>
      do (e, r) <- p_expr P ts;
      match r with
      | TK P_dot :: TK P_star :: r' => match e with ECol [] t => Ok (SQualStar t, r') | _ => Err E_syntax end   (* t.* *)
      | TK P_explode :: r' => if is_ve e then Ok (SExplode e, r') else Err E_syntax
      | TK K_as :: TId a :: r' => Ok (SExpr e a, r')
      | TId a :: r' => Ok (SExpr e a, r')
      | _ => Ok (SExpr e [], r)
      end
  end.

Definition trigger_ (ts : list token) : res trigger :=
  match ts with
  | TK K_counting :: r => do (e, r') <- p_expr P r; Ok (TrCounting e, r')
  | TK K_on :: TK K_watermark :: r => Ok (TrWatermark, r)
  | TK K_on :: TK K_end :: TK K_of :: TK K_stream :: r => Ok (TrEndOfStream, r)
  | TK K_after :: TK K_delay :: r => do (e, r') <- p_expr P r; Ok (TrDelay e, r')
  | _ => Err E_syntax
  end.

Definition order_ (ts : list token) : res order :=
  do (e, r) <- p_expr P ts;
  match r with
  | TK K_asc :: r' => Ok (Order e false, r')
  | TK K_desc :: r' => Ok (Order e true, r')
  | _ => Ok (Order e false, r)
  end.

Definition from_opt (ts : list token) : res (list table_expr) :=
  match ts with
  | TK K_from :: r' => sep_list (p_tref P) (List.length r') r'
  | _ => Ok ([TName [] dual []], ts)          (* from_opt: the grammar supplies the table "dual" *)
  end.
Definition where_opt (ts : list token) : res (option expr) :=
  match ts with
  | TK K_where :: r' => do (e, r'') <- p_expr P r'; Ok (Some e, r'')
  | _ => Ok (None, ts)
  end.
Definition groupby_opt (ts : list token) : res (list expr) :=
  match ts with
  | TK K_group :: TK K_by :: r' => sep_list (p_expr P) (List.length r') r'
  | _ => Ok ([], ts)
  end.
Definition having_opt (ts : list token) : res (option expr) :=
  match ts with
  | TK K_having :: r' => do (e, r'') <- p_expr P r'; Ok (Some e, r'')
  | _ => Ok (None, ts)
  end.
Definition triggers_opt (ts : list token) : res (list trigger) :=
  match ts with
  | TK K_trigger :: r' => sep_list trigger_ (List.length r') r'
  | _ => Ok ([], ts)
  end.
Definition orderby_opt (ts : list token) : res (list order) :=
  match ts with
  | TK K_order :: TK K_by :: r' => sep_list order_ (List.length r') r'
  | _ => Ok ([], ts)
  end.
Definition limit_opt (ts : list token) : res (option limit) :=
  match ts with
  | TK K_limit :: r' =>
      do (e1, r'') <- p_expr P r';
      match r'' with
      | TK P_comma :: r3 => do (e2, r4) <- p_expr P r3; Ok (Some (Limit (Some e1) e2), r4)      (* LIMIT offset, rowcount *)
      | TK K_offset :: r3 => do (e2, r4) <- p_expr P r3; Ok (Some (Limit (Some e2) e1), r4)     (* LIMIT rowcount OFFSET offset *)
      | _ => Ok (Some (Limit None e1), r'')
      end
  | _ => Ok (None, ts)
  end.
Definition distinct_opt (ts : list token) : bool * list token :=
  match ts with TK K_distinct :: r' => (true, r') | _ => (false, ts) end.

Definition cte_ (ts : list token) : res cte :=
  match ts with
  | TId n :: TK K_as :: TK P_lparen :: r => do (s, r1) <- p_select P r; expect P_rparen r1 (fun r2 => Ok (Cte n s, r2))
  | _ => Err E_syntax
  end.

(* cte_list comma_opt: a comma that is not followed by another cte is the optional trailing comma *)
Fixpoint ctes_ (k : nat) (ts : list token) : res (list cte) :=
  do (c, r) <- cte_ ts;
  match r with
  | TK P_comma :: (TId _ :: _) as r' =>
      match k with
      | O => Err E_fuel
      | S k' => do (cs, r'') <- ctes_ k' r'; Ok (c :: cs, r'')
      end
  | TK P_comma :: r' => Ok ([c], r')
  | _ => Ok ([c], r)
  end.

Definition select_ (ts : list token) : res select :=
  match ts with
  | TK K_select :: r0 =>
      let '(d, r) := distinct_opt r0 in
      do (items, r1) <- sep_list sel_item (List.length r) r;
      do (from, r2) <- from_opt r1;
      do (w, r3) <- where_opt r2;
      do (gb, r4) <- groupby_opt r3;
      do (hv, r4') <- having_opt r4;
      do (trs, r5) <- triggers_opt r4';
      do (ob, r6) <- orderby_opt r5;
      do (lim, r7) <- limit_opt r6;
      Ok (Select d items from w gb hv trs ob lim, r7)
  | TK K_with :: r0 =>                       (* WITH cte_list comma_opt select_statement *)
      do (ctes, r1) <- ctes_ (List.length r0) r0;
      do (body, r2) <- p_select P r1;
      Ok (With ctes body, r2)
  | _ => Err E_syntax
  end.

(* ---- table expressions ---- *)
Definition alias_opt (ts : list token) : ident * list token :=
  match ts with
  | TK K_as :: TId a :: r => (a, r)
  | TId a :: r => (a, r)
  | _ => ([], ts)
  end.
Definition alias_req {A} (ts : list token) (f : ident -> list token -> res A) : res A :=
  match ts with
  | TK K_as :: TId a :: r => f a r
  | TId a :: r => f a r
  | _ => Err E_syntax
  end.

Definition tvf_arg_ (ts : list token) : res tvf_arg :=
  match ts with
  | TId n :: TK P_rarrow :: TK K_table :: TK P_lparen :: r =>
      do (t, r1) <- p_tref P r; expect P_rparen r1 (fun r2 => Ok (ATable n t, r2))
  | TId n :: TK P_rarrow :: TK K_descriptor :: TK P_lparen :: TId t :: TK P_dot :: TId c :: TK P_rparen :: r => Ok (ADescriptor n t c, r)
  | TId n :: TK P_rarrow :: TK K_descriptor :: TK P_lparen :: TId c :: TK P_rparen :: r => Ok (ADescriptor n [] c, r)
  | TId n :: TK P_rarrow :: TK K_descriptor :: _ => Err E_syntax
  | TId n :: TK P_rarrow :: r => do (e, r1) <- p_expr P r; Ok (AExpr n e, r1)
  | _ => Err E_syntax
  end.

Definition tfactor_ (ts : list token) : res table_expr :=
  match ts with
  | TK P_lparen :: (TK K_select :: _) as r | TK P_lparen :: (TK K_with :: _) as r =>
      do (s, r1) <- p_select P r; expect P_rparen r1 (fun r2 => alias_req r2 (fun a r3 => Ok (TSub s a, r3)))
  | TK P_lparen :: r =>
      do (l, r1) <- sep_list (p_tref P) (List.length r) r; expect P_rparen r1 (fun r2 => Ok (TParen l, r2))
  | TId f :: TK P_lparen :: TK P_rparen :: r => alias_req r (fun a r1 => Ok (TFunc f [] a, r1))
  | TId f :: TK P_lparen :: r =>
      do (args, r1) <- sep_list tvf_arg_ (List.length r) r;
      expect P_rparen r1 (fun r2 => alias_req r2 (fun a r3 => Ok (TFunc f args a, r3)))
  | TId db :: TK P_dot :: TId n :: r => let '(a, r1) := alias_opt r in Ok (TName db n a, r1)
  | TId n :: r => let '(a, r1) := alias_opt r in Ok (TName [] n a, r1)
  | _ => Err E_syntax
  end.

Definition join_head (ts : list token) : option (jstrategy * jkind * list token) :=
  match ts with
  | TK K_join :: r | TK K_inner :: TK K_join :: r | TK K_cross :: TK K_join :: r => Some (SUndefined, JInner, r)
  | TK K_lookup :: TK K_join :: r | TK K_lookup :: TK K_inner :: TK K_join :: r | TK K_lookup :: TK K_cross :: TK K_join :: r => Some (SLookup, JInner, r)
  | TK K_stream :: TK K_join :: r | TK K_stream :: TK K_inner :: TK K_join :: r | TK K_stream :: TK K_cross :: TK K_join :: r => Some (SStream, JInner, r)
  | TK K_left :: TK K_join :: r | TK K_left :: TK K_outer :: TK K_join :: r => Some (SNone, JLeft, r)
  | TK K_right :: TK K_join :: r | TK K_right :: TK K_outer :: TK K_join :: r => Some (SNone, JRight, r)
  | TK K_outer :: TK K_join :: r => Some (SNone, JOuter, r)
  | _ => None
  end.

(* JOIN is %left and ON binds tighter than JOIN: an inner join takes an ON that follows it;
   an outer join's right side is a whole table_reference and its ON is mandatory *)
Fixpoint join_loop (k : nat) (acc : table_expr) (ts : list token) : res table_expr :=
  match join_head ts with
  | None => Ok (acc, ts)
  | Some (s, JInner, r) =>
      match k with
      | O => Err E_fuel
      | S k' =>
          do (f, r1) <- tfactor_ r;
          match r1 with
          | TK K_on :: r2 => do (e, r3) <- p_expr P r2; join_loop k' (TJoin acc s JInner f (Some e)) r3
          | _ => join_loop k' (TJoin acc s JInner f None) r1
          end
      end
  | Some (s, j, r) =>
      match k with
      | O => Err E_fuel
      | S k' =>
          do (t, r1) <- p_tref P r;
          match r1 with
          | TK K_on :: r2 => do (e, r3) <- p_expr P r2; join_loop k' (TJoin acc s j t (Some e)) r3
          | _ => Err E_syntax
          end
      end
  end.
Definition tref_ (ts : list token) : res table_expr :=
  do (f, r) <- tfactor_ ts; join_loop (List.length r) f r.

Definition bodies : parsers := {| p_expr := or_; p_add := add_; p_select := select_; p_tref := tref_ |}.
End Bodies.

Definition no_parsers : parsers :=
  {| p_expr := fun _ => Err E_fuel; p_add := fun _ => Err E_fuel; p_select := fun _ => Err E_fuel; p_tref := fun _ => Err E_fuel |}.
Fixpoint parsers_at (n : nat) : parsers :=
  match n with O => no_parsers | S n' => bodies (parsers_at n') end.

(* every nested entry consumes a token first, so the token count is enough fuel *)
Definition parse (ts : list token) : outcome select :=
  match p_select (parsers_at (S (List.length ts))) ts with
  | Ok (s, []) => Ok s
  | Ok (_, _ :: _) => Err E_syntax
  | Err e => Err e
  | Panic s => Panic s
  end.
Definition parse_with_fuel (n : nat) (ts : list token) : outcome select :=
  match p_select (parsers_at n) ts with
  | Ok (s, []) => Ok s
  | Ok (_, _ :: _) => Err E_syntax
  | Err e => Err e
  | Panic s => Panic s
  end.

(* ------------------------------------------------------------------ executable equality (for the ties) *)
Definition option_eqb {A} (eqb : A -> A -> bool) (a b : option A) : bool :=
  match a, b with Some x, Some y => eqb x y | None, None => true | _, _ => false end.
Definition lit_eqb (a b : lit) : bool :=
  match a, b with
  | LStr x, LStr y | LFloat x, LFloat y => ident_eqb x y
  | LInt n x, LInt m y => Bool.eqb n m && ident_eqb x y
  | LHex x, LHex y | LBit x, LBit y | LHexNum x, LHexNum y | LArg x, LArg y => ident_eqb x y
  | LTrue, LTrue | LFalse, LFalse | LNull, LNull => true
  | _, _ => false
  end.
Definition cmpop_eqb (a b : cmpop) : bool :=
  match a, b with
  | OEq, OEq | OLt, OLt | OGt, OGt | OLe, OLe | OGe, OGe | ONe, ONe | ONse, ONse | OLike, OLike
  | ONotLike, ONotLike | OIn, OIn | ONotIn, ONotIn | ORegexp, ORegexp | ONotRegexp, ONotRegexp | OLikeRe, OLikeRe
  | OLikeReCI, OLikeReCI | ONotLikeRe, ONotLikeRe | ONotLikeReCI, ONotLikeReCI => true
  | _, _ => false
  end.
Definition isop_eqb (a b : isop) : bool :=
  match a, b with
  | IsNull, IsNull | IsNotNull, IsNotNull | IsTrue, IsTrue | IsNotTrue, IsNotTrue | IsFalse, IsFalse | IsNotFalse, IsNotFalse => true
  | _, _ => false
  end.
Definition binop_eqb (a b : binop) : bool :=
  match a, b with BPlus, BPlus | BMinus, BMinus | BMult, BMult | BDiv, BDiv => true | _, _ => false end.
Definition ctype_eqb (a b : ctype) : bool :=
  match a, b with CTSimple x, CTSimple y => ident_eqb x y | CTList, CTList | CTObject, CTObject => true | _, _ => false end.
Definition jkind_eqb (a b : jkind) : bool :=
  match a, b with JInner, JInner | JLeft, JLeft | JRight, JRight | JOuter, JOuter => true | _, _ => false end.
Definition jstrategy_eqb (a b : jstrategy) : bool :=
  match a, b with SNone, SNone | SUndefined, SUndefined | SLookup, SLookup | SStream, SStream => true | _, _ => false end.

Fixpoint expr_eqb (a b : expr) : bool :=
  match a, b with
  | EAnd l r, EAnd l' r' | EOr l r, EOr l' r' => expr_eqb l l' && expr_eqb r r'
  | ENot x, ENot y | ENeg x, ENeg y | EParen x, EParen y => expr_eqb x y
  | ECmp o l r, ECmp o' l' r' => cmpop_eqb o o' && expr_eqb l l' && expr_eqb r r'
  | EIs o x, EIs o' y => isop_eqb o o' && expr_eqb x y
  | EBin o l r, EBin o' l' r' => binop_eqb o o' && expr_eqb l l' && expr_eqb r r'
  | EInterval x u, EInterval y v => expr_eqb x y && ident_eqb u v
  | EFunc n d xs, EFunc m e ys => ident_eqb n m && Bool.eqb d e && list_eqb expr_eqb xs ys
  | EFuncStar n, EFuncStar m => ident_eqb n m
  | EConvert x t, EConvert y u => expr_eqb x y && ctype_eqb t u
  | EField x f, EField y g => expr_eqb x y && ident_eqb f g
  | ETuple xs, ETuple ys => list_eqb expr_eqb xs ys
  | ESubquery s, ESubquery s' => select_eqb s s'
  | ELit x, ELit y => lit_eqb x y
  | ECol t n, ECol t' n' => ident_eqb t t' && ident_eqb n n'
  | ERange n l f t, ERange n' l' f' t' => Bool.eqb n n' && expr_eqb l l' && expr_eqb f f' && expr_eqb t t'
  | ECase e ws x, ECase e' ws' x' =>
      option_eqb expr_eqb e e' && list_eqb (fun p q => expr_eqb (fst p) (fst q) && expr_eqb (snd p) (snd q)) ws ws' && option_eqb expr_eqb x x'
  | EExists s, EExists s' => select_eqb s s'
  | EIndex x i, EIndex y j => expr_eqb x y && expr_eqb i j
  | _, _ => false
  end
with select_eqb (a b : select) : bool :=
  match a, b with
  | With cs x, With cs' x' =>
      list_eqb (fun p q => match p, q with Cte n s, Cte n' s' => ident_eqb n n' && select_eqb s s' end) cs cs' && select_eqb x x'
  | Select d i f w g h t o l, Select d' i' f' w' g' h' t' o' l' =>
      Bool.eqb d d' && list_eqb sel_eqb i i' && list_eqb table_eqb f f' && option_eqb expr_eqb w w'
      && list_eqb expr_eqb g g' && option_eqb expr_eqb h h' && list_eqb trigger_eqb t t' && list_eqb order_eqb o o'
      && option_eqb (fun x y => match x, y with Limit ox rx, Limit oy ry => option_eqb expr_eqb ox oy && expr_eqb rx ry end) l l'
  | _, _ => false
  end
with sel_eqb (a b : sel_expr) : bool :=
  match a, b with
  | SStar, SStar => true
  | SQualStar t, SQualStar u => ident_eqb t u
  | SExpr e x, SExpr f y => expr_eqb e f && ident_eqb x y
  | SExplode e, SExplode f => expr_eqb e f
  | _, _ => false
  end
with table_eqb (a b : table_expr) : bool :=
  match a, b with
  | TName d n x, TName d' n' x' => ident_eqb d d' && ident_eqb n n' && ident_eqb x x'
  | TSub s x, TSub s' x' => select_eqb s s' && ident_eqb x x'
  | TParen l, TParen l' => list_eqb table_eqb l l'
  | TJoin l s k r o, TJoin l' s' k' r' o' =>
      table_eqb l l' && jstrategy_eqb s s' && jkind_eqb k k' && table_eqb r r' && option_eqb expr_eqb o o'
  | TFunc n xs x, TFunc n' ys y => ident_eqb n n' && list_eqb tvf_eqb xs ys && ident_eqb x y
  | _, _ => false
  end
with tvf_eqb (a b : tvf_arg) : bool :=
  match a, b with
  | AExpr n e, AExpr m f => ident_eqb n m && expr_eqb e f
  | ATable n t, ATable m u => ident_eqb n m && table_eqb t u
  | ADescriptor n t c, ADescriptor m u d => ident_eqb n m && ident_eqb t u && ident_eqb c d
  | _, _ => false
  end
with trigger_eqb (a b : trigger) : bool :=
  match a, b with
  | TrCounting e, TrCounting f | TrDelay e, TrDelay f => expr_eqb e f
  | TrWatermark, TrWatermark | TrEndOfStream, TrEndOfStream => true
  | _, _ => false
  end
with order_eqb (a b : order) : bool :=
  match a, b with Order e d, Order f c => expr_eqb e f && Bool.eqb d c end.

(* ------------------------------------------------------------------ the ties (checked on every case) *)
(* a case: is the statement written in the fragment's concrete syntax (says the generator); tokens of the statement as
   written (real Tokenizer); the real parser's tree serialised into the model AST; tokens of sqlparser.String(tree) *)
Definition c30_case := (bool * list token * select * list token)%type.

(* (1) printer tie: the model printer, interpreting the generated templates, yields the tokens of the real String *)
Definition c30_tie_print (c : c30_case) : bool := let '(_, _, a, printed) := c in tokens_eqb (print a) printed.
(* (2) parser tie: the reference parser on the statement's tokens yields the real parser's tree; a statement not known to be
   in the fragment's concrete syntax may be rejected (E_syntax) by the reference parser, but never read differently *)
Definition c30_tie_parse (c : c30_case) : bool :=
  let '(insyntax, src, a, _) := c in
  match parse src with
  | Ok a' => select_eqb a' a
  | Err e => negb insyntax && (e =? E_syntax)
  | Panic _ => false
  end.
(* the round trip of what the implementation printed, through the reference parser (oracle on the implementation's output) *)
Definition c30_spec (c : c30_case) : bool :=
  let '(_, _, a, printed) := c in match parse printed with Ok a' => select_eqb a' a | _ => false end.

(* one pinned template at a time (for the five refutation witnesses) *)
Definition templates_pinned_select := {| t_Select := tpl_Select_pinned; t_TableValuedFunction := tpl_TableValuedFunction;
  t_JoinTableExpr := tpl_JoinTableExpr; t_EndOfStreamTrigger := tpl_EndOfStreamTrigger; t_DelayTrigger := tpl_DelayTrigger |}.
Definition templates_pinned_tvf := {| t_Select := tpl_Select; t_TableValuedFunction := tpl_TableValuedFunction_pinned;
  t_JoinTableExpr := tpl_JoinTableExpr; t_EndOfStreamTrigger := tpl_EndOfStreamTrigger; t_DelayTrigger := tpl_DelayTrigger |}.
Definition templates_pinned_join := {| t_Select := tpl_Select; t_TableValuedFunction := tpl_TableValuedFunction;
  t_JoinTableExpr := tpl_JoinTableExpr_pinned; t_EndOfStreamTrigger := tpl_EndOfStreamTrigger; t_DelayTrigger := tpl_DelayTrigger |}.
Definition templates_pinned_eos := {| t_Select := tpl_Select; t_TableValuedFunction := tpl_TableValuedFunction;
  t_JoinTableExpr := tpl_JoinTableExpr; t_EndOfStreamTrigger := tpl_EndOfStreamTrigger_pinned; t_DelayTrigger := tpl_DelayTrigger |}.
Definition templates_pinned_delay := {| t_Select := tpl_Select; t_TableValuedFunction := tpl_TableValuedFunction;
  t_JoinTableExpr := tpl_JoinTableExpr; t_EndOfStreamTrigger := tpl_EndOfStreamTrigger; t_DelayTrigger := tpl_DelayTrigger_pinned |}.
