(* Model/TypesClash.v — the input class of the C10 finding "sum-of-different-shapes", as an executable predicate.
   sum_clash a b = true  iff  the computation of TypeSum(a, b) reaches a struct/struct merge whose two field-name
   lists differ or are not strictly ascending, or a tuple/tuple merge of different arities (at any depth, following
   exactly the positions TypeSum merges, including the accumulator of the union/union fold).
   inter_clash / value_clash: the same for the TypeSum calls made by TypeIntersection and by Value.Type.
   Executable definitions only. *)
From Octo Require Import Types.

Definition bytes_lt (a b : list Z) : bool := bytes_cmp a b =? -1.
Fixpoint names_ascending (ns : list (list Z)) : bool :=
  match ns with
  | x :: ((y :: _) as rest) => bytes_lt x y && names_ascending rest
  | _ => true
  end.
Definition struct_shapes_ok (f1 f2 : list (list Z * ty)) : bool :=
  list_eqb bytes_eqb (map fst f1) (map fst f2) && names_ascending (map fst f1).

Section ClashLevel.
  Variable rec : ty -> ty -> outcome ty.   (* TypeSum one container level down *)
  Variable recc : ty -> ty -> bool.        (* the class predicate one container level down *)

  Fixpoint fields_clash (f1 f2 : list (list Z * ty)) : bool :=
    match f1, f2 with
    | (_, x) :: r1, (_, y) :: r2 => recc x y || fields_clash r1 r2
    | _, _ => false
    end.
  Fixpoint elems_clash (l1 l2 : list ty) : bool :=
    match l1, l2 with
    | x :: r1, y :: r2 => recc x y || elems_clash r1 r2
    | _, _ => false
    end.

  (* mirrors sum_flat *)
  Definition clash_flat (a b : ty) : bool :=
    if is_Is (is_rel a b) then false
    else if is_Is (is_rel b a) then false
    else match a with
         | TStruct f1 =>
             match b with
             | TStruct f2 => negb (struct_shapes_ok f1 f2) || fields_clash f1 f2
             | _ => false
             end
         | TList (Some x) => match b with TList (Some y) => recc x y | _ => false end
         | TTuple l1 =>
             match b with
             | TTuple l2 => negb (Nat.eqb (length l1) (length l2)) || elems_clash l2 l1   (* equal arity: longer = t2 *)
             | _ => false
             end
         | _ => false
         end.

  (* mirrors replace_first_tid / sum_union_single *)
  Fixpoint clash_first_tid (alts : list ty) (b : ty) : bool :=
    match alts with
    | [] => false
    | a :: rest => if tyid a =? tyid b then clash_flat a b else clash_first_tid rest b
    end.

  (* mirrors type_sum_level *)
  Definition clash_level : ty -> ty -> bool :=
    fix go (a b : ty) {struct b} : bool :=
      if is_Is (is_rel a b) then false
      else if is_Is (is_rel b a) then false
      else match b with
           | TUnion alts2 =>
               match a with
               | TUnion alts1 =>
                   (fix fold (l : list ty) (out : outcome ty) : bool :=
                      match l with
                      | [] => false
                      | bk :: rest =>
                          match out with
                          | Ok o => go o bk || fold rest (type_sum_level rec o bk)
                          | _ => true
                          end
                      end) alts2 (Ok (TUnion alts1))
               | _ => clash_first_tid alts2 a
               end
           | _ =>
               match a with
               | TUnion alts1 => clash_first_tid alts1 b
               | _ => clash_flat a b
               end
           end.
End ClashLevel.

Fixpoint sum_clash_f (fuel : nat) : ty -> ty -> bool :=
  match fuel with
  | O => fun _ _ => true
  | S f => clash_level (type_sum f) (sum_clash_f f)
  end.
Definition sum_clash (a b : ty) : bool := sum_clash_f (sum_fuel a b) a b.

(* TypeIntersection: the accumulating TypeSum(out, t) calls *)
Definition inter_clash_step (other : ty) (acc : outcome (option ty) * bool) (t : ty) : outcome (option ty) * bool :=
  match fst acc with
  | Ok (Some out) => if is_Is (is_rel t other) then (inter_step other (fst acc) t, snd acc || sum_clash out t)
                     else acc
  | _ => (inter_step other (fst acc) t, snd acc)
  end.
Definition inter_clash (a b : ty) : bool :=
  snd (fold_left (inter_clash_step a) (prims b) (fold_left (inter_clash_step b) (prims a) (Ok None, false))).

(* Value.Type: the TypeSum(element, next) calls of every list inside the value *)
Fixpoint value_clash (v : value) : bool :=
  match v with
  | VList l =>
      existsb value_clash l ||
      snd (fold_left (fun (acc : outcome (option ty) * bool) x =>
             match fst acc, type_of_value x with
             | Ok None, Ok t => (Ok (Some t), snd acc)
             | Ok (Some e), Ok t => (obind (tsum e t) (fun s => Ok (Some s)), snd acc || sum_clash e t)
             | _, _ => (Err 1, true)
             end) l (Ok None, false))
  | VStruct l | VTuple l => existsb value_clash l
  | _ => false
  end.
