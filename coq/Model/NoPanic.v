(* Model/NoPanic.v — the panic sites reachable from user input in the modelled fragment (C07).
   Executable definitions only.  Each site is a small model of the Go code that can panic, written twice:
   [*_pinned] follows the pinned tree (the Go runtime panic is the outcome [Panic site]), the unsuffixed
   definition follows the repaired code (an error return, or a guarded operation).  Several repairs are
   owned by other properties (C12 substr; C13 `/`, `*`, `[]`; C04 VariablesUsed; C25 CSV formatter;
   C20 max_diff_watermark, poll; C01/C03 count()); for those the unsuffixed model states the shape the repair
   must have (no panic), not its exact result.
   Strings are represented by their length where only bounds matter. *)
From Octo Require Export Values.

Definition site_int_div : Z := 1.
Definition site_dur_div : Z := 2.
Definition site_repeat : Z := 3.
Definition site_slice : Z := 4.
Definition site_list_index : Z := 5.
Definition site_count_no_arg : Z := 6.
Definition site_variables_used : Z := 7.
Definition site_csv_value : Z := 8.
Definition site_resolution_zero : Z := 9.
Definition site_poll_nil : Z := 10.
Definition site_tvf_assert : Z := 11.
Definition site_typecheck : Z := 12.

Definition err_div_zero : Z := 1.
Definition err_negative : Z := 2.
Definition err_too_long : Z := 3.
Definition err_no_argument : Z := 4.
Definition err_bad_argument : Z := 5.
Definition err_typecheck : Z := 6.

(* ---- 1. "/" on (Int, Int) and (Duration, Int): Go's integer division panics on a zero divisor;
        MinInt64 / -1 wraps and does not panic ---- *)
Definition go_quot (a b : Z) : Z := wrap64 (Z.quot a b).
Definition int_div_pinned (a b : Z) : outcome Z := if b =? 0 then Panic site_int_div else Ok (go_quot a b).
Definition int_div (a b : Z) : outcome Z := if b =? 0 then Err err_div_zero else Ok (go_quot a b).
Definition dur_div_pinned (a b : Z) : outcome Z := if b =? 0 then Panic site_dur_div else Ok (go_quot a b).
Definition dur_div (a b : Z) : outcome Z := if b =? 0 then Err err_div_zero else Ok (go_quot a b).

(* ---- 2. "*" on (String, Int): strings.Repeat panics on a negative count and when len*count overflows int ---- *)
Definition repeat_pinned (len count : Z) : outcome Z :=
  if count <? 0 then Panic site_repeat
  else if max_int64 <? len * count then Panic site_repeat
  else Ok (len * count).
Definition repeat_len (len count : Z) : outcome Z :=
  if count <? 0 then Err err_negative
  else if max_int64 <? len * count then Err err_too_long
  else Ok (len * count).

(* ---- 3. substr: s[i:j] panics unless 0 <= i <= j <= len(s) ---- *)
Definition go_slice (len i j : Z) : outcome (Z * Z) :=
  if (0 <=? i) && (i <=? j) && (j <=? len) then Ok (i, j) else Panic site_slice.
Definition substr2_pinned (len start : Z) : outcome (Z * Z) :=
  if len <=? start then Ok (0, 0) else go_slice len start len.
Definition substr3_pinned (len start length : Z) : outcome (Z * Z) :=
  if len <=? start then Ok (0, 0)
  else let e := wrap64 (start + length) in
       go_slice len start (if len <? e then len else e).
(* after fix a0c2df7 (C12) *)
Definition substr2 (len start : Z) : outcome (Z * Z) :=
  if start <? 0 then Err err_negative
  else if len <=? start then Ok (0, 0) else go_slice len start len.
Definition substr3 (len start length : Z) : outcome (Z * Z) :=
  if start <? 0 then Err err_negative
  else if length <? 0 then Err err_negative
  else if len <=? start then Ok (0, 0)
  else go_slice len start (if length <? len - start then start + length else len).

(* ---- 4. list[index] ---- *)
Definition list_index_pinned {A} (l : list A) (i : Z) : outcome (option A) :=
  if Z.of_nat (length l) <=? i then Ok None
  else if i <? 0 then Panic site_list_index
  else match nth_error l (Z.to_nat i) with Some x => Ok (Some x) | None => Panic site_list_index end.
Definition list_index {A} (l : list A) (i : Z) : outcome (option A) :=
  if (Z.of_nat (length l) <=? i) || (i <? 0) then Ok None
  else match nth_error l (Z.to_nat i) with Some x => Ok (Some x) | None => Panic site_list_index end.

(* ---- 5. ParseAggregate: expr.Exprs[0] ---- *)
Inductive agg_arg := ArgExpr | ArgStar | ArgOther.
Definition parse_aggregate_pinned (args : list agg_arg) : outcome Z :=
  match args with
  | [] => Panic site_count_no_arg
  | ArgExpr :: _ => Ok 0 | ArgStar :: _ => Ok 1 | ArgOther :: _ => Err err_bad_argument
  end.
Definition parse_aggregate (args : list agg_arg) : outcome Z :=
  match args with
  | [] => Err err_no_argument
  | ArgExpr :: _ => Ok 0 | ArgStar :: _ => Ok 1 | ArgOther :: _ => Err err_bad_argument
  end.

(* ---- 6. physical.Expression.VariablesUsed (used by the join-key optimizer rule on every JOIN ... ON part) ---- *)
Inductive pexpr :=
| XVar (name : Z) | XConst
| XCall (args : list pexpr) | XAnd (args : list pexpr) | XOr (args : list pexpr)
| XQuery                                  (* subquery expression: variables of the subquery are not collected *)
| XCoalesce (args : list pexpr) | XTuple (args : list pexpr)
| XAssert (e : pexpr) | XCast (e : pexpr) | XField (e : pexpr).
Fixpoint seq_outcomes {A} (l : list (outcome (list A))) : outcome (list A) :=
  match l with
  | [] => Ok []
  | o :: rest => obind o (fun a => obind (seq_outcomes rest) (fun b => Ok (a ++ b)))
  end.
Fixpoint vars_used_pinned (e : pexpr) : outcome (list Z) :=
  match e with
  | XVar n => Ok [n]
  | XConst => Ok []
  | XCall args | XAnd args | XOr args => seq_outcomes (map vars_used_pinned args)
  | XAssert e | XCast e => vars_used_pinned e
  | XQuery | XCoalesce _ | XTuple _ | XField _ => Panic site_variables_used    (* "unexhaustive expression type match" *)
  end.
Fixpoint vars_used (e : pexpr) : outcome (list Z) :=
  match e with
  | XVar n => Ok [n]
  | XConst | XQuery => Ok []
  | XCall args | XAnd args | XOr args | XCoalesce args | XTuple args => seq_outcomes (map vars_used args)
  | XAssert e | XCast e | XField e => vars_used e
  end.

(* ---- 7. FormatCSVValue ---- *)
Definition csv_value_pinned (v : value) : outcome Z :=
  match v with
  | VList _ | VStruct _ | VTuple _ => Panic site_csv_value
  | _ => Ok (tid v)
  end.
Definition csv_value (v : value) : outcome Z := Ok (tid v).       (* every kind has a rendering *)

(* ---- 8. max_diff_watermark: UnixNano()/int64(resolution)*int64(resolution) ---- *)
Definition round_down_pinned (ns res : Z) : outcome Z :=
  if res =? 0 then Panic site_resolution_zero else Ok (wrap64 (go_quot ns res * res)).
Definition round_down (ns res : Z) : outcome Z :=
  if res =? 0 then Err err_div_zero else Ok (wrap64 (go_quot ns res * res)).

(* ---- 9. tumble: Time.Truncate(d) returns t unchanged for d <= 0: no panic site, kept for the record ---- *)
Definition truncate (ns d : Z) : outcome Z :=
  if d <=? 0 then Ok ns else Ok (ns - Z.modulo (ns - zero_ns) d).

(* ---- 10/11. table valued functions: argument kinds.  logical/tvf.go matches the kinds of the given arguments
   against the descriptors before TypecheckArguments runs its unchecked type assertions
   args["x"].(pointer to ArgumentValue<Kind>); poll declares poll_interval as a DESCRIPTOR and then materializes
   intervalExpr.Expression.Expression (nil for a descriptor argument) ---- *)
Inductive akind := KExpr | KTable | KDesc.
Definition akind_eqb (a b : akind) : bool :=
  match a, b with KExpr, KExpr | KTable, KTable | KDesc, KDesc => true | _, _ => false end.
(* one argument: (kind the descriptor declares, kind TypecheckArguments asserts, kind Materialize reads, kind given; None = absent) *)
Record tvf_arg := mktvf { decl : akind; asserted : akind; read : akind; required : bool; given : option akind }.
Definition tvf_match (a : tvf_arg) : bool :=
  match given a with Some k => akind_eqb k (decl a) | None => negb (required a) end.
Definition tvf_assert_one (a : tvf_arg) : outcome unit :=
  match given a with
  | Some k => if akind_eqb k (asserted a) then Ok tt else Panic site_tvf_assert
  | None => if required a then Panic site_tvf_assert else Ok tt     (* assertion on a nil interface *)
  end.
Definition tvf_read_one (a : tvf_arg) : outcome unit :=
  match given a with
  | Some k => if akind_eqb k (read a) then Ok tt else Panic site_poll_nil
  | None => Ok tt
  end.
Fixpoint all_ok (l : list (outcome unit)) : outcome unit :=
  match l with [] => Ok tt | o :: rest => obind o (fun _ => all_ok rest) end.
(* the panic("unknown table valued function ...") and every panic of TypecheckArguments happen under
   cmd/root.go typecheckNode's recover: they come out as errors *)
Definition recover_typecheck {A} (o : outcome A) : outcome A :=
  match o with Panic _ => Err err_typecheck | _ => o end.
Definition tvf_typecheck (args : list tvf_arg) : outcome unit :=
  recover_typecheck
    (if forallb tvf_match args then all_ok (map tvf_assert_one args) else Panic site_typecheck).
(* Materialize runs outside the recover *)
Definition tvf_run (args : list tvf_arg) : outcome unit :=
  obind (tvf_typecheck args) (fun _ => all_ok (map tvf_read_one args)).
(* a descriptor table is consistent when declaration, assertion and use agree (all four TVFs of the tree except poll.poll_interval) *)
Definition tvf_consistent (a : tvf_arg) : bool := akind_eqb (decl a) (asserted a) && akind_eqb (decl a) (read a).

(* the four descriptor tables of table_valued_functions/*.go; [given] is filled in by the caller *)
Definition tvf_range (s e : option akind) : list tvf_arg :=
  [mktvf KExpr KExpr KExpr true s; mktvf KExpr KExpr KExpr true e].
Definition tvf_max_diff (src md tf res : option akind) : list tvf_arg :=
  [mktvf KTable KTable KTable true src; mktvf KExpr KExpr KExpr true md; mktvf KDesc KDesc KDesc true tf;
   mktvf KExpr KExpr KExpr false res].
Definition tvf_tumble (src wl tf off : option akind) : list tvf_arg :=
  [mktvf KTable KTable KTable true src; mktvf KExpr KExpr KExpr true wl; mktvf KDesc KDesc KDesc false tf;
   mktvf KExpr KExpr KExpr false off].
Definition tvf_poll_pinned (src pi : option akind) : list tvf_arg :=
  [mktvf KTable KTable KTable true src; mktvf KDesc KDesc KExpr false pi].
Definition tvf_poll (src pi : option akind) : list tvf_arg :=
  [mktvf KTable KTable KTable true src; mktvf KExpr KExpr KExpr false pi].

(* ==== sites found after the first round ==== *)
Definition site_limit_no_record : Z := 13.
Definition site_json_nil_element : Z := 14.
Definition site_join_retraction : Z := 15.
Definition site_coalesce_tuple : Z := 16.
Definition site_repeat_memory : Z := 17.
Definition err_unknown_variable : Z := 7.
Definition err_not_int : Z := 8.
Definition err_tuple_length : Z := 9.

(* ---- 12. the outermost LIMIT (cmd/root.go): the expression is evaluated once, with a nil VariableContext.
   [lvars] = the column references in it, [lint] = its static type is Int.  Pinned: typechecked against the output
   schema (columns resolve) with no type expectation; Variable.Evaluate then dereferences the nil context.
   After fix c96f03c: typechecked like a subquery's limit — no record schema (a column is an unknown variable) and
   expected type Int. ---- *)
Record limexpr := mklim { lvars : list Z; lint : bool }.
Definition limit_eval_pinned (cols : list Z) (e : limexpr) : outcome bool :=
  if forallb (fun v => existsb (Z.eqb v) cols) (lvars e)
  then match lvars e with [] => Ok (lint e) | _ :: _ => Panic site_limit_no_record end
  else Err err_unknown_variable.
Definition limit_eval (cols : list Z) (e : limexpr) : outcome bool :=
  match lvars e with
  | _ :: _ => Err err_unknown_variable
  | [] => if lint e then Ok true else Err err_not_int
  end.

(* ---- 13. JSON datasource getOctoSQLValue on list types: the type of the empty list has no element type
   (t.List.Element == nil).  Pinned: a non-empty array dereferences it.  After the fix (C24): only an empty array
   fits that type. ---- *)
Inductive jty := JList (elem : option jty) | JScalarTy.
Inductive jv := JArr (l : list jv) | JScalar.
Fixpoint get_value (pinned : bool) (t : jty) (v : jv) {struct v} : outcome bool :=
  match t, v with
  | JList None, JArr [] => Ok true
  | JList None, JArr (_ :: _) => if pinned then Panic site_json_nil_element else Ok false
  | JList (Some et), JArr l =>
      (fix go (l : list jv) : outcome bool :=
         match l with
         | [] => Ok true
         | x :: rest => obind (get_value pinned et x) (fun a => obind (go rest) (fun b => Ok (a && b)))
         end) l
  | JScalarTy, JScalar => Ok true
  | _, _ => Ok false
  end.

(* ---- 14. StreamJoin / OuterJoin receiveRecord: a retraction does subitem.EventTimes = subitem.EventTimes[1:]; for a row
   that is not in the tree the sub-item was just created with no event times.  Still in the tree on main: finding
   class c18-join-retraction-unmatched (reached in-process by a retraction that is processed before its insertion; no
   SQL query over files was found to reach it). ---- *)
Definition join_retract_pinned (times : list Z) : outcome (list Z) :=
  match times with [] => Panic site_join_retraction | _ :: rest => Ok rest end.
Definition join_retract (times : list Z) : outcome (list Z) :=
  match times with [] => Ok [] | _ :: rest => Ok rest end.
(* the event-time list of one row after a sequence of insertions (false) and retractions (true) *)
Fixpoint join_row_history (pinned : bool) (times : list Z) (ops : list bool) : outcome (list Z) :=
  match ops with
  | [] => Ok times
  | false :: rest => join_row_history pinned (times ++ [0]) rest
  | true :: rest => obind (if pinned then join_retract_pinned times else join_retract times)
                          (fun t => join_row_history pinned t rest)
  end.

(* ---- 15. COALESCE: calculateMapping(targetType, sourceType) for tuples ranges over the TARGET's elements and reads
   sourceType.Tuple.Elements[i]; the output type of COALESCE over tuples of different lengths is the longer tuple.
   Runs when the plan is materialized, outside the recover.  Still on main: C13's finding coalesce-tuple-length. ---- *)
Definition coalesce_mapping_pinned (target_len : nat) (source_lens : list nat) : outcome unit :=
  if forallb (fun n => target_len <=? n)%nat source_lens then Ok tt else Panic site_coalesce_tuple.
Definition coalesce_mapping (target_len : nat) (source_lens : list nat) : outcome unit :=
  if forallb (fun n => target_len <=? n)%nat source_lens then Ok tt else Err err_tuple_length.

(* ---- 16. string repetition beyond memory: the count is non-negative and len*count fits an int, but not the machine.
   [mem] = the largest allocation the runtime grants.  Still on main: C13's finding repeat-beyond-memory. ---- *)
Definition repeat_alloc_pinned (mem len count : Z) : outcome Z :=
  obind (repeat_len len count) (fun n => if mem <? n then Panic site_repeat_memory else Ok n).
Definition repeat_alloc (mem len count : Z) : outcome Z :=
  obind (repeat_len len count) (fun n => if mem <? n then Err err_too_long else Ok n).

(* ---- the differential case: what the CLI did on one generated query ----
   (crashed: stderr has "panic:" / "goroutine " or the exit status is 2) *)
Definition c07_case : Type := bool.
Definition c07_spec (crashed : c07_case) : bool := negb crashed.
