(* Model/JoinDelivery.v — C06, joins at channel level.  Executable definitions only.
   Reuses (read-only) the two-producer / one-receive-loop transition system of StreamJoin.Run / OuterJoin.Run that
   C29 built and ties to the real joins by replaying traced runs (Model/Concurrency.v, part (b)): two producer
   goroutines send data messages on channels of capacity cap, a producer whose source failed sends the error as
   its last message WITH A BLOCKING SEND (NErr is enabled only while the channel has room) and then closes; the
   receive loop takes messages of the sides it listens to, returns at once on an error message or when a
   processing action fails (np_fail), switches phase when a side is closed and drained, and returns after the
   second side is closed and drained.  That last step is the only one by which Run can return nil. *)
From Octo Require Import Base.
From Octo Require Export Concurrency.
Open Scope nat_scope.

(* the step by which Run returns through its final flush: the only return that can be nil *)
Definition nil_return_step (s : nstate) (l : nlabel) : bool :=
  match l, n_m s with
  | NClosed _, MOnly _ => true
  | _, _ => false
  end.

(* the returns that certainly carry an error: an error message was received, or a processing action failed *)
Definition error_return_step (p : nparams) (s : nstate) (l : nlabel) : bool :=
  match l with
  | NRecv d => match p_ch (nget s d) with
               | MErr :: _ => true
               | MData :: _ => match np_fail p with Some k => Nat.eqb k (n_acts s) | None => false end
               | [] => false
               end
  | NClosed _ => match n_m s with
                 | MBoth => match np_fail p with Some k => Nat.eqb k (n_acts s) | None => false end
                 | _ => false
                 end
  | _ => false
  end.

(* ---- the seeded variant (C06-4's class): the producer hands its final error over with a non-blocking send
   `select { case ch <- err: default: }`: when the channel is full the error is dropped ---- *)
Inductive dlabel := DStd (l : nlabel) | DDrop (d : side).
Definition dstep (p : nparams) (s : nstate) (l : dlabel) : option nstate :=
  match l with
  | DStd l => nstep p s l
  | DDrop d =>
      let x := nget s d in
      match p_pc x with
      | PSend => if Nat.eqb (p_sent x) (np_n p d) && np_err p d && negb (Nat.ltb (length (p_ch x)) (np_cap p))
                 then Some (nset s d (mkprod (p_sent x) PClose (p_ch x) false)) else None
      | _ => None
      end
  end.
Fixpoint drun (p : nparams) (s : nstate) (tr : list dlabel) : option nstate :=
  match tr with
  | [] => Some s
  | l :: tr' => match dstep p s l with Some s' => drun p s' tr' | None => None end
  end.
