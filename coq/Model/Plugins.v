(* Model/Plugins.v — plugin discovery and version resolution (C28; reused by C27).  Executable only.
   Mirrors  plugins/manager/manager.go (ListInstalledPlugins, the version selection loop of Install),
            plugins/repository/repository.go (GetManifest's sort), cmd/root.go (dbLoop),
            github.com/Masterminds/semver v1.5.0 version.go (NewVersion, String, Compare, comparePrerelease,
            comparePrePart) and constraints.go (parseConstraint's dirty flags, the eight constraint functions,
            Constraints.Check).
   Strings are byte lists.  A version holds its prerelease already split on '.', [] = no prerelease. *)
From Octo Require Export Base.

Definition bytes := list Z.

Fixpoint bytes_eqb (a b : bytes) : bool :=
  match a, b with
  | [], [] => true
  | x :: xs, y :: ys => (x =? y) && bytes_eqb xs ys
  | _, _ => false
  end.

(* Go's < on strings: bytewise lexicographic *)
Fixpoint bytes_ltb (a b : bytes) : bool :=
  match a, b with
  | _, [] => false
  | [], _ :: _ => true
  | x :: xs, y :: ys => if x <? y then true else if y <? x then false else bytes_ltb xs ys
  end.

Definition is_nil {A} (l : list A) : bool := match l with [] => true | _ => false end.

(* ------------------------------------------------------------------------------------------------ *)
(* decimal numbers *)
Definition is_digit (c : Z) : bool := (48 <=? c) && (c <=? 57).
Fixpoint digits_val (acc : Z) (s : bytes) : Z :=
  match s with [] => acc | c :: t => digits_val (acc * 10 + (c - 48)) t end.

(* strconv.ParseUint(s, 10, 64): digits only, non-empty, below 2^64 *)
Definition parse_uint (s : bytes) : option Z :=
  match s with
  | [] => None
  | _ => if forallb is_digit s then (let v := digits_val 0 s in if v <? two64 then Some v else None) else None
  end.
(* strconv.ParseInt(s, 10, 64) on a digit string (the regexp allows no sign) *)
Definition parse_int63 (s : bytes) : option Z :=
  match s with
  | [] => None
  | _ => if forallb is_digit s then (let v := digits_val 0 s in if v <? two63 then Some v else None) else None
  end.

(* %d of a non-negative number.  20 digits cover every value below 2^64; used for int64 segments and,
   in hypotheses, to say "this numeric identifier is written without leading zeros". *)
Fixpoint dec_fuel (fuel : nat) (n : Z) (acc : bytes) : bytes :=
  match fuel with
  | O => acc
  | S f => let acc' := (48 + n mod 10) :: acc in if n <? 10 then acc' else dec_fuel f (n / 10) acc'
  end.
Definition dec (n : Z) : bytes := dec_fuel 20 n [].

(* ------------------------------------------------------------------------------------------------ *)
(* semver.Version *)
Record version := mkV { vmaj : Z; vmin : Z; vpat : Z; vpre : list bytes; vmeta : bytes }.

(* comparePrePart *)
Definition cmp_pre_part (s o : bytes) : Z :=
  if bytes_eqb s o then 0 else
  match s, o with
  | [], _ => -1
  | _, [] => 1
  | _, _ =>
      match parse_uint o, parse_uint s with
      | None, None => if bytes_ltb o s then 1 else -1       (* both strings: s > o ? 1 : -1 *)
      | None, Some _ => -1                                   (* o is a string and s is a number *)
      | Some _, None => 1                                    (* s is a string and o is a number *)
      | Some oi, Some si => if oi <? si then 1 else -1       (* si > oi ? 1 : -1 *)
      end
  end.

(* comparePrerelease: part by part, the shorter list padded with "" *)
Fixpoint cmp_pre (s o : list bytes) {struct s} : Z :=
  match s with
  | [] => (fix go (o : list bytes) : Z :=
             match o with
             | [] => 0
             | y :: ys => let d := cmp_pre_part [] y in if d =? 0 then go ys else d
             end) o
  | x :: xs =>
      match o with
      | [] => let d := cmp_pre_part x [] in if d =? 0 then cmp_pre xs [] else d
      | y :: ys => let d := cmp_pre_part x y in if d =? 0 then cmp_pre xs ys else d
      end
  end.

(* Version.Compare *)
Definition vcompare (v o : version) : Z :=
  if vmaj v <? vmaj o then -1 else if vmaj o <? vmaj v then 1 else
  if vmin v <? vmin o then -1 else if vmin o <? vmin v then 1 else
  if vpat v <? vpat o then -1 else if vpat o <? vpat v then 1 else
  match vpre v, vpre o with
  | [], [] => 0
  | [], _ => 1
  | _, [] => -1
  | ps, po => cmp_pre ps po
  end.

Definition vgt (a b : version) : bool := vcompare a b =? 1.        (* GreaterThan *)
Definition vlt (a b : version) : bool := vcompare a b <? 0.        (* LessThan *)
Definition vequal (a b : version) : bool := vcompare a b =? 0.     (* Equal *)
Definition vle (a b : version) : bool := vcompare a b <=? 0.
Definition version_le (a b : version) : Prop := vcompare a b <= 0.

(* well-formed: what NewVersion can return, with numeric identifiers written canonically *)
Definition ident_char (c : Z) : bool :=
  is_digit c || ((65 <=? c) && (c <=? 90)) || ((97 <=? c) && (c <=? 122)) || (c =? 45).
Definition canon_part (s : bytes) : bool :=
  negb (is_nil s) && match parse_uint s with Some n => bytes_eqb s (dec n) | None => true end.
Definition canon_version (v : version) : bool := forallb canon_part (vpre v).

(* ------------------------------------------------------------------------------------------------ *)
(* NewVersion: ^v?([0-9]+)(\.[0-9]+)?(\.[0-9]+)?(-ident(\.ident)* )?(\+ident(\.ident)* )?$ *)
Fixpoint span_digits (s : bytes) : bytes * bytes :=
  match s with
  | c :: t => if is_digit c then let '(d, r) := span_digits t in (c :: d, r) else ([], s)
  | [] => ([], [])
  end.

(* strings.Split(s, sep) for a one-byte separator *)
Fixpoint split_on (sep : Z) (s : bytes) : list bytes :=
  match s with
  | [] => [[]]
  | c :: t =>
      if c =? sep then [] :: split_on sep t
      else match split_on sep t with
           | p :: ps => (c :: p) :: ps
           | [] => [[c]]
           end
  end.

Definition valid_ident (p : bytes) : bool := negb (is_nil p) && forallb ident_char p.
Definition valid_dotted (s : bytes) : bool := forallb valid_ident (split_on 46 s).

(* text before / after the first occurrence of c *)
Fixpoint cut_at (c : Z) (s : bytes) : bytes * option bytes :=
  match s with
  | [] => ([], None)
  | x :: t => if x =? c then ([], Some t) else let '(a, b) := cut_at c t in (x :: a, b)
  end.

(* an optional ".digits" segment: Some (value, rest); None = ParseInt range error *)
Definition opt_segment (s : bytes) : option (option Z * bytes) :=
  match s with
  | 46 :: t =>
      let '(d, r) := span_digits t in
      match d with
      | [] => Some (None, s)                     (* '.' not followed by a digit: the group does not match *)
      | _ => match parse_int63 d with Some n => Some (Some n, r) | None => None end
      end
  | _ => Some (None, s)
  end.

Definition parse_tail (maj mi pa : Z) (r : bytes) : option version :=
  match r with
  | [] => Some (mkV maj mi pa [] [])
  | 45 :: t =>
      let '(p, m) := cut_at 43 t in
      if valid_dotted p then
        match m with
        | None => Some (mkV maj mi pa (split_on 46 p) [])
        | Some m' => if valid_dotted m' then Some (mkV maj mi pa (split_on 46 p) m') else None
        end
      else None
  | 43 :: m' => if valid_dotted m' then Some (mkV maj mi pa [] m') else None
  | _ => None
  end.

Definition parse_version (s : bytes) : option version :=
  let s1 := match s with 118 :: t => t | _ => s end in
  let '(d, r) := span_digits s1 in
  match d with
  | [] => None
  | _ =>
    match parse_int63 d with
    | None => None
    | Some maj =>
      match opt_segment r with
      | None => None
      | Some (None, r1) => parse_tail maj 0 0 r1
      | Some (Some mi, r1) =>
          match opt_segment r1 with
          | None => None
          | Some (None, r2) => parse_tail maj mi 0 r2
          | Some (Some pa, r2) => parse_tail maj mi pa r2
          end
      end
    end
  end.

Fixpoint join_with (sep : Z) (l : list bytes) : bytes :=
  match l with
  | [] => []
  | [x] => x
  | x :: t => x ++ sep :: join_with sep t
  end.

(* Version.String *)
Definition print_version (v : version) : bytes :=
  dec (vmaj v) ++ 46 :: dec (vmin v) ++ 46 :: dec (vpat v)
  ++ (match vpre v with [] => [] | p => 45 :: join_with 46 p end)
  ++ (match vmeta v with [] => [] | m => 43 :: m end).

(* ------------------------------------------------------------------------------------------------ *)
(* constraints *)
Inductive cop := OpEq | OpNe | OpGt | OpLt | OpGe | OpLe | OpTilde | OpCaret.   (* "" and "=" are OpEq, "=>" is OpGe … *)
Inductive seg := SX | SN (n : Z).                                              (* x, X, * / a number *)
(* one comparison as the constraint regexp splits it: operator, major, optional ".minor" with an optional
   ".patch" behind it, prerelease identifiers *)
Record cspec := mkCS { cs_op : cop; cs_maj : seg; cs_rest : option (seg * option seg); cs_pre : list bytes }.
Record constr := mkC { c_op : cop; c_con : version; c_minor_dirty : bool; c_patch_dirty : bool; c_dirty : bool }.

(* parseConstraint *)
Definition parse_constraint (s : cspec) : constr :=
  match cs_maj s with
  | SX => mkC (cs_op s) (mkV 0 0 0 [] []) false false true
  | SN maj =>
      match cs_rest s with
      | None | Some (SX, _) => mkC (cs_op s) (mkV maj 0 0 (cs_pre s) []) true false true
      | Some (SN mi, Some SX) => mkC (cs_op s) (mkV maj mi 0 (cs_pre s) []) false true true
      | Some (SN mi, None) => mkC (cs_op s) (mkV maj mi 0 (cs_pre s) []) false false false
      | Some (SN mi, Some (SN pa)) => mkC (cs_op s) (mkV maj mi pa (cs_pre s) []) false false false
      end
  end.

Definition has_pre (v : version) : bool := negb (is_nil (vpre v)).
(* "a pre-release on the version but the constraint isn't looking for them" *)
Definition pre_rule (v : version) (c : constr) : bool := has_pre v && negb (has_pre (c_con c)).

Definition c_tilde (v : version) (c : constr) : bool :=
  if pre_rule v c then false else
  if vlt v (c_con c) then false else
  if (vmaj (c_con c) =? 0) && (vmin (c_con c) =? 0) && (vpat (c_con c) =? 0)
     && negb (c_minor_dirty c) && negb (c_patch_dirty c) then true else
  if negb (vmaj v =? vmaj (c_con c)) then false else
  if negb (vmin v =? vmin (c_con c)) && negb (c_minor_dirty c) then false else true.

Definition check1 (v : version) (c : constr) : bool :=
  let con := c_con c in
  match c_op c with
  | OpEq => if pre_rule v c then false else if c_dirty c then c_tilde v c else vequal v con
  | OpNe =>
      if c_dirty c then
        if pre_rule v c then false else
        if negb (vmaj con =? vmaj v) then true else
        if negb (vmin con =? vmin v) && negb (c_minor_dirty c) then true else false
      else negb (vequal v con)
  | OpGt => if pre_rule v c then false else vcompare v con =? 1
  | OpLt =>
      if pre_rule v c then false else
      if negb (c_dirty c) then vcompare v con <? 0 else
      if vmaj con <? vmaj v then false else
      if (vmin con <? vmin v) && negb (c_minor_dirty c) then false else true
  | OpGe => if pre_rule v c then false else 0 <=? vcompare v con
  | OpLe =>
      if pre_rule v c then false else
      if negb (c_dirty c) then vcompare v con <=? 0 else
      if vmaj con <? vmaj v then false else
      if (vmin con <? vmin v) && negb (c_minor_dirty c) then false else true
  | OpTilde => c_tilde v c
  | OpCaret =>
      if pre_rule v c then false else
      if vlt v con then false else
      if negb (vmaj v =? vmaj con) then false else true
  end.

(* Constraints: OR of ANDs *)
Definition constraints := list (list cspec).
Definition check (cs : constraints) (v : version) : bool :=
  existsb (fun ands => forallb (fun s => check1 v (parse_constraint s)) ands) cs.

(* Hyphen ranges.  NewConstraint first rewrites every "lo - hi" (two versions as the constraint regexp reads them,
   wildcards and missing segments allowed, separated by " - ") into ">= lo, <= hi" inside its AND group (rewriteRange);
   a configuration file or `plugin install name@...` can contain them. *)
Record vspec := mkVS { vs_maj : seg; vs_rest : option (seg * option seg); vs_pre : list bytes }.
Inductive citem := CI (c : cspec) | CR (lo hi : vspec).
Definition rewrite_range (g : list citem) : list cspec :=
  flat_map (fun it => match it with
                      | CI c => [c]
                      | CR lo hi => [mkCS OpGe (vs_maj lo) (vs_rest lo) (vs_pre lo); mkCS OpLe (vs_maj hi) (vs_rest hi) (vs_pre hi)]
                      end) g.
Definition constraints_src := list (list citem).
Definition desugar (s : constraints_src) : constraints := map rewrite_range s.

(* semver.NewConstraint("*"), what dbLoop substitutes for a database without a version *)
Definition star : constraints := [[mkCS OpEq SX None []]].

(* ------------------------------------------------------------------------------------------------ *)
(* sort.Slice(versions, func(j, k) { return v[j].GreaterThan(v[k]) }) — modelled by insertion sort; the Go sort
   is not stable, so the model is compared with it up to Compare = 0 *)
Fixpoint insert_desc (x : version) (l : list version) : list version :=
  match l with
  | [] => [x]
  | y :: t => if vgt x y then x :: l else y :: insert_desc x t
  end.
Fixpoint sort_desc (l : list version) : list version :=
  match l with [] => [] | x :: t => insert_desc x (sort_desc t) end.

(* ------------------------------------------------------------------------------------------------ *)
(* ListInstalledPlugins.  A tree is what os.ReadDir shows level by level:
   repository directory -> plugin directory -> names of the version directories. *)
Definition tree := list (bytes * list (bytes * list bytes)).
Record plugin_md := mkMD { md_name : bytes; md_repo : bytes; md_versions : list version }.

Fixpoint last_index_from (c : Z) (i : Z) (s : bytes) (best : Z) : Z :=
  match s with [] => best | x :: t => last_index_from c (i + 1) t (if x =? c then i else best) end.
Definition last_index (c : Z) (s : bytes) : Z := last_index_from c 0 s (-1).      (* strings.LastIndex(s, "-") *)
Definition drop (n : Z) (s : bytes) : bytes := skipn (Z.to_nat n) s.              (* s[n:], 0 <= n <= len s *)

(* the pinned code: firstDashIndex, secondDashIndex, name[secondDashIndex+1:] *)
Definition plugin_name_pinned (dir : bytes) : bytes :=
  let first := last_index 45 dir in
  let second := first + 1 + last_index 45 (drop (first + 1) dir) in
  drop (second + 1) dir.

Definition plugin_prefix : bytes := [111;99;116;111;115;113;108;45;112;108;117;103;105;110;45].   (* "octosql-plugin-" *)
Fixpoint trim_prefix (p s : bytes) : option bytes :=
  match p, s with
  | [], _ => Some s
  | a :: p', b :: s' => if a =? b then trim_prefix p' s' else None
  | _ :: _, [] => None
  end.
(* after the fix: strings.TrimPrefix(dir.Name(), "octosql-plugin-") *)
Definition plugin_name (dir : bytes) : bytes :=
  match trim_prefix plugin_prefix dir with Some n => n | None => dir end.

Definition e_bad_version : Z := 1.      (* "couldn't parse plugin … version number" *)
Definition e_not_installed : Z := 2.    (* "… is not installed with the required version" *)
Definition e_version_not_found : Z := 3.  (* Install: "version not found" *)

Fixpoint parse_versions (names : list bytes) : outcome (list version) :=
  match names with
  | [] => Ok []
  | n :: t =>
      match parse_version n with
      | None => Err e_bad_version
      | Some v => obind (parse_versions t) (fun vs => Ok (v :: vs))
      end
  end.

Fixpoint list_plugins (namef : bytes -> bytes) (repo : bytes) (ps : list (bytes * list bytes)) : outcome (list plugin_md) :=
  match ps with
  | [] => Ok []
  | (dir, vnames) :: t =>
      obind (parse_versions vnames) (fun vs =>
      obind (list_plugins namef repo t) (fun rest =>
      Ok (mkMD (namef dir) repo (sort_desc vs) :: rest)))
  end.

(* [skip]: the directory Install stages a version in (".staging", after the staged-install fix) is not a repository *)
Definition staging_name : bytes := [46;115;116;97;103;105;110;103].
Fixpoint listed_with (namef : bytes -> bytes) (skip : bytes -> bool) (t : tree) : outcome (list plugin_md) :=
  match t with
  | [] => Ok []
  | (repo, ps) :: rest =>
      if skip repo then listed_with namef skip rest else
      obind (list_plugins namef repo ps) (fun cur =>
      obind (listed_with namef skip rest) (fun more => Ok (cur ++ more)))
  end.
Definition listed := listed_with plugin_name (bytes_eqb staging_name).
Definition listed_pinned := listed_with plugin_name_pinned (fun _ => false).

(* the tree a set of installations leaves: repository -> (plugin name -> version directory names) *)
Definition dir_of (name : bytes) : bytes := plugin_prefix ++ name.
Definition dir_tree (it : tree) : tree :=
  map (fun '(repo, ps) => (repo, map (fun '(name, vs) => (dir_of name, vs)) ps)) it.

(* the installations in listing order, and "every version directory name parses" *)
Definition flat (it : tree) : list (bytes * bytes * list bytes) :=
  concat (map (fun '(repo, ps) => map (fun '(name, vs) => (repo, name, vs)) ps) it).
Definition no_staging (it : tree) : bool := forallb (fun '(repo, _) => negb (bytes_eqb staging_name repo)) it.
Definition tree_parses (it : tree) : bool :=
  forallb (fun '(_, ps) => forallb (fun '(_, vs) => is_ok (parse_versions vs)) ps) it.
Definition parsed_or_nil (names : list bytes) : list version :=
  match parse_versions names with Ok vs => vs | _ => [] end.

(* ------------------------------------------------------------------------------------------------ *)
(* cmd/root.go dbLoop: the first listed plugin with the database's reference, its first version (they are
   sorted descending) that the constraint accepts; `break` after that plugin. *)
Definition ref_is (name repo : bytes) (p : plugin_md) : bool := bytes_eqb (md_name p) name && bytes_eqb (md_repo p) repo.
Definition resolve (l : list plugin_md) (name repo : bytes) (c : constraints) : option version :=
  match find (ref_is name repo) l with
  | Some p => find (check c) (md_versions p)
  | None => None
  end.

(* a configured database: name, plugin reference, optional constraint *)
Record dbcfg := mkDB { db_name : bytes; db_plugin : bytes; db_repo : bytes; db_constraint : option constraints }.
Definition db_cs (d : dbcfg) : constraints := match db_constraint d with Some c => c | None => star end.

(* all databases are resolved at start-up; the first failure aborts it *)
Fixpoint resolve_all (l : list plugin_md) (dbs : list dbcfg) : outcome (list (bytes * version)) :=
  match dbs with
  | [] => Ok []
  | d :: t =>
      match resolve l (db_plugin d) (db_repo d) (db_cs d) with
      | None => Err e_not_installed
      | Some v => obind (resolve_all l t) (fun r => Ok ((db_name d, v) :: r))
      end
  end.

(* ------------------------------------------------------------------------------------------------ *)
(* GetManifest sorts descending; Install takes the first version the constraint accepts, or the first
   without a prerelease when there is no constraint. *)
Definition pick (manifest : list version) (c : option constraints) : option version :=
  find (fun v => match c with Some cs => check cs v | None => is_nil (vpre v) end) (sort_desc manifest).

(* ------------------------------------------------------------------------------------------------ *)
(* executable oracles and the cases of engine c28 *)
Definition version_obs := (Z * Z * Z * list bytes * bytes)%type.
Definition vobs (v : version) : version_obs := (vmaj v, vmin v, vpat v, vpre v, vmeta v).
Definition vobs_eqb (a b : version_obs) : bool :=
  let '(a1, a2, a3, ap, am) := a in let '(b1, b2, b3, bp, bm) := b in
  (a1 =? b1) && (a2 =? b2) && (a3 =? b3) && list_eqb bytes_eqb ap bp && bytes_eqb am bm.
Definition of_obs (o : version_obs) : version := let '(a, b, c, p, m) := o in mkV a b c p m.

(* same precedence, position by position (the Go sort is unstable among Compare-equal versions) *)
Definition same_order (a b : list version) : bool := list_eqb vequal a b.

Fixpoint descending (l : list version) : bool :=
  match l with
  | a :: ((b :: _) as t) => vle b a && descending t
  | _ => true
  end.

Definition md_obs := (bytes * bytes * list version_obs)%type.      (* name, repository, versions *)
Definition md_tie (m : plugin_md) (o : md_obs) : bool :=
  let '(n, r, vs) := o in bytes_eqb (md_name m) n && bytes_eqb (md_repo m) r && same_order (md_versions m) (map of_obs vs).

Definition outcome_tie {A B} (f : A -> B -> bool) (m : outcome A) (o : outcome B) : bool :=
  match m, o with
  | Ok a, Ok b => f a b
  | Err e, Err e' => e =? e'
  | Panic s, Panic s' => s =? s'
  | _, _ => false
  end.

Fixpoint all2 {A B} (f : A -> B -> bool) (a : list A) (b : list B) : bool :=
  match a, b with
  | [], [] => true
  | x :: xs, y :: ys => f x y && all2 f xs ys
  | _, _ => false
  end.

Definition opt_tie {A B} (f : A -> B -> bool) (m : option A) (o : option B) : bool :=
  match m, o with Some a, Some b => f a b | None, None => true | _, _ => false end.

(* is v a maximum of the candidates accepted by p (up to equal precedence)? *)
Definition is_max_of (p : version -> bool) (cands : list version) (v : version) : bool :=
  existsb (fun w => vequal w v) (filter p cands) && p v && forallb (fun w => vle w v) (filter p cands).
Definition max_spec (p : version -> bool) (cands : list version) (r : option version) : bool :=
  match r with
  | Some v => is_max_of p cands v
  | None => is_nil (filter p cands)
  end.

Inductive c28_case :=
(* NewVersion(text) -> parsed fields, and String() of it *)
| KParse (text : bytes) (obs : option (version_obs * bytes))
(* a.Compare(b) *)
| KCmp (a b : version_obs) (obs : Z)
(* NewConstraint(render cs).Check(v) *)
| KCheck (cs : constraints) (v : version_obs) (obs : bool)
(* the same with hyphen ranges in the text: NewConstraint(render src) = rewriteRange then the above *)
| KCheckR (src : constraints_src) (v : version_obs) (obs : bool)
(* ListInstalledPlugins on a tree (entries in os.ReadDir order); installed = the tree was produced by installations,
   given as repository -> plugin name -> version directories, so the discovery oracle applies *)
| KList (installed : bool) (t : tree) (obs : outcome (list md_obs))
(* CLI start-up on an installed tree: which version the query against database [db] ran *)
| KResolve (it : tree) (dbs : list dbcfg) (db : bytes) (obs : outcome version_obs)
(* PluginManager.Install against a manifest: the version directory it created *)
| KPick (manifest : list version_obs) (c : option constraints) (obs : option version_obs).

Definition vobs_tie (v : version) (o : version_obs) : bool := vequal v (of_obs o).

Definition lookup_db (r : list (bytes * version)) (db : bytes) : option version :=
  match find (fun p => bytes_eqb (fst p) db) r with Some p => Some (snd p) | None => None end.

Definition model_resolve (it : tree) (dbs : list dbcfg) (db : bytes) : outcome version :=
  obind (listed (dir_tree it)) (fun l =>
  obind (resolve_all l dbs) (fun r =>
  match lookup_db r db with Some v => Ok v | None => Err e_not_installed end)).

Definition c28_tie (c : c28_case) : bool :=
  match c with
  | KParse text obs =>
      opt_tie (fun v '(o, s) => vobs_eqb (vobs v) o && bytes_eqb (print_version v) s) (parse_version text) obs
  | KCmp a b obs => vcompare (of_obs a) (of_obs b) =? obs
  | KCheck cs v obs => Bool.eqb (check cs (of_obs v)) obs
  | KCheckR src v obs => Bool.eqb (check (desugar src) (of_obs v)) obs
  | KList installed t obs =>
      outcome_tie (all2 md_tie) (listed (if installed then dir_tree t else t)) obs
  | KResolve it dbs db obs => outcome_tie vobs_tie (model_resolve it dbs db) obs
  | KPick manifest c obs => opt_tie vobs_tie (pick (map of_obs manifest) c) obs
  end.

Definition installed_versions (it : tree) (name repo : bytes) : list bytes :=
  concat (map (fun '(r, ps) => if bytes_eqb r repo
                               then concat (map (fun '(n, vs) => if bytes_eqb n name then vs else []) ps)
                               else []) it).

(* the property applied to the implementation's observation alone *)
Definition c28_spec (c : c28_case) : bool :=
  match c with
  | KList true t (Ok l) =>
      (* exactly the installed plugins, each under its own name, versions descending, none lost *)
      all2 (fun '(repo, name, vs) '(n, r, ovs) =>
                  bytes_eqb n name && bytes_eqb r repo && descending (map of_obs ovs)
                  && same_order (sort_desc (parsed_or_nil vs)) (map of_obs ovs))
               (flat t) l
  | KList true t _ => false            (* installed trees carry parseable versions: the listing must succeed *)
  | KResolve it dbs db obs =>
      match find (fun d => bytes_eqb (db_name d) db) dbs with
      | None => true
      | Some d =>
          let cands := parsed_or_nil (installed_versions it (db_plugin d) (db_repo d)) in
          match obs with
          | Ok o => is_max_of (check (db_cs d)) cands (of_obs o)
          | Err _ => existsb (fun d' => is_nil (filter (check (db_cs d'))
                                         (parsed_or_nil (installed_versions it (db_plugin d') (db_repo d'))))) dbs
          | Panic _ => false
          end
      end
  | KPick manifest c obs =>
      max_spec (fun v => match c with Some cs => check cs v | None => is_nil (vpre v) end)
               (map of_obs manifest) (option_map of_obs obs)
  | _ => true
  end.
