(* Model/Strings.v — Go strings as byte lists; UTF-8 as Go's `for range` / []rune(s) / string([]rune) see it;
   strings.Index, strings.Replace, ASCII case maps.  Executable definitions only.
   Bytes and runes are Z.  A "byte" outside 0..255 is treated like an invalid byte (never hidden). *)
From Octo Require Export Base.

Definition in_range (lo hi b : Z) : bool := (lo <=? b) && (b <=? hi).
Definition rune_error : Z := 65533.                      (* utf8.RuneError U+FFFD *)
Definition is_cont (b : Z) : bool := in_range 128 191 b. (* continuation byte 10xxxxxx *)

(* utf8.DecodeRuneInString: (rune, width).  Invalid or short encodings give (RuneError, 1); the empty
   string gives (RuneError, 0).  Second-byte ranges are the `acceptRanges` table of unicode/utf8
   (no overlong forms, no surrogates, nothing above U+10FFFF).  Arithmetic instead of bit masks:
   b0-192 = b0 & 0x1F for b0 in C2..DF, b1-128 = b1 & 0x3F for a continuation byte, etc. *)
Definition decode_rune (s : list Z) : Z * nat :=
  match s with
  | [] => (rune_error, 0%nat)
  | b0 :: t =>
      if in_range 0 127 b0 then (b0, 1%nat)
      else if in_range 194 223 b0 then
        match t with
        | b1 :: _ => if is_cont b1 then ((b0 - 192) * 64 + (b1 - 128), 2%nat) else (rune_error, 1%nat)
        | _ => (rune_error, 1%nat)
        end
      else if in_range 224 239 b0 then
        let lo := if b0 =? 224 then 160 else 128 in
        let hi := if b0 =? 237 then 159 else 191 in
        match t with
        | b1 :: b2 :: _ =>
            if in_range lo hi b1 && is_cont b2
            then ((b0 - 224) * 4096 + (b1 - 128) * 64 + (b2 - 128), 3%nat) else (rune_error, 1%nat)
        | _ => (rune_error, 1%nat)
        end
      else if in_range 240 244 b0 then
        let lo := if b0 =? 240 then 144 else 128 in
        let hi := if b0 =? 244 then 143 else 191 in
        match t with
        | b1 :: b2 :: b3 :: _ =>
            if in_range lo hi b1 && is_cont b2 && is_cont b3
            then ((b0 - 240) * 262144 + (b1 - 128) * 4096 + (b2 - 128) * 64 + (b3 - 128), 4%nat)
            else (rune_error, 1%nat)
        | _ => (rune_error, 1%nat)
        end
      else (rune_error, 1%nat)
  end.

(* `for i, r := range s`: the (byte offset, rune, width) triples.  [skip] = bytes of the current rune still
   to be stepped over, [off] = offset of the head of [s]. *)
Fixpoint range_from (skip off : nat) (s : list Z) : list (nat * Z * nat) :=
  match s with
  | [] => []
  | _ :: t =>
      match skip with
      | S k => range_from k (S off) t
      | O => let '(r, w) := decode_rune s in (off, r, w) :: range_from (pred w) (S off) t
      end
  end.
Definition range_str (s : list Z) : list (nat * Z * nat) := range_from 0 0 s.
(* []rune(s) *)
Definition decode (s : list Z) : list Z := map (fun x => snd (fst x)) (range_str s).
(* utf8.ValidString: no step of the range loop is the replacement for a broken encoding *)
Definition valid_utf8b (s : list Z) : bool :=
  forallb (fun x => negb ((snd (fst x) =? rune_error) && Nat.eqb (snd x) 1)) (range_str s).

(* utf8.AppendRune / strings.Builder.WriteRune / string(rune): surrogates, negative values and values above
   U+10FFFF are written as U+FFFD. *)
Definition valid_rune (r : Z) : bool := in_range 0 55295 r || in_range 57344 1114111 r.
Definition encode_rune (r : Z) : list Z :=
  if in_range 0 127 r then [r]
  else if in_range 128 2047 r then [192 + r / 64; 128 + r mod 64]
  else if in_range 2048 55295 r || in_range 57344 65535 r then
    [224 + r / 4096; 128 + (r / 64) mod 64; 128 + r mod 64]
  else if in_range 65536 1114111 r then
    [240 + r / 262144; 128 + (r / 4096) mod 64; 128 + (r / 64) mod 64; 128 + r mod 64]
  else [239; 191; 189].
(* string([]rune) *)
Definition encode (rs : list Z) : list Z := flat_map encode_rune rs.

Definition bytes_eqb : list Z -> list Z -> bool := list_eqb Z.eqb.

(* strings.HasPrefix t s *)
Fixpoint is_prefix (t s : list Z) : bool :=
  match t, s with
  | [], _ => true
  | a :: t', b :: s' => (a =? b) && is_prefix t' s'
  | _ :: _, [] => false
  end.

(* strings.Index(s, t): byte offset of the first occurrence, None for -1.  (The library uses faster search
   algorithms; its contract is this one.) *)
Fixpoint index_of (t s : list Z) : option nat :=
  if is_prefix t s then Some 0%nat
  else match s with
       | [] => None
       | _ :: s' => match index_of t s' with Some i => Some (S i) | None => None end
       end.

(* strings.Replace(s, old, new, -1) for a non-empty [old]: the loop `j := Index(s[start:], old); write
   s[start:j], new; start = j+len(old)`.  One iteration consumes at least one byte, so length s + 1 rounds
   suffice; running out of fuel is an explicit None. *)
Fixpoint replace_loop (fuel : nat) (s old new : list Z) : option (list Z) :=
  match fuel with
  | O => None
  | S f =>
      match index_of old s with
      | None => Some s
      | Some i =>
          match replace_loop f (skipn (i + length old) s) old new with
          | Some r => Some (firstn i s ++ new ++ r)
          | None => None
          end
      end
  end.
(* empty [old]: "matches at the beginning of the string and after each UTF-8 sequence" *)
Definition replace_empty (s new : list Z) : list Z :=
  new ++ flat_map (fun x => let '(off, _, w) := x in firstn w (skipn off s) ++ new) (range_str s).
Definition replace_all (s old new : list Z) : option (list Z) :=
  match old with
  | [] => Some (replace_empty s new)
  | _ => replace_loop (S (length s)) s old new
  end.

(* ASCII case maps (the fast path of strings.ToUpper / ToLower) *)
Definition is_ascii (b : Z) : bool := in_range 0 127 b.
Definition ascii_upper (b : Z) : Z := if in_range 97 122 b then b - 32 else b.
Definition ascii_lower (b : Z) : Z := if in_range 65 90 b then b + 32 else b.
Definition is_alnum (b : Z) : bool := in_range 48 57 b || in_range 65 90 b || in_range 97 122 b.
