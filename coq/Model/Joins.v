(* Model/Joins.v — execution/nodes/stream_join.go, outer_join.go, execution/record_event_time_buffer.go.
   Executable definitions only.  The two joins are message-level state machines exactly as
   StreamJoin.Run / OuterJoin.Run consume their two source channels: one [jstep] per message taken by
   the select (first loop, phase [Both]) or by the range loop over the channel that is still open
   (phase [OneOpen]).  Every interleaving of the two sources is a list of (side, message). *)
From Octo Require Export Changelog.

Inductive side := SL | SR.
Definition other (s : side) : side := match s with SL => SR | SR => SL end.
Definition side_eqb (a b : side) : bool := match a, b with SL, SL => true | SR, SR => true | _, _ => false end.

(* what a source goroutine puts on its channel: a record, a watermark, an error, then the close *)
Inductive msg := MRec (r : rec) | MWM (w : Z) | MErr | MClose.

(* ---- RecordEventTimeBuffer: a btree of (event time, records in arrival order), Less = Before ---- *)
Definition buf := list (Z * list rec).

Fixpoint buf_add (r : rec) (b : buf) : buf :=
  match b with
  | [] => [(et r, [r])]
  | (t, rs) :: b' =>
      if et r <? t then (et r, [r]) :: b
      else if t <? et r then (t, rs) :: buf_add r b'
      else (t, rs ++ [r]) :: b'
  end.

(* Emit: pop the minimum while it is not After the watermark *)
Fixpoint buf_emit (w : Z) (b : buf) : list rec * buf :=
  match b with
  | [] => ([], [])
  | (t, rs) :: b' => if w <? t then ([], b) else let '(out, rest) := buf_emit w b' in (rs ++ out, rest)
  end.

Definition buf_empty (b : buf) : bool := match b with [] => true | _ => false end.
Definition buf_recs (b : buf) : list rec := flat_map snd b.

(* ---- the record trees: tidwall btree keyed by the join key under CompareValueSlices; each item holds a
   btree of sub-items keyed by the whole record (same comparator) with the list of event times.
   Sorted association lists: Get finds the item that is neither less nor greater (row_eqb), Set of a new
   item inserts at its sorted position, stored keys are those of the first insertion. ---- *)
Section AList.
  Context {V : Type}.
  Definition alist := list (list value * V).
  Fixpoint afind (k : list value) (m : alist) : option V :=
    match m with
    | [] => None
    | (k', v) :: m' => if row_eqb k k' then Some v else afind k m'
    end.
  Fixpoint areplace (k : list value) (v : V) (m : alist) : alist :=
    match m with
    | [] => []
    | (k', v') :: m' => if row_eqb k k' then (k', v) :: m' else (k', v') :: areplace k v m'
    end.
  Fixpoint aremove (k : list value) (m : alist) : alist :=
    match m with
    | [] => []
    | (k', v') :: m' => if row_eqb k k' then m' else (k', v') :: aremove k m'
    end.
  Fixpoint ainsert (k : list value) (v : V) (m : alist) : alist :=
    match m with
    | [] => [(k, v)]
    | (k', v') :: m' => if slices_less k k' then (k, v) :: m else (k', v') :: ainsert k v m'
    end.
End AList.

Definition inner := @alist (list Z).           (* record values -> EventTimes *)
Definition tree := @alist inner.               (* join key -> sub-items *)

Definition site_retract_absent : Z := 1.        (* subitemTyped.EventTimes[1:] on an empty slice *)

(* the block "Update count in my record tree" for one sub-item tree *)
Definition inner_update (r : rec) (s : inner) : outcome inner :=
  match afind (vals r) s with
  | None => if retr r then Panic site_retract_absent else Ok (ainsert (vals r) [et r] s)
  | Some ets =>
      if retr r then
        match ets with
        | [] => Panic site_retract_absent
        | _ :: [] => Ok (aremove (vals r) s)
        | _ :: ets' => Ok (areplace (vals r) ets' s)
        end
      else Ok (areplace (vals r) (ets ++ [et r]) s)
  end.

(* returns the tree, firstRecordForThatKeyOnThisSide, lastRetractionForThatKeyOnThisSide *)
Definition tree_update (k : list value) (r : rec) (t : tree) : outcome (tree * (bool * bool)) :=
  match afind k t with
  | None =>
      obind (inner_update r []) (fun s' =>
        match s' with
        | [] => Ok (t, (true, true))
        | _ => Ok (ainsert k s' t, (true, false))
        end)
  | Some s =>
      obind (inner_update r s) (fun s' =>
        match s' with
        | [] => Ok (aremove k t, (false, true))
        | _ => Ok (areplace k s' t, (false, false))
        end)
  end.

Definition tree_lookup (k : list value) (t : tree) : inner :=
  match afind k t with Some s => s | None => [] end.

Definition inner_recs (s : inner) : list rec :=
  flat_map (fun e => map (fun t => mkrec (fst e) false t) (snd e)) s.
Definition tree_recs (t : tree) : list rec := flat_map (fun e => inner_recs (snd e)) t.

Definition has_null (k : list value) : bool := existsb (fun v => match v with VNull => true | _ => false end) k.

Definition later (a b : Z) : Z := if a <? b then b else a.     (* if b.After(a) { b } else { a } *)

Definition glue (s : side) (mine theirs : list value) : list value :=
  match s with SL => mine ++ theirs | SR => theirs ++ mine end.

(* "Trigger with all matching records from other record tree": Scan of the sub-items, one output per event time *)
Definition emit_matches (s : side) (r : rec) (subs : inner) : list rec :=
  flat_map (fun e => map (fun t => mkrec (glue s (vals r) (fst e)) (retr r) (later (et r) t)) (snd e)) subs.

Definition nulls (n : nat) : list value := repeat VNull n.

(* ---- join state ---- *)
Inductive jphase := Both | OneOpen (o : side) (one_stream_remains : bool) | Done | Errored | Panicked (site : Z).

Record jstate := mkst {
  ltree : tree; rtree : tree; lbuf : buf; rbuf : buf;
  lwm : Z; rwm : Z; minwm : Z; phase : jphase }.

Definition jinit : jstate := mkst [] [] [] [] zero_ns zero_ns zero_ns Both.

Definition tree_of (s : side) (st : jstate) : tree := match s with SL => ltree st | SR => rtree st end.
Definition buf_of (s : side) (st : jstate) : buf := match s with SL => lbuf st | SR => rbuf st end.
Definition wm_of (s : side) (st : jstate) : Z := match s with SL => lwm st | SR => rwm st end.
Definition set_tree (s : side) (t : tree) (st : jstate) : jstate :=
  match s with
  | SL => mkst t (rtree st) (lbuf st) (rbuf st) (lwm st) (rwm st) (minwm st) (phase st)
  | SR => mkst (ltree st) t (lbuf st) (rbuf st) (lwm st) (rwm st) (minwm st) (phase st)
  end.
Definition set_buf (s : side) (b : buf) (st : jstate) : jstate :=
  match s with
  | SL => mkst (ltree st) (rtree st) b (rbuf st) (lwm st) (rwm st) (minwm st) (phase st)
  | SR => mkst (ltree st) (rtree st) (lbuf st) b (lwm st) (rwm st) (minwm st) (phase st)
  end.
Definition set_wm (s : side) (w : Z) (st : jstate) : jstate :=
  match s with
  | SL => mkst (ltree st) (rtree st) (lbuf st) (rbuf st) w (rwm st) (minwm st) (phase st)
  | SR => mkst (ltree st) (rtree st) (lbuf st) (rbuf st) (lwm st) w (minwm st) (phase st)
  end.
Definition set_minwm (w : Z) (st : jstate) : jstate :=
  mkst (ltree st) (rtree st) (lbuf st) (rbuf st) (lwm st) (rwm st) w (phase st).
Definition set_phase (p : jphase) (st : jstate) : jstate :=
  mkst (ltree st) (rtree st) (lbuf st) (rbuf st) (lwm st) (rwm st) (minwm st) p.

Definition stopped (st : jstate) : bool :=
  match phase st with Panicked _ => true | Errored => true | Done => true | _ => false end.
Definition panicked (st : jstate) : bool := match phase st with Panicked _ => true | _ => false end.

(* markOneStreamRemains sets the open side's tree variable to nil *)
Definition tree_nil (s : side) (st : jstate) : bool :=
  match phase st with OneOpen o true => side_eqb s o | _ => false end.

(* receiveRecord of either join: side, record, oneStreamRemains, my tree, other tree -> my tree, emitted records *)
Definition recv_fn := side -> rec -> bool -> tree -> tree -> outcome (tree * list rec).

Section Run.
  Variable recv : recv_fn.
  (* the flag handed to processRecordsUpTo right after the first channel closes; whether the
     oneStreamRemains optimisation exists at all (StreamJoin: yes, OuterJoin: no) *)
  Variables (switch_flag use_mark : bool).

  Definition receive (s : side) (r : rec) (flag : bool) (st : jstate) : jstate * list event :=
    if stopped st then (st, []) else
    match recv s r flag (tree_of s st) (tree_of (other s) st) with
    | Ok (t', out) => (set_tree s t' st, map Rec out)
    | Err e => (set_phase Errored st, [])
    | Panic site => (set_phase (Panicked site) st, [])
    end.

  Fixpoint receive_all (s : side) (flag : bool) (rs : list rec) (st : jstate) : jstate * list event :=
    match rs with
    | [] => (st, [])
    | r :: rs' =>
        let '(st1, o1) := receive s r flag st in
        let '(st2, o2) := receive_all s flag rs' st1 in (st2, o1 ++ o2)
    end.

  (* one buffer's Emit(watermark, receiveRecord ...) *)
  Definition flush_side (s : side) (w : Z) (flag : bool) (st : jstate) : jstate * list event :=
    if tree_nil (other s) st then (st, []) else
    let '(out, rest) := buf_emit w (buf_of s st) in
    receive_all s flag out (set_buf s rest st).

  (* processRecordsUpTo: the left buffer, then the right buffer *)
  Definition process_up_to (w : Z) (flag : bool) (st : jstate) : jstate * list event :=
    let '(st1, o1) := flush_side SL w flag st in
    let '(st2, o2) := flush_side SR w flag st1 in (st2, o1 ++ o2).

  Definition on_record (s : side) (r : rec) (flag : bool) (st : jstate) : jstate * list event :=
    if et r =? zero_ns then receive s r flag st
    else (set_buf s (buf_add r (buf_of s st)) st, []).

  Definition jstep (st : jstate) (sm : side * msg) : jstate * list event :=
    let '(s, m) := sm in
    match phase st with
    | Both =>
        match m with
        | MClose =>
            let o := other s in
            let st0 := set_minwm (wm_of o st) st in
            let '(st1, o1) := process_up_to (wm_of o st) switch_flag st0 in
            if stopped st1 then (st1, o1)
            else (set_phase (OneOpen o (use_mark && buf_empty (buf_of s st1))) st1, o1)
        | MErr => (set_phase Errored st, [])
        | MWM w =>
            let st0 := set_wm s w st in
            let mn := if wm_of (other s) st0 <? wm_of s st0 then wm_of (other s) st0 else wm_of s st0 in
            if minwm st0 <? mn then
              let '(st1, o1) := process_up_to mn false (set_minwm mn st0) in
              if stopped st1 then (st1, o1) else (st1, o1 ++ [WM mn])
            else (st0, [])
        | MRec r => on_record s r false st
        end
    | OneOpen o flag =>
        if side_eqb s o then
          match m with
          | MErr => (set_phase Errored st, [])
          | MWM w =>
              let '(st1, o1) := process_up_to w flag st in
              if stopped st1 then (st1, o1)
              else
                let flag' := flag || (use_mark && buf_empty (buf_of (other o) st1)) in
                (* minWatermark is dead in the Go code after the switch; the model keeps the watermark
                   last forwarded in it (the "cut" of the invariant) *)
                (set_minwm w (set_phase (OneOpen o flag') st1), o1 ++ [WM w])
          | MRec r => on_record o r flag st
          | MClose =>
              let '(st1, o1) := process_up_to max_wm flag st in
              if stopped st1 then (st1, o1) else (set_phase Done st1, o1)
          end
        else (st, [])
    | _ => (st, [])
    end.

  (* per-message emissions, in order *)
  Fixpoint jrun_steps (st : jstate) (sigma : list (side * msg)) : jstate * list (list event) :=
    match sigma with
    | [] => (st, [])
    | sm :: rest =>
        let '(st1, o1) := jstep st sm in
        let '(st2, os) := jrun_steps st1 rest in (st2, o1 :: os)
    end.

  Definition jrun (st : jstate) (sigma : list (side * msg)) : jstate * list event :=
    let '(st', os) := jrun_steps st sigma in (st', concat os).
End Run.

(* ---- receiveRecord of the two joins ---- *)
Section Recv.
  Variables kl kr : list value -> list value.       (* the key expressions, evaluated on the record *)
  Definition key_of (s : side) (row : list value) : list value := match s with SL => kl row | SR => kr row end.

  (* [null_fix]: after the fix a record whose key contains NULL matches nothing *)
  Definition recv_stream (null_fix : bool) : recv_fn := fun s r flag my theirs =>
    let k := key_of s (vals r) in
    if null_fix && has_null k then Ok (my, []) else
    obind (if flag then Ok my else obind (tree_update k r my) (fun x => Ok (fst x))) (fun my' =>
    Ok (my', emit_matches s r (tree_lookup k theirs))).

  (* OuterJoin *)
  Variables (outer_l outer_r : bool) (nl nr : nat).
  Definition is_outer (s : side) : bool := match s with SL => outer_l | SR => outer_r end.

  Definition fit (n : nat) (vs : list value) : list value := firstn n (vs ++ nulls (n - length vs)).
  (* make([]Value, leftFieldCount+rightFieldCount); copy(out, vals) / copy(out[leftFieldCount:], vals) *)
  Definition pad_own (s : side) (vs : list value) : list value :=
    match s with
    | SL => fit (nl + nr) vs
    | SR => nulls nl ++ fit nr vs
    end.
  (* make([]Value, len(record.Values)+len(sub.GroupKey)); the other side's record next to NULLs *)
  Definition pad_theirs (s : side) (mine theirs : list value) : list value :=
    glue s (nulls (length mine)) theirs.
  Definition emit_pads (s : side) (r : rec) (retraction : bool) (subs : inner) : list rec :=
    flat_map (fun e => map (fun t => mkrec (pad_theirs s (vals r) (fst e)) retraction t) (snd e)) subs.

  Definition recv_outer (null_fix : bool) : recv_fn := fun s r _ my theirs =>
    let k := key_of s (vals r) in
    let alone := if is_outer s then [mkrec (pad_own s (vals r)) (retr r) (et r)] else [] in
    if null_fix && has_null k then Ok (my, alone) else
    obind (tree_update k r my) (fun x =>
      let '(my', (first, last)) := x in
      match afind k theirs with
      | None => Ok (my', alone)
      | Some [] => Ok (my', alone)
      | Some subs =>
          Ok (my',
              (if first && is_outer (other s) then emit_pads s r true subs else []) ++
              emit_matches s r subs ++
              (if last && is_outer (other s) then emit_pads s r false subs else []))
      end).

  (* ---- what the joins are supposed to compute ---- *)
  Definition key_match (a b : list value) : bool := negb (has_null a) && negb (has_null b) && row_eqb a b.

  Definition pair_rec (l r : rec) : rec := mkrec (vals l ++ vals r) (xorb (retr l) (retr r)) (later (et l) (et r)).
  (* the join of two changelogs, pair by pair *)
  Definition join_list (L R : list rec) : list rec :=
    flat_map (fun l => map (pair_rec l) (filter (fun r => key_match (kl (vals l)) (kr (vals r))) R)) L.

  (* the same on consolidated bags: rows are split at the left arity *)
  Definition bag_join (A B : list value -> Z) (x : list value) : Z :=
    let l := firstn nl x in let r := skipn nl x in
    if (nl <=? length x)%nat && key_match (kl l) (kr r) then A l * B r else 0.

  (* a row of one side has a partner when some row present on the other side has a matching key *)
  Definition has_partner (k : list value) (theirs : side) (X : list rec) : bool :=
    existsb (fun r => key_match k (key_of theirs (vals r)) && negb (consolidate X (vals r) =? 0)) X.
  Definition pads_of (s : side) (mine theirs : list rec) : list rec :=
    flat_map (fun r => if has_partner (key_of s (vals r)) (other s) theirs then []
                       else [mkrec (pad_own s (vals r)) (retr r) (et r)]) mine.
  Definition outer_list (L R : list rec) : list rec :=
    join_list L R ++ (if outer_l then pads_of SL L R else []) ++ (if outer_r then pads_of SR R L else []).
End Recv.

(* key expressions of the differential cases: column references *)
Definition proj (cols : list nat) (row : list value) : list value := map (fun i => nth i row VNull) cols.
Definition cols_ok (cols : list nat) (n : nat) : bool := forallb (fun i => (i <? n)%nat) cols.

(* ---- the nodes ---- *)
Section Nodes.
  Variables kl kr : list value -> list value.
  (* StreamJoin after the two fixes / as pinned (NULL keys match; flag true at the phase switch) *)
  Definition sj_step := jstep (recv_stream kl kr true) false true.
  Definition sj_run := jrun (recv_stream kl kr true) false true.
  Definition sj_run_steps := jrun_steps (recv_stream kl kr true) false true.
  Definition sj_step_pinned := jstep (recv_stream kl kr false) true true.
  Definition sj_run_pinned := jrun (recv_stream kl kr false) true true.
  Definition sj_run_nullfix_only := jrun (recv_stream kl kr true) true true.
  Definition sj_run_flagfix_only := jrun (recv_stream kl kr false) false true.

  Variables (outer_l outer_r : bool) (nl nr : nat).
  Definition oj_step := jstep (recv_outer kl kr outer_l outer_r nl nr true) false false.
  Definition oj_run := jrun (recv_outer kl kr outer_l outer_r nl nr true) false false.
  Definition oj_run_steps := jrun_steps (recv_outer kl kr outer_l outer_r nl nr true) false false.
  Definition oj_run_pinned := jrun (recv_outer kl kr outer_l outer_r nl nr false) false false.
End Nodes.

(* ---- schedules ---- *)
(* the order-preserving merges of two scripts *)
Inductive interleave : list msg -> list msg -> list (side * msg) -> Prop :=
| il_nil : interleave [] [] []
| il_left m l r s : interleave l r s -> interleave (m :: l) r ((SL, m) :: s)
| il_right m l r s : interleave l r s -> interleave l (m :: r) ((SR, m) :: s).

(* executable: the merge chosen by a list of sides (true = left); None if it does not consume both scripts *)
Fixpoint merge (choice : list bool) (l r : list msg) : option (list (side * msg)) :=
  match choice with
  | [] => match l, r with [], [] => Some [] | _, _ => None end
  | true :: c => match l with m :: l' => option_map (cons (SL, m)) (merge c l' r) | [] => None end
  | false :: c => match r with m :: r' => option_map (cons (SR, m)) (merge c l r') | [] => None end
  end.

Definition of_event (e : event) : msg := match e with Rec r => MRec r | WM w => MWM w end.
Definition script (es : list event) : list msg := map of_event es ++ [MClose].

Definition proj_side (s : side) (sigma : list (side * msg)) : list msg :=
  flat_map (fun sm => if side_eqb (fst sm) s then [snd sm] else []) sigma.
Definition msg_recs (l : list msg) : list rec :=
  flat_map (fun m => match m with MRec r => [r] | _ => [] end) l.
Definition received (s : side) (sigma : list (side * msg)) : list rec := msg_recs (proj_side s sigma).

(* records that count at watermark W: no event time, or event time at or below W *)
Definition le_cut (w : Z) (r : rec) : bool := (et r =? zero_ns) || (et r <=? w).
Definition restrict_le (w : Z) (l : list rec) : list rec := filter (le_cut w) l.

(* a source's script has no late records and monotone watermarks, from last watermark [w] on *)
Fixpoint well_timed_from (w : Z) (l : list msg) : bool :=
  match l with
  | [] => true
  | MRec r :: l' => ((et r =? zero_ns) || (w <? et r)) && well_timed_from w l'
  | MWM w' :: l' => (w <=? w') && well_timed_from w' l'
  | _ :: l' => well_timed_from w l'
  end.

(* nothing but records and watermarks, then (possibly) the close *)
Fixpoint plain_script (l : list msg) : bool :=
  match l with
  | [] => true
  | MClose :: l' => match l' with [] => true | _ => false end
  | MErr :: _ => false
  | _ :: l' => plain_script l'
  end.

(* ---- differential cases ---- *)
(* kind: 0 inner, 1 left outer, 2 right outer, 3 full outer *)
Record c19_case := mkc19 {
  c_kind : Z; c_kl : list nat; c_kr : list nat; c_nl : nat; c_nr : nat;
  c_left : list msg; c_right : list msg; c_choice : list bool;
  c_steps : list (list event);     (* observed: what the node emitted after each message it took *)
  c_status : Z                     (* observed: 0 returned nil, 1 returned an error, 2 panicked *)
}.

Definition status_of (st : jstate) : Z :=
  match phase st with Done => 0 | Errored => 1 | Panicked _ => 2 | _ => 3 end.

Definition c19_model (c : c19_case) (sigma : list (side * msg)) : jstate * list (list event) :=
  let kl := proj (c_kl c) in let kr := proj (c_kr c) in
  if c_kind c =? 0 then sj_run_steps kl kr jinit sigma
  else oj_run_steps kl kr ((c_kind c =? 1) || (c_kind c =? 3)) ((c_kind c =? 2) || (c_kind c =? 3)) (c_nl c) (c_nr c) jinit sigma.

Definition steps_eqb : list (list event) -> list (list event) -> bool := list_eqb events_eqb.

(* the node stops taking messages once it has returned: compare the steps it did take *)
Fixpoint steps_match (model observed : list (list event)) : bool :=
  match observed with
  | [] => forallb (fun o => match o with [] => true | _ => false end) model
  | o :: os => match model with m :: ms => events_eqb m o && steps_match ms os | [] => false end
  end.

Definition c19_tie (c : c19_case) : bool :=
  match merge (c_choice c) (c_left c) (c_right c) with
  | None => false
  | Some sigma =>
      cols_ok (c_kl c) (c_nl c) && cols_ok (c_kr c) (c_nr c) &&
      let '(st, os) := c19_model c sigma in
      steps_match os (c_steps c) && (status_of st =? c_status c)
  end.

Definition c19_expected (c : c19_case) (L R : list rec) : list rec :=
  let kl := proj (c_kl c) in let kr := proj (c_kr c) in
  if c_kind c =? 0 then join_list kl kr L R
  else outer_list kl kr ((c_kind c =? 1) || (c_kind c =? 3)) ((c_kind c =? 2) || (c_kind c =? 3)) (c_nl c) (c_nr c) L R.

Definition arity_is (n : nat) (l : list rec) : bool := forallb (fun r => (length (vals r) =? n)%nat) l.

Definition c19_input_ok (c : c19_case) : bool :=
  plain_script (c_left c) && plain_script (c_right c) &&
  arity_is (c_nl c) (msg_recs (c_left c)) && arity_is (c_nr c) (msg_recs (c_right c)) &&
  cols_ok (c_kl c) (c_nl c) && cols_ok (c_kr c) (c_nr c) &&
  forallb (fun r => et r <=? max_wm) (msg_recs (c_left c) ++ msg_recs (c_right c)).

Definition ends_closed (l : list msg) : bool := match rev l with MClose :: _ => true | _ => false end.

(* oracle 1: at end of stream the consolidated output is the join of the complete inputs *)
Definition c19_spec_final (c : c19_case) : bool :=
  negb (c19_input_ok c && ends_closed (c_left c) && ends_closed (c_right c) && (c_status c =? 0)) ||
  bag_eqb (records (concat (c_steps c))) (c19_expected c (msg_recs (c_left c)) (msg_recs (c_right c))).

(* oracle 2: whenever a step ends by emitting watermark W, the consolidated output so far is the join of
   the records received so far with no event time or event time <= W *)
Fixpoint at_wm_from (c : c19_case) (seen : list (side * msg)) (out : list event)
                    (sigma : list (side * msg)) (steps : list (list event)) : bool :=
  match sigma, steps with
  | sm :: sigma', o :: steps' =>
      let seen' := seen ++ [sm] in
      let out' := out ++ o in
      (match rev o with
       | WM w :: _ =>
           bag_eqb (records out')
                   (c19_expected c (restrict_le w (received SL seen')) (restrict_le w (received SR seen')))
       | _ => true
       end) && at_wm_from c seen' out' sigma' steps'
  | _, _ => true
  end.

Definition c19_spec_at_wm (c : c19_case) : bool :=
  match merge (c_choice c) (c_left c) (c_right c) with
  | None => false
  | Some sigma =>
      negb (c19_input_ok c && well_timed_from zero_ns (c_left c) && well_timed_from zero_ns (c_right c)) ||
      at_wm_from c [] [] sigma (c_steps c)
  end.

(* ---- the pinned-tree witnesses ---- *)
Definition k1 : list value -> list value := proj [0%nat].
(* (a) phase switch with oneStreamRemains = true: left [l(t=5,k=1); close], right [r(t=7,k=1); WM 10; close],
   schedule right,right,left,left,right *)
Definition w19_left : list msg := [MRec (mkrec [VInt 1; VInt 100] false 5); MClose].
Definition w19_right : list msg := [MRec (mkrec [VInt 1; VInt 200] false 7); MWM 10; MClose].
Definition w19_sigma : list (side * msg) :=
  [(SR, MRec (mkrec [VInt 1; VInt 200] false 7)); (SR, MWM 10);
   (SL, MRec (mkrec [VInt 1; VInt 100] false 5)); (SL, MClose); (SR, MClose)].
(* (b) NULL keys *)
Definition wnull_left : list msg := [MRec (mkrec [VNull; VInt 100] false zero_ns); MClose].
Definition wnull_right : list msg := [MRec (mkrec [VNull; VInt 200] false zero_ns); MClose].
Definition wnull_sigma : list (side * msg) :=
  [(SL, MRec (mkrec [VNull; VInt 100] false zero_ns)); (SR, MRec (mkrec [VNull; VInt 200] false zero_ns));
   (SL, MClose); (SR, MClose)].
